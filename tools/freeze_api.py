#!/venv/bin/python
"""Freeze the qualified names of all functions / methods / closures of the current /repo/rex into rexsa/known_api.json.
A function that is NOT in this table is treated by the evaluator as a helper introduced later and is analysed inline at
its call sites (so that 'extract helper' refactorings are transparent). Re-run only when the reference tree changes."""
import json, os, sys
sys.path.insert(0, os.path.dirname(os.path.dirname(os.path.abspath(__file__))))
from rexsa.model import Model
m = Model()
out = os.path.join(os.path.dirname(os.path.dirname(os.path.abspath(__file__))), "rexsa", "known_api.json")
json.dump({"source_digest": m.digest(), "functions": sorted(m.functions)}, open(out, "w"), indent=0)
print(len(m.functions), "functions frozen ->", out)
