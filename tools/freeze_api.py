#!/venv/bin/python
"""Freeze the qualified names of all functions / methods / closures of the current /repo/rex into rexsa/known_api.json.
A function that is NOT in this table is treated by the evaluator as a helper introduced later and is analysed inline at
its call sites (so that 'extract helper' refactorings are transparent). Re-run only when the reference tree changes."""
import json, os, sys
sys.path.insert(0, os.path.dirname(os.path.dirname(os.path.abspath(__file__))))
from rexsa.model import Model
m = Model()
out = os.path.join(os.path.dirname(os.path.dirname(os.path.abspath(__file__))), "rexsa", "known_api.json")
def params(fi):
    a = fi.node.args
    return [x.arg for x in a.posonlyargs + a.args + a.kwonlyargs] + (["*" + a.vararg.arg] if a.vararg else []) + (["**" + a.kwarg.arg] if a.kwarg else [])
from rexsa.model import fingerprint
json.dump({"source_digest": m.digest(), "functions": sorted(m.functions), "params": {q: params(fi) for q, fi in sorted(m.functions.items())},
           "fingerprint": {q: fingerprint(fi.node) for q, fi in sorted(m.functions.items()) if fi.parent is not None}}, open(out, "w"), indent=0)
print(len(m.functions), "functions frozen ->", out)
