#!/venv/bin/python
"""Regenerate the generated tables of DESIGN.md (between <!-- BEGIN:x --> / <!-- END:x --> markers) from the evidence files,
the self-test variants and /verif/seeded/*/meta.json, so that the numbers in the document are the measured ones."""
import glob, json, os, re, sys
VERIF = os.path.dirname(os.path.dirname(os.path.abspath(__file__)))
sys.path.insert(0, VERIF)
from rexsa import selftest

def rules_table():
    vs = selftest.load_variants()
    rows = ["| id | rules (obligations) | total | hand-written variants (breaking + preserving) | whole patches re-run (seeded + refactorings + transformations) |", "|---|---|---|---|---|"]
    for f in sorted(glob.glob(os.path.join(VERIF, "evidence", "C*.json"))):
        e = json.load(open(f)); c = e["coverage"]; pid = e["property_id"]
        mine = [v for v in vs if v["pid"] == pid]
        hw_f = sum(1 for v in mine if not v.get("patch") and not v.get("transform") and v["expect"] == "fire")
        hw_s = sum(1 for v in mine if not v.get("patch") and not v.get("transform") and v["expect"] == "silent")
        seeds = sum(1 for v in mine if v.get("patch") and v["expect"] == "fire")
        refs = sum(1 for v in mine if v.get("patch") and v["expect"] == "silent")
        trs = sum(1 for v in mine if v.get("transform"))
        rules = ", ".join(f"{k.split('.', 1)[1]} {sum(v.values())}" for k, v in c["per_rule"].items())
        kf = f" ({len(c.get('known_findings_matched', []))} known finding)" if c.get("known_findings_matched") else ""
        rows.append(f"| {pid} | {rules}{kf} | {c['obligations']} | {hw_f} + {hw_s} | {seeds} + {refs} + {trs} |")
    return "\n".join(rows)

def first_sentence(t, n=230):
    t = " ".join((t or "").split())
    return (t[:n] + " …") if len(t) > n else t

def seeds_table():
    rows = ["| seed | what the change does | needs, to manifest | reported by |", "|---|---|---|---|"]
    for d in sorted(glob.glob(os.path.join(VERIF, "seeded", "C*_*"))):
        m = json.load(open(os.path.join(d, "meta.json")))
        rep = "; ".join(f"`{r}`" for pid, rs in sorted(m.get("reported_by", {}).items()) for r in rs) or "**not reported**"
        errs = m.get("analysis_errors") or {}
        if errs:
            rep += " (exit 2 in " + ", ".join(sorted(errs)) + ")"
        rows.append(f"| {os.path.basename(d)} | {first_sentence(m.get('summary'))} | {first_sentence(m.get('needs_to_manifest'), 140)} | {rep} |")
    return "\n".join(rows)

def main():
    p = os.path.join(VERIF, "DESIGN.md")
    s = open(p).read()
    for name, fn in (("rules", rules_table), ("seeds", seeds_table)):
        a, b = f"<!-- BEGIN:{name} -->", f"<!-- END:{name} -->"
        if a in s and b in s:
            s = s[:s.index(a) + len(a)] + "\n" + fn() + "\n" + s[s.index(b):]
        else:
            print("marker missing:", name)
    open(p, "w").write(s)
    print("tables regenerated")

main()
