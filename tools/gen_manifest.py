#!/venv/bin/python
"""Regenerate /verif/MANIFEST.json from the claims table below (single source of truth for what is claimed)."""
import json
import os

VERIF = os.path.dirname(os.path.dirname(os.path.abspath(__file__)))
PY = "/venv/bin/python"

NOTE = ("Trusted base: python ast; the rexsa engine (terms/symeval/flow); the reference tables written from the property text "
        "inside rexsa/props/<id>.py; assumptions H1-H5 of DESIGN.md §2.5 (CPython/GIL atomicity, asserts hold, no external "
        "monkey-patching, documented semantics of jnp/deque/Future primitives, external libraries not analysed). "
        "Nothing in /repo is imported or executed.")

CLAIMS = {
    "C01": dict(
        technique="who-may-write analysis of the step rng, sibling comparison of the two runtimes' step protocol, role (units-of-measure) typing of field-to-field copies along the record->graph->window->timings->input chain",
        text="The equivalence of the two runtimes is NOT decided. Decided are structural necessary conditions: only graph initialisation constructs or replaces a "
             "step rng and both runtimes carry rng/state/params unchanged into the step; both replace exactly seq, ts, inputs (+ eps) from the schedule and "
             "increment seq by 1 on every stored result (async_step, _run_node, supervisor update, override); EpisodeRecord.to_graph, apply_window "
             "(Window.ts_sent <- sender ts_end[seq_out], window of step k = last with seq_in <= k, length = window + trainable extension), to_timings "
             "(same field, one slot index, one fill index) and InputState.from_outputs are role-preserving copies; the compiled payload lookup uses the "
             "writer's ring index; slots of a kind run in generation order; the offline and online ring shifts agree. Not decided: that equal inputs give "
             "equal outputs, float equality, supergraph placement.",
        ref="§5 C01"),
    "C02": dict(
        technique="thread-affinity (executor confinement) analysis, event-queue discipline (FIFO/SPSC/hand-off order/guarded joins), wall-clock taint under the simulated-clock specialisation, provenance of delay samplers, API call-sequence agreement",
        text="Thread schedules are not enumerated. Decided are the structural reasons why the schedule cannot matter: every state-touching wrapper "
             "function is confined to one single-worker executor, _submit always passes a bound method of the receiving object, task code reaches "
             "other wrappers only through _submit or the three frozen hand-off queue operations; event queues are used FIFO-only, a hand-off append "
             "precedes the _submit of its consumer, every popleft is dominated by a length guard; with clock == SIMULATED substituted no queue "
             "operation, _submit, header/record construction or step argument depends (by value or guard) on time.time(), now() or the real-time "
             "factor; the non-blocking selector waits for a receive time strictly in the future; delays come from the wrapper's own sampler seeded "
             "from the step rng, no ambient randomness; run/reset/step compose start, run_until_supervisor, run_supervisor as specified; values travel between task functions only through the "
             "event queues (a scalar attribute mutated by one task function is neither read nor written by another), the _submit gates accept exactly the "
             "reference states, the awaited arrival of a blocking step is the maximum over exactly the popped receive times. "
             "Not decided: confluence of the per-queue protocol itself (informal composition with C03), wall-clock behaviour.",
        ref="§5 C02"),
    "C03": dict(
        technique="ordering abstraction (truth tables over {lt,eq,gt} x flags) of the selection predicates, max-plus bounds, counter dataflow, structural comparison of ring-shift and grouping code",
        text="Decides: the LATEST / BUFFER consume predicates as exact truth tables incl. the skip tie rule and the expected-arrival formula; the "
             "strictly-in-the-future guard; the exactly-once tiling table of blocking windows (boundary tick to exactly one of two consecutive steps, "
             "first step takes everything earlier, scan start index and stride, t_high(N) = t_low(N+1)); recv = max(sent + delay, prev_recv) with "
             "prev_recv := recv and the recorded delay; counters start at 0 and advance by exactly 1 per tick / selection and stamp seq_in; ts_start >= "
             "ts_end_prev; the group handed to a step is the tail slice in arrival order with fields (seq_out, ts_sent, ts_recv, payload), every element "
             "is pushed in order, push rolls by -1 and stores at -1; the record filter keeps seq_in <= last recorded step; the episode filter dominates "
             "every mutation; every queue has its reference producer / consumer functions (nothing bypasses the selection); the BUFFER expected arrival uses "
             "the connection's own phase, read at every episode start. Not decided: wall-clock timing, that the future guard waits long enough under every delay distribution.",
        ref="§5 C03"),
    "C04": dict(
        technique="value numbering to max-plus normal forms (ast dataflow), compared with the reference recurrence per configuration valuation",
        text="Decides, as identities of max-plus normal forms on the simulated-clock branch of the threaded runtime and for every "
             "(only_blocking x scheduling) valuation: ts_sched = tick/rate + phase; ts_start = max(ts_max, ts_end_prev, ts_sched + drift) "
             "(schedule term dropped iff advance and all inputs blocking); drift' = max(drift, ts_end_prev - ts_sched) | 0 (PHASE); "
             "ts_end = ts_start + sampled delay and that the header, the next ts_end_prev and every consumer get it; "
             "recv = max(sent + delay, prev_recv) with prev_recv := recv; ts_max = max(0, awaited arrivals); record fields share these definitions; "
             "the graph generator's per-node scan follows the same law for the settings it supports (start(0) = phase, end = start + sampled delay, "
             "next start = max(end, start + 1/rate)). Not decided: the wall-clock branch, float rounding at 1e-6.",
        ref="§5 C04"),
    "C05": dict(
        technique="typestate automaton extraction and comparison, release-before-wait ordering of the user/supervisor hand-shake, enqueue=>trigger and guard=>pop dataflow over branch atoms, reset-completeness (mutated attributes subset of re-initialised attributes)",
        text="Termination in general is undecidable. Decided are the structural deadlock- and leak-freedom conditions: every _state assignment happens "
             "from exactly the reference predecessor states, _submit gates accept exactly the running states (or stopping=True) under the lock and "
             "return a cancelled future otherwise, STOPPING flip and submission of the stopping task share one lock region; the synchronizer publishes "
             "action and next-observation futures before resolving the observation, resolves before waiting, waits only while no stop is requested; "
             "stop() publishes the stop flag before inspecting/cancelling the newest action and waits afterwards; start() = stop, synchronizer reset, "
             "node resets, startup, wait, start; run_supervisor resolves the action exactly once; every append is followed on every path by a trigger "
             "of a function that pops that queue, every popleft is length-guarded; every attribute mutated by task code is unconditionally "
             "re-initialised on the start path (fresh deques, counters/drift/FIFO clamp to 0, episode counter first); the episode filter dominates "
             "every mutation in the header-receiving entries; start() blocks only on the startup futures and takes the time origin after them; the step is handed seq / ts = the episode's own "
             "tick and scheduled start; the lifecycle tasks reach their target state on every path; attributes of the wrapped node cleared at the end of an "
             "episode are restored at every episode start; the driving API as a typestate: run_until_supervisor and run_supervisor alternate inside every call and across "
             "every ordered pair of calls that does not restart the episode (three pairs fail on the pinned tree: known finding F2); the start-up look-ahead is at least "
             "the reference 10 ticks (it bounds the supported class). Not decided: user startup/stop/step terminating, wall-clock starvation, membership of a "
             "graph in the supported class.",
        ref="§5 C05"),
    "C06": dict(
        technique="path call-count dataflow over branch-condition atoms (A2) plus who-may-call (A1) on resolved call sites",
        text="Decides that on every path through each per-tick region of both runtimes the next link of the chain "
             "push_step -> _async_step -> async_step -> node.step / _run_generation -> cond -> _run_node -> node.step / run_supervisor is called "
             "exactly once, zero times on masked, skipped and user-overridden paths; that step-like methods are called from no other site; "
             "that the value handed on is the result of that one call and carries the tick's sequence number; that the supervisor's wrapper "
             "is redirected to the synchronizer, which never runs the step; that the wrapper's step chain is only ever rebound to its own jit / AOT-compiled "
             "form, and only under jit_step; the compiled schedule (slot fill, horizon = supervisor steps present in every episode). Not decided: XLA duplicating/eliminating effects, vmapped execution.",
        ref="§5 C06"),
    "C07": dict(
        technique="enum/branch exhaustiveness, ordering-abstraction tables of the edge / attachment / window-selection predicates, role typing of the schedule fill, ordering of generation execution",
        text="The partitioning itself is external (supergraph library, not analysed). Decided is what rex does around it: every Supergraph member has a branch "
             "defining S, the initial mapping and the monomorphisms, anything else raises, prune=False goes through to_connected_graph, growing and "
             "evaluating use the same graphs; to_networkx_graph skips padded vertices / unsent or unreceived messages, adds kind_(seq-1)->kind_seq for "
             "seq > 0 and sender_seq_out->receiver_seq_in; non-ancestors are attached iff ts_end <= supervisor ts_start with the two queues sorted by "
             "ts_start / ts_end; every to_timings copy is slot.F[eps, partition] = vertex.F[eps, seq], entries beyond the horizon skipped, templates "
             "run=False / seq=-1; generations[:-1] run in ascending order, slots of a kind stacked in generation order, the supervisor input update "
             "follows; apply_window semantics as in C01. Not decided: that the monomorphism covers every vertex once.",
        ref="§5 C07"),
    "C08": dict(
        technique="index-map agreement between the single writer and all readers of the ring buffers (provenance of index expressions), who-may-write, ordering-abstraction table of the admissibility check",
        text="Decides: update_output stores at seq % size(buffer) with size = leading dimension; every read of an output buffer by sequence number "
             "(_update_inputs, the no-op read of _run_generation) applies the same map with the size of the same buffer, on the producer's buffer with "
             "the producer's window; the one unmapped read (supervisor no-op value) is only selected under cond(step == 0); buffers are written only "
             "by update_output / replace_buffer, at the slot's own sequence number, once per generation after all its slots have read; the user size is "
             "rejected iff smaller than the computed minimum; minimum sizes aggregate over every reader of a producer; allocation is max(sizes) + "
             "extra_padding copies of init_output; default windows hold init_output; generations and the slots of a kind run in ascending generation order. Not decided: the arithmetic of get_buffer_sizes itself.",
        ref="§5 C08"),
    "C09": dict(
        technique="effect (purity) analysis of the compiled API cone, API call-sequence agreement, must-pass-through of the clip on every index use, provenance of user params",
        text="Decides: no function of the compiled API cone (32 functions) writes through self / a parameter / a free variable / a global or performs I/O "
             "outside raise paths; run/reset/step compose run_until_supervisor and run_supervisor as specified; rollout calls run exactly once per "
             "iteration, max_steps times from 0, both modes from the same clipped state; an override enters the same update as the supervisor's own "
             "result; replace_eps / replace_step store jnp.clip(x, 0, max-1) and every index use of step/eps goes through them; init reads user params "
             "first and passes starting_step / starting_eps on unmodified. Not decided: bitwise equality of jit / vmap vs eager.",
        ref="§5 C09"),
    "C13": dict(
        technique="same-origin provenance of every recorded field, non-interference (taint from record settings/state to execution sinks), index agreement of record write-back",
        text="Decides: in both runtimes every recorded field is a projection of the very StepState handed to the step or of that call's result (incl. "
             "delay == ts_end - ts_start in both clock branches, header ts == ts_end, adjusted ts under the wall clock), the next step starts from the "
             "returned state; nothing derived from record settings / record state reaches a queue operation, _submit, step argument, buffer or state "
             "update; record templates are -1 filled, rows are written at the slot's sequence number, a masked slot and a skipped supervisor step write back the row read at that "
             "index; with a record update_state returns the record-free result with only the record's output leaf replaced; the row of a skipped step carries no "
             "output; the record has one row per scheduled run over all partitions; step records stop at max_records. Not decided: dtype/shape fidelity.",
        ref="§5 C13"),
    "C14": dict(
        technique="role typing of conversion projections, sentinel table agreement (writer/reader of the -1 padding), leafwise indexing, set-membership guards of filter",
        text="Decides: EpisodeRecord.to_graph and WindowedGraph.to_graph copy field to field and cover every node, edges keyed (sender, receiver); "
             "Graph.stack / ExperimentRecord.stack pad at the end with -1 using host numpy, to_networkx_graph skips exactly the -1 entries; __getitem__ "
             "of Graph / Window / WindowedGraph / EpisodeRecord / InputState index every leaf; filter inserts a connection only if its sender is in "
             "`nodes` (both branches), drops exactly the unselected vertices and the edges outside the connection set, on copies. Not decided: ragged "
             "padding arithmetic.",
        ref="§5 C14"),
    "C16": dict(
        technique="provenance dataflow from parameters to attributes (A4), writer/reader table agreement (A8), normal-form comparison of the phase recurrence",
        text="Decides: set_delay makes each given parameter the new attribute value and keeps omitted ones; constructors store their parameters; "
             "default expected delay is quantile(0.99) and asserted non-negative; every constructor parameter is restored by from_info / "
             "connect_from_info from exactly the info field that was written from it (incl. the shadow input name and the output node); "
             "phase = max(0, non-skipped input phases), Connection.phase = sender phase_output + delay, phase_output = phase + delay, infos read "
             "the properties; the algebraic-loop handler re-raises on every path; connect always registers the connection it built; the wrappers read the phase "
             "at every episode start. Not decided: whether a changed delay reaches an already warmed-up async graph.",
        ref="§5 C16"),
    "C10": dict(
        technique="integer/max-plus normal forms of the window arithmetic, must-pass-through of the saturating clip, provenance of the generation-time delay, ordering-abstraction table of the arrival predicate, writer/reader table agreement of interp modes",
        text="The behavioural equivalence trainable(d) == static(d) is NOT decided. Decided: the window extension is W = int(ceil(sender rate * (max - min))), "
             "apply_window allocates window + W entries and apply_delay returns exactly `window` of them in every interp mode, both with the sender's rate; "
             "alpha is only set through clip((d - min)/(max - min), 0, 1) or the asserting constructor, init delays are looked up under the input's own name; "
             "graphs are generated with Deterministic(min) for trainable connections and a trainable computation delay is rejected; the delay is applied once "
             "per input and step with the carried distribution; the arrival predicate is m <= start (the static non-skip rule) — on a skipped connection the tie "
             "is treated differently from the static case (known finding F1); the interp strings accepted by create are exactly those handled. "
             "Not decided: interpolated values, gradients.",
        ref="§5 C10"),
    "C11": dict(
        technique="argument provenance of the interpolation (value numbering of knots, query times and values per leaf and mode), affine normal form of the query shift, table agreement of the two linear modes' dummy masking, no-stop_gradient path check",
        text="The interpolated values themselves (boundedness, continuity, gradient = finite-difference slope) are numerical and NOT decided. Decided, for both linear modes and "
             "all four window leaves: jnp.interp is asked about the right arrays - knots xp = the delayed arrival times ts_sent + min + alpha (max - min) (dummy entries keep "
             "their receive time; linear_real_only moves them to a constant far in the past, linear does not), the same array the arrival search uses; query times "
             "x = Q - Q[-1] + ts_start with Q the window slice of the knots ending at the newest arrived message, so the newest query is exactly the step start; values fp = "
             "the leaf itself (seq, ts_sent, delayed ts_recv, data), flat or flattened; one knot / query array for all leaves; alpha reaches the knots with no stop_gradient "
             "on the way. Not decided: axis bookkeeping of the batched (vmap) interpolation, dtype restoration, spacing of older entries beyond being the knots' own.",
        ref="§5 C11"),
    "C12": dict(
        technique="max-plus normal forms of the timestamp scan, ordering-abstraction tables of the assignment tie rule and horizon masks, key-membership guards of augment, exhaustiveness of the unsupported-setting rejections",
        text="Acyclicity and the sampled distributions are not decided. Decided: ts_start(0) = phase, ts_end = ts_start + sampled delay, ts_start(k+1) = "
             "max(ts_end, ts_start + 1/rate), rng split linearly, seq = -1 iff ts_end > horizon; a receiver step is accepted for a message iff start >= arrival "
             "(> if skipped), identically in the search loop and the final test, unassigned -> -1; messages of vertices beyond the horizon / never sent carry -1, "
             "ts_recv = sender ts_end + sampled delay; augment generates a vertex set / edge exactly when its key is missing and stores it under that key, and removes exactly the episode "
             "axis it added; the delay table holds each connection's own distribution; "
             "advance, PHASE, blocking and BUFFER raise before anything is generated.",
        ref="§5 C12"),
    "C15": dict(
        technique="sanitiser must-pass-through (clip at 0), PRNG-key linearity, effect analysis, closed-form normal forms of quantiles, provenance of the default expected delay and of the estimator's exported distribution",
        text="Decides: every static sample passes clip(., 0, None), a trainable delay is min + alpha (max - min) with asserted 0 <= min < max and clipped alpha; "
             "sample splits the stored key once, keeps one half and feeds the other to exactly one sampler on every return path, reset stores the given key; sample / reset / quantile "
             "/ mean / pdf have no outside effect; Deterministic.quantile = mean, Normal.quantile = ndtri(q) scale + loc, trainable = min + alpha (max - min), "
             "mixtures delegate to the grid routine on their own distribution (whose structure is checked: CDF evaluated on the grid the result indexes, "
             "first grid point with cdf > p, weighted component fallback, span check raises), unknown distributions raise; default expected delay = quantile(0.99), asserted "
             "non-negative; zero-spread data is exported as Deterministic(mean), otherwise a mixture with normalised weights and rescaled components whose weights, means and scales go through the same sort / pruning; standardisation and _rescale are inverse. "
             "Not decided: the mixture grid quantile's accuracy, fitted values.",
        ref="§5 C15"),
    "C17": dict(
        technique="rational-function normal forms (round-trip identities as polynomial identities), fold-order comparison, declared inverse pairs, leafwise fill rule",
        text="Decides: Denormalize uses offset (min+max)/2 and scale (max-min)/2 and normalize(denormalize(x)) == x, denormalize(normalize(y)) == y hold as identities "
             "of rational normal forms, -1 -> min, +1 -> max; Chain.apply folds first-to-last and Chain.inv folds inv over the reversed members; Exponential maps "
             "through exp / log; Identity returns its argument; Shared writes replace_fn / inverse_fn of the params at `where`; Extend takes the base leaf exactly "
             "where the supplied leaf is None, tree_extend flattens the partial tree against and rebuilds it with the template's tree definition, filter keeps the "
             "mask-selected leaves in the mask's structure, the mask marks the non-None leaves. Not decided: the jax / equinox pytree primitives, user lambdas, float rounding.",
        ref="§5 C17"),
    "C18": dict(
        technique="sanitiser must-pass-through (NaN -> inf) on every use of the raw losses, clip must-pass-through with role check, ordering-abstraction table of the best-so-far update",
        text="Decides: in the CEM update raw losses are only used inside where(isnan(l), inf, l), the evolutionary step tells the strategy the sanitised fitness of the "
             "asked population; every CEM sample is clip(mean + stdev * noise, u_min, u_max) and the strategy gets clip_min/max = flattened u_min/u_max; the best "
             "index is the first of an ascending argsort of the sanitised losses, the stored loss is min(old, new) in every ordering case, candidate and loss are "
             "selected by the same predicate, the initial best loss is +inf; cem() / evo() scan from the caller's state and thread the state returned by each step; cem_step evaluates and updates with exactly the "
             "clipped samples; evo asks with the solver's strategy params; the update predicate compares the two losses only. Not decided: evosax internals, elite statistics.",
        ref="§5 C18"),
    "C19": dict(
        technique="provenance dataflow of Environment.step and the auto-reset pass-through, closed-form normal forms of the episode log for done in {0,1}, rational normal forms of squash/unsquash (declared pair tanh/arctanh), agreement of the three running-moment clones with Chan's formula",
        text="Decides: Environment.init starts at step 1 with only_init and at step 0 + graph.reset otherwise, with the same settings; action -> get_output -> graph.step with the supervisor's pre-step state, reward / flags from the stepped state, observation / info from the "
             "post-step state; auto-reset passes reward and flags through and swaps state / observation / info iff terminated or truncated; the log wrapper's "
             "closed form for done in {0,1}; unsquash(scale(x)) == x and scale(unsquash(y)) == y, range [low, high], clip otherwise; the three batch-moment "
             "updates equal Chan's parallel formula with jnp.mean / jnp.var over axis 0 and count = number of environments, normalisation uses the updated "
             "state, the return estimate uses gamma (1 - done). Not decided: numerical equality with batch statistics.",
        ref="§5 C19"),
    "C20": dict(
        technique="table agreement of the activation maps, structural comparison of the manual forward pass with the flax module (layer indexes, activation placement, Gaussian head), flag agreement of normalisation call sites, provenance of the exported configuration",
        text="Numerical equality of nn.Dense(...).apply with the bound module is not decided. Decided: the Actor's activation chain and the Policy's table map the same "
             "four keys to the same flax functions; the Policy applies Dense_i + activation for i < n-1 from the normalised observation and Dense_{n-1} without "
             "activation, parameters from model['actor']; std = exp(log_std) in both, the rng-less action is the mean, the Actor's first layer sees the network input itself; get_action = normalize(clip=True, "
             "subtract_mean=True) -> apply_actor(rng) -> unsquash with the flags of the training wrapper and the evaluation loop; the exported policy takes "
             "hidden_activation / state_independent_std from the config fields given to the Actor, 'gaussian' is the Actor's un-overridden default, model = "
             "params['params'], obs scaling = aux['norm_obs'], act scaling = aux['act_scaling'][..., 0, :] leafwise, the aux keys are the ones the wrappers write, wrapper stack order. STATE_INDEPENDENT_STD=False is not a trainable "
             "configuration (DESIGN.md §6) and is out of scope.",
        ref="§5 C20"),
}

NOT_APPLICABLE = {
}


def main():
    props = [json.loads(l) for l in open(os.path.join(VERIF, "properties.jsonl"))]
    checks = []
    na = []
    for p in props:
        pid = p["id"]
        if pid in CLAIMS:
            c = CLAIMS[pid]
            checks.append({
                "property_id": pid,
                "quick_cmd": f"{PY} -m rexsa.check {pid} --tier quick",
                "thorough_cmd": f"{PY} -m rexsa.check {pid} --tier thorough",
                "evidence_file": f"evidence/{pid}.json",
                "replay_cmd_template": f"{PY} -m rexsa.check {pid} --replay {{path}}",
                "engine": "rexsa",
                "level_claimed": {"category": "other", "text": "Static analysis (partial claim: structural necessary conditions). " + c["text"],
                                  "design_ref": c["ref"]},
                "level_note": NOTE,
                "technique": c["technique"],
            })
        else:
            na.append({"property_id": pid, "reason": NOT_APPLICABLE.get(pid, "check not built yet (work in progress); see DESIGN.md")})
    m = {
        "version": 1,
        "setup_cmd": "true",
        "hooks": {"guard": "REX_VERIF", "enable": "none needed: checks parse /repo sources and execute nothing; no hook commits exist",
                  "baseline_off_cmd": "cd /repo && /venv/bin/python -m pytest -ra -q -p no:cacheprovider --timeout=900 --continue-on-collection-errors",
                  "source_commits": [], "add_only": True},
        "engines": [{"name": "rexsa", "path": "rexsa", "serves_properties": sorted(CLAIMS),
                     "kind_free_text": "repository-specific static analysis over the ast of /repo/rex: value numbering in a max-plus/rational term "
                                       "algebra, ordering abstraction, path call-count / must-precede dataflow over branch atoms, table and sibling agreement"}],
        "checks": checks,
        "notes": "Static analysis only; exit 0 holds, exit 1 VIOLATION, exit 2 ANALYSIS-ERROR (anchor vanished / outside the analysed algebra). See DESIGN.md.",
        "not_applicable": na,
    }
    json.dump(m, open(os.path.join(VERIF, "MANIFEST.json"), "w"), indent=1)
    print(f"claimed {len(checks)}: {[c['property_id'] for c in checks]}; not applicable/unclaimed {len(na)}")


if __name__ == "__main__":
    main()
