#!/venv/bin/python
"""Regenerate /verif/MANIFEST.json from the claims table below (single source of truth for what is claimed)."""
import json
import os

VERIF = os.path.dirname(os.path.dirname(os.path.abspath(__file__)))
PY = "/venv/bin/python"

NOTE = ("Trusted base: python ast; the rexsa engine (terms/symeval/flow); the reference tables written from the property text "
        "inside rexsa/props/<id>.py; assumptions H1-H5 of DESIGN.md §2.5 (CPython/GIL atomicity, asserts hold, no external "
        "monkey-patching, documented semantics of jnp/deque/Future primitives, external libraries not analysed). "
        "Nothing in /repo is imported or executed.")

CLAIMS = {
    "C04": dict(
        technique="value numbering to max-plus normal forms (ast dataflow), compared with the reference recurrence per configuration valuation",
        text="Decides, as identities of max-plus normal forms on the simulated-clock branch of the threaded runtime and for every "
             "(only_blocking x scheduling) valuation: ts_sched = tick/rate + phase; ts_start = max(ts_max, ts_end_prev, ts_sched + drift) "
             "(schedule term dropped iff advance and all inputs blocking); drift' = max(drift, ts_end_prev - ts_sched) | 0 (PHASE); "
             "ts_end = ts_start + sampled delay and that the header, the next ts_end_prev and every consumer get it; "
             "recv = max(sent + delay, prev_recv) with prev_recv := recv; ts_max = max(0, awaited arrivals); record fields share these definitions. "
             "Not decided: the wall-clock branch, float rounding at 1e-6.",
        ref="§5 C04"),
    "C06": dict(
        technique="path call-count dataflow over branch-condition atoms (A2) plus who-may-call (A1) on resolved call sites",
        text="Decides that on every path through each per-tick region of both runtimes the next link of the chain "
             "push_step -> _async_step -> async_step -> node.step / _run_generation -> cond -> _run_node -> node.step / run_supervisor is called "
             "exactly once, zero times on masked, skipped and user-overridden paths; that step-like methods are called from no other site; "
             "that the value handed on is the result of that one call and carries the tick's sequence number; that the supervisor's wrapper "
             "is redirected to the synchronizer, which never runs the step. Not decided: XLA duplicating/eliminating effects, vmapped execution.",
        ref="§5 C06"),
    "C16": dict(
        technique="provenance dataflow from parameters to attributes (A4), writer/reader table agreement (A8), normal-form comparison of the phase recurrence",
        text="Decides: set_delay makes each given parameter the new attribute value and keeps omitted ones; constructors store their parameters; "
             "default expected delay is quantile(0.99) and asserted non-negative; every constructor parameter is restored by from_info / "
             "connect_from_info from exactly the info field that was written from it (incl. the shadow input name and the output node); "
             "phase = max(0, non-skipped input phases), Connection.phase = sender phase_output + delay, phase_output = phase + delay, infos read "
             "the properties; the algebraic-loop handler re-raises on every path. Not decided: whether a changed delay reaches an already warmed-up async graph.",
        ref="§5 C16"),
}

NOT_APPLICABLE = {
    "C11": "every clause (interpolated value equals a piecewise-linear signal at a real-valued time, boundedness by neighbours, continuity, "
           "gradient = finite-difference slope) is a numerical identity over array contents produced by jnp.interp / dynamic_slice / argwhere; "
           "no sound static argument in reach bounds them (DESIGN.md §5 C11)",
}


def main():
    props = [json.loads(l) for l in open(os.path.join(VERIF, "properties.jsonl"))]
    checks = []
    na = []
    for p in props:
        pid = p["id"]
        if pid in CLAIMS:
            c = CLAIMS[pid]
            checks.append({
                "property_id": pid,
                "quick_cmd": f"{PY} -m rexsa.check {pid} --tier quick",
                "thorough_cmd": f"{PY} -m rexsa.check {pid} --tier thorough",
                "evidence_file": f"evidence/{pid}.json",
                "replay_cmd_template": f"{PY} -m rexsa.check {pid} --replay {{path}}",
                "engine": "rexsa",
                "level_claimed": {"category": "other", "text": "Static analysis (partial claim: structural necessary conditions). " + c["text"],
                                  "design_ref": c["ref"]},
                "level_note": NOTE,
                "technique": c["technique"],
            })
        else:
            na.append({"property_id": pid, "reason": NOT_APPLICABLE.get(pid, "check not built yet (work in progress); see DESIGN.md")})
    m = {
        "version": 1,
        "setup_cmd": "true",
        "hooks": {"guard": "REX_VERIF", "enable": "none needed: checks parse /repo sources and execute nothing; no hook commits exist",
                  "baseline_off_cmd": "cd /repo && /venv/bin/python -m pytest -ra -q -p no:cacheprovider --timeout=900 --continue-on-collection-errors",
                  "source_commits": [], "add_only": True},
        "engines": [{"name": "rexsa", "path": "rexsa", "serves_properties": sorted(CLAIMS),
                     "kind_free_text": "repository-specific static analysis over the ast of /repo/rex: value numbering in a max-plus/rational term "
                                       "algebra, ordering abstraction, path call-count / must-precede dataflow over branch atoms, table and sibling agreement"}],
        "checks": checks,
        "notes": "Static analysis only; exit 0 holds, exit 1 VIOLATION, exit 2 ANALYSIS-ERROR (anchor vanished / outside the analysed algebra). See DESIGN.md.",
        "not_applicable": na,
    }
    json.dump(m, open(os.path.join(VERIF, "MANIFEST.json"), "w"), indent=1)
    print(f"claimed {len(checks)}: {[c['property_id'] for c in checks]}; not applicable/unclaimed {len(na)}")


if __name__ == "__main__":
    main()
