#!/venv/bin/python
"""Apply a patch (unified diff against /repo) to a scratch copy of /repo/rex and run property checks on it.
usage: tools/try_patch.py <patch.diff> <PID> [<PID> ...]"""
import os, shutil, subprocess, sys, tempfile
patch = os.path.abspath(sys.argv[1]); pids = sys.argv[2:]
tmp = tempfile.mkdtemp(prefix="rexsa_tp_")
try:
    shutil.copytree("/repo/rex", os.path.join(tmp, "rex"), ignore=shutil.ignore_patterns("__pycache__"))
    p = subprocess.run(["patch", "-p1", "-s", "-d", tmp, "-i", patch], capture_output=True, text=True)
    if p.returncode != 0:
        print("PATCH FAILED", p.stdout, p.stderr); sys.exit(3)
    env = dict(os.environ, REXSA_REPO=tmp, REXSA_EVIDENCE_DIR=os.path.join(tmp, "ev"))
    for pid in pids:
        q = subprocess.run(["/venv/bin/python", "-m", "rexsa.check", pid], cwd=os.path.dirname(os.path.dirname(os.path.abspath(__file__))), env=env, capture_output=True, text=True)
        print(f"== {pid} exit={q.returncode}")
        for l in q.stdout.splitlines():
            print("   ", l[:400])
        if q.returncode not in (0, 1): print(q.stderr[-600:])
finally:
    shutil.rmtree(tmp, ignore_errors=True)
