#!/venv/bin/python
"""Confirm seeded changes myself: demo passes on the clean tree, fails with the patch, the existing unit tests still pass.
usage: tools/verify_seeds.py <worktree> <seed dir> [<seed dir> ...]   (writes verify.json into each seed dir)"""
import json, os, re, subprocess, sys, time
wt = sys.argv[1]
KNOWN = {"tests/unit/test_jax_utils.py::test_same_structure", "tests/unit/test_transforms.py::test_chain", "tests/unit/test_transforms.py::test_extend"}
def sh(cmd, timeout=1800):
    env = dict(os.environ, PYTHONPATH=wt)
    p = subprocess.run(cmd, shell=True, cwd=wt, env=env, capture_output=True, text=True, timeout=timeout)
    return p.returncode, p.stdout[-3000:], p.stderr[-1500:]
for sd in sys.argv[2:]:
    out = os.path.join(sd, "verify.json")
    if os.path.exists(out):
        continue
    res = {"seed": os.path.basename(sd), "at": time.strftime("%Y-%m-%d %H:%M:%S")}
    sh("git checkout -- rex && git clean -fdq rex")
    rc, so, se = sh(f"/venv/bin/python {sd}/demo.py", 900)
    res["demo_clean"] = {"exit": rc, "tail": so[-400:]}
    rc, so, se = sh(f"git apply {sd}/patch.diff")
    res["apply"] = rc
    if rc == 0:
        rc, so, se = sh(f"/venv/bin/python {sd}/demo.py", 900)
        res["demo_patched"] = {"exit": rc, "tail": so[-600:]}
        rc, so, se = sh("/venv/bin/python -m pytest -q -p no:cacheprovider --timeout=900 tests/unit 2>&1 | tail -15", 3000)
        failed = set(re.findall(r"FAILED (\S+)", so))
        m = re.search(r"(\d+) passed", so)
        res["tests"] = {"passed": int(m.group(1)) if m else None, "failed": sorted(failed), "unexpected_failures": sorted(failed - KNOWN)}
    sh("git checkout -- rex && git clean -fdq rex")
    res["confirmed"] = bool(res.get("apply") == 0 and res["demo_clean"]["exit"] == 0 and res.get("demo_patched", {}).get("exit") == 1
                            and res.get("tests", {}).get("passed") == 96 and not res["tests"]["unexpected_failures"])
    json.dump(res, open(out, "w"), indent=1)
    print(res["seed"], "CONFIRMED" if res["confirmed"] else "NOT CONFIRMED", json.dumps(res)[:600], flush=True)
