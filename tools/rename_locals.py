#!/venv/bin/python
"""Write a copy of /repo/rex in which every local variable is renamed (suffix _r): a whole-tree behaviour-preserving edit used to
find rules that depend on local names.  usage: tools/rename_locals.py <outdir> [--defs]   (--defs also renames nested function names)"""
import os, shutil, sys
sys.path.insert(0, os.path.dirname(os.path.dirname(os.path.abspath(__file__))))
from rexsa.transforms import rename_locals
out = sys.argv[1]
shutil.rmtree(out, ignore_errors=True)
shutil.copytree("/repo/rex", os.path.join(out, "rex"), ignore=shutil.ignore_patterns("__pycache__"))
print(f"renamed {rename_locals(out, defs='--defs' in sys.argv)} name occurrences -> {out}")
