#!/venv/bin/python
"""Write a copy of /repo/rex in which every local variable is renamed (suffix _r): a whole-tree behaviour-preserving edit used to
find rules that depend on local names.  usage: tools/rename_locals.py <outdir> [--defs]   (--defs also renames nested function names)"""
import ast, os, shutil, sys
out = sys.argv[1]; defs = "--defs" in sys.argv
shutil.rmtree(out, ignore_errors=True)
shutil.copytree("/repo/rex", os.path.join(out, "rex"), ignore=shutil.ignore_patterns("__pycache__"))
n_files = n_names = 0
for root, _, files in os.walk(os.path.join(out, "rex")):
    for f in files:
        if not f.endswith(".py"):
            continue
        p = os.path.join(root, f)
        tree = ast.parse(open(p).read())
        stores, banned = set(), set()
        for n in tree.body:  # module-level names
            for x in ast.walk(n) if isinstance(n, (ast.Assign, ast.AnnAssign, ast.AugAssign, ast.Import, ast.ImportFrom)) else []:
                if isinstance(x, ast.Name):
                    banned.add(x.id)
                if isinstance(x, ast.alias):
                    banned.add((x.asname or x.name).split(".")[0])
        nested_defs = set()
        for fn in ast.walk(tree):
            if isinstance(fn, (ast.FunctionDef, ast.AsyncFunctionDef, ast.Lambda)):
                a = fn.args
                for arg in a.posonlyargs + a.args + a.kwonlyargs + ([a.vararg] if a.vararg else []) + ([a.kwarg] if a.kwarg else []):
                    banned.add(arg.arg)
            if isinstance(fn, (ast.FunctionDef, ast.AsyncFunctionDef, ast.ClassDef)):
                banned.add(fn.name)
                if isinstance(fn, ast.FunctionDef):
                    for sub in ast.walk(fn):
                        if isinstance(sub, ast.FunctionDef) and sub is not fn:
                            nested_defs.add(sub.name)
            if isinstance(fn, (ast.Global, ast.Nonlocal)):
                banned.update(fn.names)
            if isinstance(fn, ast.ClassDef):
                for st in fn.body:
                    for x in ast.walk(st) if isinstance(st, (ast.Assign, ast.AnnAssign)) else []:
                        if isinstance(x, ast.Name):
                            banned.add(x.id)
        for fn in ast.walk(tree):
            if isinstance(fn, (ast.FunctionDef, ast.AsyncFunctionDef)):
                for x in ast.walk(fn):
                    if isinstance(x, ast.Name) and isinstance(x.ctx, ast.Store):
                        stores.add(x.id)
        if defs:
            banned -= {d for d in nested_defs if not d.startswith("__")}
            # only rename nested defs that are not also methods / module functions
            top = {n.name for n in tree.body if isinstance(n, (ast.FunctionDef, ast.ClassDef))} | {m.name for c in ast.walk(tree) if isinstance(c, ast.ClassDef) for m in c.body if isinstance(m, ast.FunctionDef)}
            ren_defs = nested_defs - top
        else:
            ren_defs = set()
        L = {s for s in stores if s not in banned and not s.startswith("__") and s != "_"}
        for x in ast.walk(tree):
            if isinstance(x, ast.Name) and (x.id in L or x.id in ren_defs):
                x.id = x.id + "_r"; n_names += 1
            if isinstance(x, ast.FunctionDef) and x.name in ren_defs:
                x.name = x.name + "_r"
        src = ast.unparse(tree)
        compile(src, p, "exec")
        open(p, "w").write(src + "\n")
        n_files += 1
print(f"renamed {n_names} name occurrences in {n_files} files -> {out}")
