#!/venv/bin/python
"""Store confirmed seeded changes under /verif/seeded/<name>/ and record which checks report them.
usage: tools/store_seeds.py <dir with seed dirs> [names...]
For every seed dir with a verify.json that says confirmed: copy patch.diff / demo.py / verify.json, run all claimed
quick checks against a scratch copy of /repo/rex with the patch applied, and write meta.json
(property, summary, needs, files, confirmed_by, reported_by). Also (re)writes seeded/MATRIX.json."""
import concurrent.futures as cf
import json, os, re, shutil, subprocess, sys, tempfile

VERIF = os.path.dirname(os.path.dirname(os.path.abspath(__file__)))
src = sys.argv[1]
names = sys.argv[2:] or sorted(d for d in os.listdir(src) if os.path.isdir(os.path.join(src, d)))
PIDS = [c["property_id"] for c in json.load(open(os.path.join(VERIF, "MANIFEST.json")))["checks"]]


def run_checks(patch):
    tmp = tempfile.mkdtemp(prefix="rexsa_ss_")
    try:
        shutil.copytree("/repo/rex", os.path.join(tmp, "rex"), ignore=shutil.ignore_patterns("__pycache__"))
        p = subprocess.run(["patch", "-p1", "-s", "-d", tmp, "-i", patch], capture_output=True, text=True)
        if p.returncode != 0:
            return None
        env = dict(os.environ, REXSA_REPO=tmp, REXSA_EVIDENCE_DIR=os.path.join(tmp, "ev"))
        out = {}
        for pid in PIDS:
            q = subprocess.run(["/venv/bin/python", "-m", "rexsa.check", pid], cwd=VERIF, env=env, capture_output=True, text=True)
            rules = sorted({m.group(1) for l in q.stdout.splitlines() for m in [re.search(r"  (C\d\d\.\w+)  ", l)] if m and not l.startswith("ANALYSIS")})
            first = next((l for l in q.stdout.splitlines() if re.search(r"  C\d\d\.\w+  ", l)), "")
            out[pid] = {"exit": q.returncode, "rules": rules, "first": first[:300]}
        return out
    finally:
        shutil.rmtree(tmp, ignore_errors=True)


def one(name):
    sd = os.path.join(src, name)
    vf = os.path.join(sd, "verify.json")
    if not os.path.exists(vf):
        return name, "no verify.json", None
    ver = json.load(open(vf))
    if not ver.get("confirmed"):
        return name, "not confirmed", None
    res = run_checks(os.path.join(sd, "patch.diff"))
    if res is None:
        return name, "patch does not apply", None
    meta = json.load(open(os.path.join(sd, "meta.json")))
    dst = os.path.join(VERIF, "seeded", name)
    os.makedirs(dst, exist_ok=True)
    for f in ("patch.diff", "demo.py", "verify.json"):
        shutil.copy(os.path.join(sd, f), os.path.join(dst, f))
    fired = {pid: r for pid, r in res.items() if r["exit"] == 1}
    errs = {pid: r for pid, r in res.items() if r["exit"] not in (0, 1)}
    out = {
        "property": meta.get("property", name.split("_")[0]),
        "summary": meta.get("summary"),
        "needs_to_manifest": meta.get("needs"),
        "files": meta.get("files"),
        "origin": "written by an independent agent that was given only the property text and a scratch worktree",
        "confirmed_by": {
            "what_i_ran": "tools/verify_seeds.py <scratch worktree> <seed>: demo.py on the clean tree, git apply patch.diff, demo.py on the patched tree, "
                          "/venv/bin/python -m pytest -q -p no:cacheprovider --timeout=900 tests/unit on the patched tree",
            "demo_clean_exit": ver["demo_clean"]["exit"], "demo_patched_exit": ver["demo_patched"]["exit"],
            "demo_patched_says": ver["demo_patched"]["tail"][-300:], "tests": ver["tests"], "at": ver.get("at"),
        },
        "reported_by": {pid: r["rules"] for pid, r in fired.items()},
        "first_report": {pid: r["first"] for pid, r in fired.items()},
        "analysis_errors": {pid: r["first"] for pid, r in errs.items()},
        "how_to_replay": "git -C /repo apply /verif/seeded/%s/patch.diff; /venv/bin/python -m rexsa.check %s; git -C /repo checkout -- ." % (name, meta.get("property", name.split("_")[0])),
    }
    json.dump(out, open(os.path.join(dst, "meta.json"), "w"), indent=1)
    return name, "stored", {pid: (r["exit"], r["rules"]) for pid, r in res.items() if r["exit"] != 0}


with cf.ThreadPoolExecutor(max_workers=8) as ex:
    results = list(ex.map(one, names))
mpath = os.path.join(VERIF, "seeded", "MATRIX.json")
matrix = json.load(open(mpath)) if os.path.exists(mpath) else {}
for name, status, hits in results:
    print(name, status, hits)
    if hits is not None:
        matrix[name] = {pid: {"exit": e, "rules": r} for pid, (e, r) in hits.items()}
os.makedirs(os.path.dirname(mpath), exist_ok=True)
json.dump(dict(sorted(matrix.items())), open(mpath, "w"), indent=1)
