#!/venv/bin/python
"""Run all claimed quick checks against each given patch directory (scratch copy of /repo/rex), print only non-zero exits.
usage: tools/run_patches.py <dir with patch.diff> [...]"""
import concurrent.futures as cf, json, os, re, shutil, subprocess, sys, tempfile
VERIF = os.path.dirname(os.path.dirname(os.path.abspath(__file__)))
PIDS = [c["property_id"] for c in json.load(open(os.path.join(VERIF, "MANIFEST.json")))["checks"]]
def one(d):
    tmp = tempfile.mkdtemp(prefix="rexsa_rp_")
    try:
        shutil.copytree("/repo/rex", os.path.join(tmp, "rex"), ignore=shutil.ignore_patterns("__pycache__"))
        p = subprocess.run(["patch", "-p1", "-s", "-f", "-d", tmp, "-i", os.path.join(d, "patch.diff")], capture_output=True, text=True)
        if p.returncode != 0:
            return d, {"PATCH": (3, [p.stdout[-200:]])}
        env = dict(os.environ, REXSA_REPO=tmp, REXSA_EVIDENCE_DIR=os.path.join(tmp, "ev"))
        out = {}
        for pid in PIDS:
            q = subprocess.run(["/venv/bin/python", "-m", "rexsa.check", pid], cwd=VERIF, env=env, capture_output=True, text=True)
            if q.returncode != 0:
                out[pid] = (q.returncode, [l[:420] for l in q.stdout.splitlines() if not l.startswith(("VIOLATION", "[", "KNOWN"))][:4])
        return d, out
    finally:
        shutil.rmtree(tmp, ignore_errors=True)
with cf.ThreadPoolExecutor(max_workers=8) as ex:
    for d, out in ex.map(one, sys.argv[1:]):
        print("###", os.path.basename(d.rstrip("/")), "OK" if not out else "")
        for pid, (rc, lines) in out.items():
            print(f"   {pid} exit={rc}")
            for l in lines:
                print("      ", l)
