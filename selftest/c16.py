N = "rex/node.py"
def V(i, old, new, expect="fire", rule=None, all=False):
    return dict(id=f"C16-{i}", pid="C16", file=N, old=old, new=new, expect=expect, rule=rule, all=all)
VARIANTS = [
    V("revert-D2", "        self.delay_dist = delay_dist if delay_dist is not None else self.delay_dist\n", "        self.delay_dist = self.delay_dist if delay_dist is not None else self.delay_dist\n", rule="C16.setter", all=True),
    V("revert-D3", "                name=info.name,\n", "                name=input_name,\n", rule="C16.info"),
    V("setter-delay-dropped", "        self.delay = delay if delay is not None else self.delay\n", "        self.delay = self.delay if delay is None else self.delay\n", rule="C16.setter", all=True),
    V("phase-output-no-delay", "        return self.phase + self.delay\n", "        return self.phase\n", rule="C16.phase"),
    V("skip-filter-dropped", "return max([0.0] + [i.phase * 1.00 for i in self.inputs.values() if not i.skip])", "return max([0.0] + [i.phase * 1.00 for i in self.inputs.values()])", rule="C16.phase"),
    V("conn-phase-no-delay", "        return self.output_node.phase_output + self.delay\n", "        return self.output_node.phase_output\n", rule="C16.phase"),
    V("conn-phase-uses-phase", "        return self.output_node.phase_output + self.delay\n", "        return self.output_node.phase + self.delay\n", rule="C16.phase"),
    V("handler-pass", "            raise RecursionError(msg)\n", "            return 0.0\n", rule="C16.loop"),
    V("info-window-from-blocking", "            window=self.window,\n            blocking=self.blocking,", "            window=self.window,\n            blocking=self.skip,", rule="C16.info"),
    V("from-info-delay-swapped", "            delay=kwargs.get(\"delay\", info.delay),", "            delay=kwargs.get(\"delay\", info.phase),", rule="C16.info"),
    V("cfi-delay-from-phase", "                delay=info.delay,\n", "                delay=info.phase,\n", rule="C16.info"),
    V("cfi-skip-lost", "                skip=info.skip,\n", "                skip=info.blocking,\n", rule="C16.info"),
    V("quantile-09", "self.delay = delay if delay is not None else float(self.delay_dist.quantile(0.99))  # take", "self.delay = delay if delay is not None else float(self.delay_dist.quantile(0.9))  # take", rule="C16.init"),
    V("connect-swaps-skip-window", "connection = Connection(self, output_node, blocking, delay, delay_dist, window, skip, jitter, input_name=name)", "connection = Connection(self, output_node, blocking, delay, delay_dist, skip, window, jitter, input_name=name)", rule="C16.info"),
    V("info-phase-cached", "            phase=self.phase,\n            delay_dist=self.delay_dist,\n            delay=self.delay,\n            inputs={", "            phase=0.0,\n            delay_dist=self.delay_dist,\n            delay=self.delay,\n            inputs={", rule="C16.phase"),
    V("phase-scaled", "[i.phase * 1.00 for i in", "[i.phase * 0.99 for i in", rule="C16.phase"),
    # preserving
    V("setter-if-form", "        self.delay = delay if delay is not None else self.delay\n", "        if delay is not None:\n            self.delay = delay\n", expect="silent", all=True),
    V("phase-no-mult", "[i.phase * 1.00 for i in", "[i.phase for i in", expect="silent"),
    V("phase-output-swapped", "        return self.phase + self.delay\n", "        return self.delay + self.phase\n", expect="silent"),
]
