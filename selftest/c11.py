B = "rex/base.py"
def V(i, file, old, new, expect="fire", rule=None, all=False):
    return dict(id=f"C11-{i}", pid="C11", file=file, old=old, new=new, expect=expect, rule=rule, all=all)
SHIFT = "            ts_recv_interp = ts_recv_interp + (ts_start - ts_recv_interp[-1])"
VARIANTS = [
    V("knots-undelayed", B, "                ts_recv_mask = ts_recv\n", "                ts_recv_mask = input.ts_recv\n", rule="C11.knots"),
    V("knots-sent", B, "                ts_recv_mask = ts_recv\n", "                ts_recv_mask = input.ts_sent\n", rule="C11.knots"),
    V("mask-dropped", B, "                ts_recv_mask = jnp.where(input.seq < 0, -1e9, ts_recv)", "                ts_recv_mask = ts_recv", rule="C11.knots"),
    V("mask-zero", B, "                ts_recv_mask = jnp.where(input.seq < 0, -1e9, ts_recv)", "                ts_recv_mask = jnp.where(input.seq < 0, 0.0, ts_recv)", rule="C11.knots"),
    V("mask-on-first", B, "                ts_recv_mask = jnp.where(input.seq < 0, -1e9, ts_recv)", "                ts_recv_mask = jnp.where(input.seq <= 0, -1e9, ts_recv)", rule="C11.knots"),
    V("linear-masked-too", B, "                ts_recv_mask = ts_recv\n", "                ts_recv_mask = jnp.where(input.seq < 0, -1e9, ts_recv)\n", rule="C11.knots"),
    V("shift-first", B, SHIFT, "            ts_recv_interp = ts_recv_interp + (ts_start - ts_recv_interp[0])", rule="C11.query"),
    V("shift-dropped", B, SHIFT, "            ts_recv_interp = ts_recv_interp", rule="C11.query"),
    V("shift-sign", B, SHIFT, "            ts_recv_interp = ts_recv_interp - (ts_start - ts_recv_interp[-1])", rule="C11.query"),
    V("query-raw-recv", B, "            ts_recv_interp = jax.lax.dynamic_slice(ts_recv_mask, [idx_min], [window])", "            ts_recv_interp = jax.lax.dynamic_slice(input.ts_recv, [idx_min], [window])", rule="C11.query"),
    V("fp-raw-recv", B, "            tb = [input.seq, input.ts_sent, ts_recv, input.data]\n            ts_recv_interp", "            tb = [input.seq, input.ts_sent, input.ts_recv, input.data]\n            ts_recv_interp", rule="C11.leaves"),
    V("fp-swapped", B, "            tb = [input.seq, input.ts_sent, ts_recv, input.data]\n            ts_recv_interp", "            tb = [input.seq, ts_recv, input.ts_sent, input.data]\n            ts_recv_interp", rule="C11.leaves"),
    V("batched-other-knots", B, "                    )(ts_recv_interp, ts_recv_mask, _fp_batch).reshape(_f_shape)", "                    )(ts_recv_interp, ts_recv, _fp_batch).reshape(_f_shape)", rule="C11"),
    V("flat-args-swapped", B, "                    res = jnp.interp(ts_recv_interp, ts_recv_mask, _fp)", "                    res = jnp.interp(ts_recv_mask, ts_recv_interp, _fp)", rule="C11"),
    V("stop-gradient", B, "                ts_recv_mask = ts_recv\n", "                ts_recv_mask = jax.lax.stop_gradient(ts_recv)\n", rule="C11.grad"),
    V("seq-not-interpolated", B, "            delayed_input_state = InputState(*interp_tb, delay_dist=new_delay_dist)", "            delayed_input_state = InputState(input.seq[-window:], *interp_tb[1:], delay_dist=new_delay_dist)", rule="C11.leaves"),
    # preserving
    V("shift-rewritten", B, SHIFT, "            ts_recv_interp = ts_start - (ts_recv_interp[-1] - ts_recv_interp)", expect="silent"),
    V("shift-named", B, SHIFT, "            _shift = ts_start - ts_recv_interp[-1]\n            ts_recv_interp = _shift + ts_recv_interp", expect="silent"),
    V("shift-last-index", B, SHIFT, "            ts_recv_interp = ts_recv_interp + (ts_start - ts_recv_interp[window - 1])", expect="silent"),
    V("mask-polarity", B, "                ts_recv_mask = jnp.where(input.seq < 0, -1e9, ts_recv)", "                ts_recv_mask = jnp.where(input.seq >= 0, ts_recv, -1e9)", expect="silent"),
    V("mask-const-named", B, "                ts_recv_mask = jnp.where(input.seq < 0, -1e9, ts_recv)", "                _far_past = -1e9\n                ts_recv_mask = jnp.where(input.seq < 0, _far_past, ts_recv)", expect="silent"),
    V("interp-keywords", B, "                    res = jnp.interp(ts_recv_interp, ts_recv_mask, _fp)", "                    res = jnp.interp(x=ts_recv_interp, xp=ts_recv_mask, fp=_fp)", expect="silent"),
    V("tb-tuple", B, "            tb = [input.seq, input.ts_sent, ts_recv, input.data]\n            ts_recv_interp", "            tb = (input.seq, input.ts_sent, ts_recv, input.data)\n            ts_recv_interp", expect="silent"),
    V("fields-by-name", B, "            delayed_input_state = InputState(*interp_tb, delay_dist=new_delay_dist)", "            _seq, _sent, _recv, _data = interp_tb\n            delayed_input_state = InputState(seq=_seq, ts_sent=_sent, ts_recv=_recv, data=_data, delay_dist=new_delay_dist)", expect="silent"),
]
VARIANTS += [
    V("out-axes-dropped", B, "                        out_axes=1,\n", "", rule="C11.axes"),
    V("out-axes-zero", B, "                        out_axes=1,\n", "                        out_axes=0,\n", rule="C11.axes"),
    V("in-axes-positional", B, "                        in_axes=(\n                            None,\n                            None,\n                            1,\n                        ),\n                        out_axes=1,\n", "                        (None, None, 1),\n                        1,\n", expect="silent"),
]
