P = "rex/partition_runner.py"; G = "rex/graph.py"; B = "rex/base.py"
def V(i, file, old, new, expect="fire", rule=None):
    return dict(id=f"C09-{i}", pid="C09", file=file, old=old, new=new, expect=expect, rule=rule)
VARIANTS = [
    V("cache-on-self", P, "    def _run_S(graph_state: GraphState) -> GraphState:\n        # Get eps & step  (used to index timings)", "    def _run_S(graph_state: GraphState) -> GraphState:\n        timings.last_state = graph_state\n        # Get eps & step  (used to index timings)", rule="C09.pure"),
    V("graph-memo", G, "        # run supergraph (except supervisor)\n        graph_state = self._run_partition_excl_supervisor(graph_state)", "        # run supergraph (except supervisor)\n        graph_state = self._run_partition_excl_supervisor(graph_state)\n        self._last = graph_state", rule="C09.pure"),
    V("step-order-swapped", G, "        new_graph_state = self.run_supervisor(graph_state, step_state, output)\n\n        # Runs supergraph (except for supervisor)\n        next_graph_state = self.run_until_supervisor(new_graph_state)", "        new_graph_state = self.run_until_supervisor(graph_state)\n        next_graph_state = self.run_supervisor(new_graph_state, step_state, output)", rule="C09.api"),
    V("mod-step", B, "        step = jnp.clip(step, onp.int32(0), max_step - 1)", "        step = step % max_step", rule="C09.clip"),
    V("rollout-only-until", G, "final_graph_state = jax.lax.fori_loop(0, max_steps, lambda i, gs: self.run(gs), graph_state)", "final_graph_state = jax.lax.fori_loop(0, max_steps, lambda i, gs: self.run_until_supervisor(gs), graph_state)", rule="C09.api"),
    V("init-params-override", G, "            params[name] = params.get(name, self.nodes[name].init_params(rng, graph_state))", "            params[name] = self.nodes[name].init_params(rng, graph_state)", rule="C09.params"),
    V("clip-upper-off-by-one", B, "        eps = jnp.clip(eps, onp.int32(0), max_eps - 1)", "        eps = jnp.clip(eps, onp.int32(0), max_eps)", rule="C09.clip"),
    V("run-override-dropped", G, "        new_graph_state = self.run_supervisor(graph_state, step_state, output)\n", "        new_graph_state = self.run_supervisor(graph_state)\n", rule="C09.api"),
    V("scan-steps-minus-1", G, "graph_state, jnp.arange(max_steps)\n            )", "graph_state, jnp.arange(max_steps - 1)\n            )", rule="C09.api"),
    V("no-clip-in-run-S", P, "        graph_state = graph_state.replace_step(timings, step=graph_state.step)  # Make sure step is clipped to max_step size\n        step = graph_state.step", "        step = graph_state.step", rule="C09.clip"),
    V("starting-step-plus-1", G, "        new_cgs = new_cgs.replace_step(timings, step=starting_step)  # (Clips step to valid value)", "        new_cgs = new_cgs.replace_step(timings, step=starting_step + 1)  # (Clips step to valid value)", rule="C09.clip"),
    V("print-in-run-node", P, "        # Run node step\n        _new_ss, output = nodes[kind].step(ss)", "        # Run node step\n        print(kind)\n        _new_ss, output = nodes[kind].step(ss)", rule="C09.pure"),
    V("mutate-param-dict", P, "        graph_state = graph_state.replace_buffer(new_outputs)\n        new_graph_state = graph_state.replace_step_states(new_step_states)\n\n        # Update record", "        graph_state.aux.update({})\n        graph_state = graph_state.replace_buffer(new_outputs)\n        new_graph_state = graph_state.replace_step_states(new_step_states)\n\n        # Update record", rule="C09.pure"),
    V("step-counter-plus-2", P, "        graph_state = graph_state.replace(step=graph_state.step + 1)\n        return graph_state", "        graph_state = graph_state.replace(step=graph_state.step + 2)\n        return graph_state", rule="C09.api"),
    # preserving
    V("local-dict", P, "        new_step_states = dict()\n        new_outputs = dict()\n\n        # Increment sequence number", "        new_step_states = {}\n        new_outputs = {}\n        _scratch = []\n        _scratch.append(1)\n\n        # Increment sequence number", expect="silent"),
    V("rollout-named-body", G, "final_graph_state = jax.lax.fori_loop(0, max_steps, lambda i, gs: self.run(gs), graph_state)", "_body = lambda i, gs: self.run(gs)\n            final_graph_state = jax.lax.fori_loop(0, max_steps, _body, graph_state)", expect="silent"),
]
