P = "rex/partition_runner.py"; G = "rex/graph.py"; B = "rex/base.py"; N = "rex/node.py"
def V(i, file, old, new, expect="fire", rule=None):
    return dict(id=f"C08-{i}", pid="C08", file=file, old=old, new=new, expect=expect, rule=rule)
VARIANTS = [
    V("writer-plus-1", P, "    mod_seq = seq % size\n    # new_buffer", "    mod_seq = (seq + 1) % size\n    # new_buffer", rule="C08.map"),
    V("reader-no-mod", P, "            mod_seq = t.seq % size\n", "            mod_seq = t.seq\n", rule="C08.map"),
    V("reader-clip", P, "            mod_seq = t.seq % size\n", "            mod_seq = jnp.clip(t.seq, 0, None) % size\n", rule="C08.map"),
    V("reader-other-buffer-size", P, "            size = get_buffer_size(buffer)\n            mod_seq = t.seq % size\n", "            size = get_buffer_size(graph_state.buffer[node.name])\n            mod_seq = t.seq % size\n", rule="C08.map"),
    V("check-le", G, "max(size) >= max(_buffer_sizes[name])", "max(size) <= max(_buffer_sizes[name])", rule="C08.sizes"),
    V("check-min", G, "max(size) >= max(_buffer_sizes[name])", "max(size) >= min(_buffer_sizes[name])", rule="C08.sizes"),
    V("noop-no-mod", P, "noop_output = rjax.tree_take(graph_state.buffer[kind], timings_node.seq % size)", "noop_output = rjax.tree_take(graph_state.buffer[kind], timings_node.seq)", rule="C08.map"),
    V("write-at-step", P, "                new_outputs[kind] = update_output(graph_state.buffer[kind], output, timings_node.seq)\n            else:", "                new_outputs[kind] = update_output(graph_state.buffer[kind], output, graph_state.step)\n            else:", rule="C08.writers"),
    V("window-of-other", P, "            t = timings_node.windows[c.output_node.name]\n", "            t = timings_node.windows[input_name]\n", rule="C08.map"),
    V("padding-ignored", B, "buffer_size = max(s) + extra_padding if len(s) > 0 else max(1, extra_padding)", "buffer_size = max(s) if len(s) > 0 else max(1, extra_padding)", rule="C08.sizes"),
    V("size-min", B, "buffer_size = max(s) + extra_padding if len(s) > 0 else max(1, extra_padding)", "buffer_size = min(s) + extra_padding if len(s) > 0 else max(1, extra_padding)", rule="C08.sizes"),
    V("sup-write-seq", P, "        new_outputs[name] = update_output(graph_state.buffer[name], output, timing.seq)", "        new_outputs[name] = update_output(graph_state.buffer[name], output, step_state.seq + 1)", rule="C08.writers"),
    V("ts-swapped", P, "t.seq, t.ts_sent, t.ts_recv, inputs, delay_dist=prev_delay_dist, is_data=True", "t.seq, t.ts_recv, t.ts_sent, inputs, delay_dist=prev_delay_dist, is_data=True", rule="C08.map"),
    # preserving
    V("inline-size", P, "            size = get_buffer_size(buffer)\n            mod_seq = t.seq % size\n", "            mod_seq = t.seq % get_buffer_size(buffer)\n", expect="silent"),
    V("rename-buffer", P, "            buffer = graph_state.buffer[c.output_node.name]\n            size = get_buffer_size(buffer)", "            out_buf = graph_state.buffer[c.output_node.name]\n            buffer = out_buf\n            size = get_buffer_size(out_buf)", expect="silent"),
]
