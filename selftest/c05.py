A = "rex/asynchronous.py"
def V(i, old, new, expect="fire", rule=None, all=False):
    return dict(id=f"C05-{i}", pid="C05", file=A, old=old, new=new, expect=expect, rule=rule, all=all)
VARIANTS = [
    V("revert-D4", "        self._synchronizer._must_reset = True\n", "", rule="C05.handshake"),
    V("cancel-after-wait", "        self._synchronizer._must_reset = True\n        if len(self._synchronizer.action) > 0:\n            self._synchronizer.action[-1].cancel()\n\n        # Wait for all nodes to stop\n        [f.result() for f in fs]  # Wait for all nodes to stop\n",
      "        # Wait for all nodes to stop\n        [f.result() for f in fs]  # Wait for all nodes to stop\n        self._synchronizer._must_reset = True\n        if len(self._synchronizer.action) > 0:\n            self._synchronizer.action[-1].cancel()\n", rule="C05.handshake"),
    V("obs-after-wait", "        self._f_obs.set_result(step_state)\n        self._f_obs = _new_f_obs\n\n        # Wait for action future's result to be set with action\n        if not self._must_reset:\n            try:\n                step_state, output = self._f_act.result()",
      "        _old = self._f_obs\n        self._f_obs = _new_f_obs\n\n        # Wait for action future's result to be set with action\n        if not self._must_reset:\n            try:\n                _res = self._f_act.result()\n                _old.set_result(step_state)\n                step_state, output = _res", rule="C05.handshake"),
    V("deque-not-recreated", "        self.q_ts_scheduled = deque()\n", "", rule="C05.reset"),
    V("conn-deque-not-recreated", "        self.q_zip_delay = deque()\n", "", rule="C05.reset"),
    V("gate-allows-stopped", "            if self._state in [Async.READY, Async.RUNNING] or stopping:", "            if self._state in [Async.READY, Async.RUNNING, Async.STOPPED] or stopping:", rule="C05.typestate"),
    V("trigger-removed", "            self.q_ts_max.append(ts_max)\n\n            # Push push_phase_shift (must be called from node thread)\n            self.input_node._submit(self.input_node.push_phase_shift)", "            self.q_ts_max.append(ts_max)", rule="C05"),
    V("tick-not-reset", "        # Reset every run\n        self._tick = 0\n        self._phase_scheduled = 0.0", "        # Reset every run\n        self._phase_scheduled = 0.0", rule="C05.reset"),
    V("prev-recv-not-reset", "        self._prev_recv_sc = 0.0  # Ensures the FIFO property for incoming messages.\n", "", rule="C05.reset"),
    V("eps-check-dropped", "        elif header.eps != self.input_node.eps:\n            self.log(\"push_ts_input (PREV EPS)\", log_level=LogLevel.DEBUG)\n            return\n", "", rule="C05.eps"),
    V("eps-after-inputs", "        # Up the episode counter (must happen before resetting outputs & inputs)\n        self._eps += 1\n", "", rule="C05.reset"),
    V("unguarded-pop", "        has_msg = len(self.q_zip_msgs) > 0\n        has_delay = len(self.q_zip_delay) > 0\n        if has_msg and has_delay:", "        has_msg = len(self.q_zip_msgs) > 0\n        has_delay = True\n        if has_msg and has_delay:", rule="C05.queues"),
    V("stop-flip-outside-lock", "        with self._lock:\n            # Then, flip running state so that no more tasks can be scheduled\n            # This means that\n            self._state = Async.STOPPING\n            self.log(self._state, log_level=LogLevel.DEBUG)\n\n            # First, submit _stopping task\n            f = self._submit(_stopping, stopping=True)",
      "        self._state = Async.STOPPING\n        with self._lock:\n            self.log(self._state, log_level=LogLevel.DEBUG)\n\n            # First, submit _stopping task\n            f = self._submit(_stopping, stopping=True)", rule="C05.typestate"),
    V("stopping-not-forced", "            f = self._submit(_stopping, stopping=True)\n        return f\n\n    def _start", "            f = self._submit(_stopping)\n        return f\n\n    def _start", rule="C05.typestate"),
    V("set-result-conditional", "        self._synchronizer.action[-1].set_result((next_step_state, new_output))", "        if step_state is None:\n            self._synchronizer.action[-1].set_result((next_step_state, new_output))", rule="C05.handshake"),
    V("sync-reset-missing-flag", "        self._must_reset = False\n        self._q_act: Deque[Future] = deque()\n        self._q_obs: Deque[Future] = deque()", "        self._q_act: Deque[Future] = deque()\n        self._q_obs: Deque[Future] = deque()", rule="C05.reset"),
    V("start-without-stop", "        # Stop first, if we were previously running.\n        self.stop(timeout=timeout)\n", "", rule="C05.handshake"),
    V("reset-from-running", "        assert self._state in [Async.STOPPED, Async.READY], f\"{self.node.name} must first be stopped, before it can be reset\"", "        assert self._state in [Async.STOPPED, Async.READY, Async.RUNNING], f\"{self.node.name} must first be stopped, before it can be reset\"", rule="C05.typestate"),
    V("appendleft", "            self.q_ts_max.append(ts_max)\n", "            self.q_ts_max.appendleft(ts_max)\n", rule="C05.queues"),
    # preserving
    V("reorder-reset", "        self._tick = 0\n        self._phase_scheduled = 0.0  #: Structural phase shift that the step scheduler takes into account\n", "        self._phase_scheduled = 0.0\n        self._tick = 0\n", expect="silent"),
    V("gate-eq-form", "            if self._state in [Async.READY, Async.RUNNING] or stopping:", "            if stopping or self._state == Async.RUNNING or self._state is Async.READY:", expect="silent"),
    V("stop-guard-form", "        if self._state not in [Async.RUNNING]:\n            self.log(\"\", f\"{self.node.name} is not running", "        if not (self._state == Async.RUNNING):\n            self.log(\"\", f\"{self.node.name} is not running", expect="silent"),
    V("push-zip-nested-if", "        if has_msg and has_delay:\n            msg, header_sent = self.q_zip_msgs.popleft()", "        if not has_msg:\n            return\n        if has_delay:\n            msg, header_sent = self.q_zip_msgs.popleft()", expect="silent"),
]
