B = "rex/base.py"
def V(i, old, new, expect="fire", rule=None):
    return dict(id=f"C17-{i}", pid="C17", file=B, old=old, new=new, expect=expect, rule=rule)
VARIANTS = [
    V("scale-sum", "scale = jax.tree_util.tree_map(lambda _min, _max: (_max - _min) / 2, min_params, max_params)", "scale = jax.tree_util.tree_map(lambda _min, _max: (_max + _min) / 2, min_params, max_params)", rule="C17.denorm"),
    V("inv-forward", "        for t in self.transforms[::-1]:\n            _intermediate = t.inv(_intermediate)", "        for t in self.transforms:\n            _intermediate = t.inv(_intermediate)", rule="C17.chain"),
    V("log1p", "        return jax.tree_util.tree_map(lambda x: jnp.log(x), params)", "        return jax.tree_util.tree_map(lambda x: jnp.log1p(x), params)", rule="C17.pairs"),
    V("normalize-no-offset", "lambda _params, _offset, _scale: (_params - _offset) / _scale, params, self.offset, self.scale", "lambda _params, _offset, _scale: _params / _scale, params, self.offset, self.scale", rule="C17.denorm"),
    V("apply-calls-inv", "            _intermediate = t.apply(_intermediate)", "            _intermediate = t.inv(_intermediate)", rule="C17.chain"),
    V("apply-normalize", "        return self.denormalize(params)\n", "        return self.normalize(params)\n", rule="C17.denorm"),
    V("extend-overrides", "lambda base_x, ex_x: base_x if ex_x is None else ex_x, self.base_params, params_extended_pytree", "lambda base_x, ex_x: ex_x if base_x is None else base_x, self.base_params, params_extended_pytree", rule="C17.pairs"),
    V("shared-inv-uses-replace", "        new = self.inverse_fn(params)\n", "        new = self.replace_fn(params)\n", rule="C17.pairs"),
    V("chain-skips-first", "        _intermediate = params\n        for t in self.transforms:\n            _intermediate = t.apply(_intermediate)", "        _intermediate = params\n        for t in self.transforms[1:]:\n            _intermediate = t.apply(_intermediate)", rule="C17.chain"),
    V("offset-half-diff", "offset = jax.tree_util.tree_map(lambda _min, _max: (_min + _max) / 2.0, min_params, max_params)", "offset = jax.tree_util.tree_map(lambda _min, _max: (_max - _min) / 2.0, min_params, max_params)", rule="C17.denorm"),
    # preserving
    V("reversed-call", "        for t in self.transforms[::-1]:\n            _intermediate = t.inv(_intermediate)", "        for t in reversed(self.transforms):\n            _intermediate = t.inv(_intermediate)", expect="silent"),
    V("denorm-reordered", "lambda _params, _offset, _scale: _params * _scale + _offset, params, self.offset, self.scale", "lambda _params, _offset, _scale: _offset + _scale * _params, params, self.offset, self.scale", expect="silent"),
    V("scale-half-mult", "scale = jax.tree_util.tree_map(lambda _min, _max: (_max - _min) / 2, min_params, max_params)", "scale = jax.tree_util.tree_map(lambda _min, _max: 0.5 * _max - 0.5 * _min, min_params, max_params)", expect="silent"),
    dict(id="C17-extend-template-flat", pid="C17", file="rex/jax_utils.py", old="    tree_extended = jax.tree_util.tree_unflatten(tree_template_treedef, tree_flat)", new="    tree_extended = jax.tree_util.tree_unflatten(tree_template_treedef, tree_template_flat)", expect="fire", rule="C17.pairs"),
    dict(id="C17-filter-mask-inverted", pid="C17", file="rex/base.py", old="        mask = jax.tree_util.tree_map(lambda ex_x: ex_x is not None, opt_params)", new="        mask = jax.tree_util.tree_map(lambda ex_x: ex_x is None, opt_params)", expect="fire", rule="C17.pairs"),
    dict(id="C17-filter-base-structure", pid="C17", file="rex/base.py", old="        _, mask_filt_treedef = jax.tree_util.tree_flatten(self.mask)", new="        _, mask_filt_treedef = jax.tree_util.tree_flatten(self.base_params)", expect="fire", rule="C17.pairs"),
    dict(id="C17-filter-inline", pid="C17", file="rex/base.py", old="        filtered_ex = eqx.filter(params_extended, mask_ex)\n        filtered_ex_flat, _ = jax.tree_util.tree_flatten(filtered_ex)", new="        filtered_ex_flat = jax.tree_util.tree_flatten(eqx.filter(params_extended, mask_ex))[0]", expect="silent"),
]
