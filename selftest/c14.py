B = "rex/base.py"; U = "rex/utils.py"
def V(i, file, old, new, expect="fire", rule=None, all=False):
    return dict(id=f"C14-{i}", pid="C14", file=file, old=old, new=new, expect=expect, rule=rule, all=all)
VARIANTS = [
    V("pad-zero", B, "_padded = tuple(onp.pad(arr, (0, _max_len - len(arr)), constant_values=-1) for arr in _graphs)", "_padded = tuple(onp.pad(arr, (0, _max_len - len(arr)), constant_values=0) for arr in _graphs)", rule="C14.sentinel"),
    V("seq-in-from-seq-out", B, "                seq_in = i.messages.seq_in\n", "                seq_in = i.messages.seq_out\n", rule="C14.convert"),
    V("getitem-skips", B, "        tb = [self.seq, self.ts_sent, self.ts_recv, self.data]\n        return InputState(*jax.tree_util.tree_map(lambda _tb: _tb[val], tb), delay_dist=self.delay_dist)", "        tb = [self.seq, self.ts_sent, self.ts_recv, self.data]\n        sel = jax.tree_util.tree_map(lambda _tb: _tb[val], tb)\n        return InputState(sel[0], sel[1], self.ts_recv, sel[3], delay_dist=self.delay_dist)", rule="C14.index"),
    V("pad-front", B, "onp.pad(arr, (0, _max_len - len(arr)), constant_values=-1)", "onp.pad(arr, (_max_len - len(arr), 0), constant_values=-1)", rule="C14.sentinel"),
    V("vertex-ts-end-start", B, "n: Vertex(seq=v.steps.seq, ts_start=v.steps.ts_start, ts_end=v.steps.ts_end) for n, v in self.nodes.items()", "n: Vertex(seq=v.steps.seq, ts_start=v.steps.ts_start, ts_end=v.steps.ts_start) for n, v in self.nodes.items()", rule="C14.convert"),
    V("filter-off-no-check", B, "                    for n1, _ in filter(lambda x: x[1] == n2, self.edges):\n                        if n1 in nodes:\n                            connections.add((n1, n2))", "                    for n1, _ in filter(lambda x: x[1] == n2, self.edges):\n                        connections.add((n1, n2))", rule="C14.filter"),
    V("edge-key-swapped", B, "                edges[(n1, n2)] = Edge(seq_out=seq_out, seq_in=seq_in, ts_recv=ts_recv)\n        return Graph(vertices=vertices, edges=edges)\n\n\n@struct.dataclass\nclass ExperimentRecord", "                edges[(n2, n1)] = Edge(seq_out=seq_out, seq_in=seq_in, ts_recv=ts_recv)\n        return Graph(vertices=vertices, edges=edges)\n\n\n@struct.dataclass\nclass ExperimentRecord", rule="C14.convert"),
    V("fill-value-0", B, "return self._padded_stack(fill_value=-1)", "return self._padded_stack(fill_value=0)", rule="C14.sentinel"),
    V("networkx-keeps-padded-edges", U, "            if seq_out == -1 or seq_in == -1:\n                continue", "            if seq_out == -1:\n                continue", rule="C14.sentinel"),
    V("vertices-not-dropped", B, "        for k in v_names:\n            if k not in nodes:\n                vertices.pop(k)", "        for k in v_names:\n            if k not in nodes and k not in self.vertices:\n                vertices.pop(k)", rule="C14.filter"),
    V("graph-getitem-first-only", B, "            return jax.tree_util.tree_map(lambda v: v[val], self)", "            return jax.tree_util.tree_map(lambda v: v[0], self)", rule="C14.index"),
    # preserving
    V("local-names", B, "                seq_in = i.messages.seq_in\n                seq_out = i.messages.seq_out\n                ts_recv = i.messages.ts_recv\n                edges[(n1, n2)] = Edge(seq_out=seq_out, seq_in=seq_in, ts_recv=ts_recv)", "                m = i.messages\n                edges[(n1, n2)] = Edge(seq_out=m.seq_out, seq_in=m.seq_in, ts_recv=m.ts_recv)", expect="silent"),
]
