A = "rex/asynchronous.py"; P = "rex/partition_runner.py"; U = "rex/utils.py"; B = "rex/base.py"
def V(i, file, old, new, expect="fire", rule=None):
    return dict(id=f"C01-{i}", pid="C01", file=file, old=old, new=new, expect=expect, rule=rule)
VARIANTS = [
    V("rng-split-in-push-step", A, "step_state = self._step_state.replace(seq=tick_promoted, ts=ts_start_sc_promoted, inputs=FrozenDict(inputs))", "step_state = self._step_state.replace(seq=tick_promoted, ts=ts_start_sc_promoted, inputs=FrozenDict(inputs), rng=rnd.split(self._step_state.rng)[0])", rule="C01.rng"),
    V("ts-scheduled", A, "            ts_start_sc_promoted = onp.array(ts_start_sc).astype(self._step_state.ts.dtype)", "            ts_start_sc_promoted = onp.array(record_step.ts_scheduled).astype(self._step_state.ts.dtype)", rule="C01.protocol"),
    V("slot-swap", U, "        slot.ts_end[slot_idx[:, 0], slot_idx[:, 1]] = v.ts_end[fill_idx[:, 0], fill_idx[:, 1]]", "        slot.ts_end[slot_idx[:, 0], slot_idx[:, 1]] = v.ts_start[fill_idx[:, 0], fill_idx[:, 1]]", rule="C01.chain"),
    V("roll-plus", B, "        rolled_a = jnp.roll(a, -1, axis=0)\n        new_a = jnp.array(rolled_a).at[-1].set(jnp.array(new))\n        return new_a\n\n    def push(self, seq, ts_sent, ts_recv) -> \"Window\":", "        rolled_a = jnp.roll(a, 1, axis=0)\n        new_a = jnp.array(rolled_a).at[0].set(jnp.array(new))\n        return new_a\n\n    def push(self, seq, ts_sent, ts_recv) -> \"Window\":", rule="C01.chain"),
    V("compiled-no-seq-inc", P, "        _new_seq_ss = _new_ss.replace(seq=_new_ss.seq + 1)", "        _new_seq_ss = _new_ss", rule="C01.protocol"),
    V("compiled-eps-const", P, "        return ss.replace(eps=eps, seq=seq, ts=ts_start, inputs=FrozenDict(new_inputs))", "        return ss.replace(seq=seq, ts=ts_start, inputs=FrozenDict(new_inputs))", rule="C01.protocol"),
    V("window-ts-sent-recv", U, "        new_window = window.push(seq, ts_sent, ts_recv)", "        new_window = window.push(seq, ts_recv, ts_sent)", rule="C01.chain"),
    V("from-outputs-swapped", B, "        return cls(seq=seq, ts_sent=ts_sent, ts_recv=ts_recv, data=data, delay_dist=delay_dist)", "        return cls(seq=seq, ts_sent=ts_recv, ts_recv=ts_sent, data=data, delay_dist=delay_dist)", rule="C01.chain"),
    V("override-no-inc", A, "            next_step_state = next_step_state.replace(seq=next_step_state.seq + 1)\n", "", rule="C01.protocol"),
    V("helper-state", A, "step_state = self._step_state.replace(seq=tick_promoted, ts=ts_start_sc_promoted, inputs=FrozenDict(inputs))", "_frozen = FrozenDict(inputs)\n            step_state = self._step_state.replace(inputs=_frozen).replace(seq=tick_promoted, ts=ts_start_sc_promoted)", expect="silent"),
]
