U = "rex/utils.py"; G = "rex/graph.py"; P = "rex/partition_runner.py"; B = "rex/base.py"
def V(i, file, old, new, expect="fire", rule=None):
    return dict(id=f"C07-{i}", pid="C07", file=file, old=old, new=new, expect=expect, rule=rule)
VARIANTS = [
    V("mode-branch-removed", G, "        elif supergraph is Supergraph.GENERATIONAL:\n            from supergraph.evaluate import baselines_S\n\n            _, S = baselines_S(Gs_supergraph, supervisor.name)\n            S_init_to_S = {n: n for n in S.nodes()}\n            Gs_monomorphism = sg.evaluate_supergraph(Gs_supergraph, S, progress_bar=progress_bar)\n", "", rule="C07.modes"),
    V("slot-ts-start-from-end", U, "        slot.ts_start[slot_idx[:, 0], slot_idx[:, 1]] = v.ts_start[fill_idx[:, 0], fill_idx[:, 1]]", "        slot.ts_start[slot_idx[:, 0], slot_idx[:, 1]] = v.ts_end[fill_idx[:, 0], fill_idx[:, 1]]", rule="C07.fill"),
    V("stateful-edge-dropped", U, "            if seq > 0:  # Adds stateful edges between consecutive vertices of the same kind\n                uname = f\"{n}_{seq-1}\"\n                G.add_edge(uname, vname)\n", "", rule="C07.edges"),
    V("attach-gt", U, "            if n_non[\"ts_end\"] <= G.nodes[n_sup][\"ts_start\"]:", "            if n_non[\"ts_end\"] > G.nodes[n_sup][\"ts_start\"]:", rule="C07.attach"),
    V("attach-lt", U, "            if n_non[\"ts_end\"] <= G.nodes[n_sup][\"ts_start\"]:", "            if n_non[\"ts_end\"] < G.nodes[n_sup][\"ts_start\"]:", rule="C07.attach"),
    V("generations-reversed", P, "            for gen, timings_gen in zip(generations[:-1], timings_mcs):", "            for gen, timings_gen in zip(generations[:-1][::-1], timings_mcs[:-1][::-1]):", rule="C07.order"),
    V("window-lt", U, "                idx = jnp.argwhere(reversed_seq_in <= _seq, size=1, fill_value=-1)[0, 0]", "                idx = jnp.argwhere(reversed_seq_in < _seq, size=1, fill_value=-1)[0, 0]", rule="C07.window"),
    V("fill-uses-slot-idx", U, "            window.seq[slot_idx[:, 0], slot_idx[:, 1]] = w.seq[fill_idx[:, 0], fill_idx[:, 1]]", "            window.seq[slot_idx[:, 0], slot_idx[:, 1]] = w.seq[slot_idx[:, 0], slot_idx[:, 1]]", rule="C07.fill"),
    V("ts-sent-from-start", U, "        ts_sent = jnp.take(vertex.ts_end, edge.seq_out)  # vertex.ts_end[edge.seq_out]", "        ts_sent = jnp.take(vertex.ts_start, edge.seq_out)", rule="C07.window"),
    V("horizon-not-skipped", U, "            if not partition_idx < num_partitions:  # Skip if partition index is out of bounds\n                continue\n", "", rule="C07.fill"),
    V("run-template-true", U, "            run = onp.zeros((num_episodes, num_partitions)).astype(bool)", "            run = onp.ones((num_episodes, num_partitions)).astype(bool)", rule="C07.fill"),
    V("msg-edge-reversed", U, "            G.add_edge(u, v, ts_recv=ts_recv)", "            G.add_edge(v, u, ts_recv=ts_recv)", rule="C07.edges"),
    V("padded-vertex-kept", U, "            if seq == -1:\n                continue\n            vname", "            if seq == -2:\n                continue\n            vname", rule="C07.edges"),
    V("prune-flag-inverted", G, "        if not prune:\n            Gs_supergraph = [utils.to_connected_graph", "        if prune:\n            Gs_supergraph = [utils.to_connected_graph", rule="C07.modes"),
    V("never-received-selectable", U, "win_seq_in = jnp.where(indexed_windows.seq_in == -1, jnp.array(2**31 - 1, dtype=int), indexed_windows.seq_in)", "win_seq_in = indexed_windows.seq_in", rule="C07.window"),
    V("sup-update-before-gens", P, "        # Run generations\n        # NOTE! len(generations) = len(timings_mcs) --> last generation is the supervisor.\n        if not is_uniform:", "        graph_state = graph_state.replace_step_states({supervisor: update_input_fns[supervisor](graph_state, timings_mcs[supervisor_gen_idx][supervisor_slot])})\n        if not is_uniform:", rule="C07.order"),
    # preserving
    V("attach-not-gt", U, "            if n_non[\"ts_end\"] <= G.nodes[n_sup][\"ts_start\"]:", "            if not (n_non[\"ts_end\"] > G.nodes[n_sup][\"ts_start\"]):", expect="silent"),
    V("fill-reordered", U, "        slot.seq[slot_idx[:, 0], slot_idx[:, 1]] = v.seq[fill_idx[:, 0], fill_idx[:, 1]]\n        slot.ts_start[slot_idx[:, 0], slot_idx[:, 1]] = v.ts_start[fill_idx[:, 0], fill_idx[:, 1]]\n", "        slot.ts_start[slot_idx[:, 0], slot_idx[:, 1]] = v.ts_start[fill_idx[:, 0], fill_idx[:, 1]]\n        slot.seq[slot_idx[:, 0], slot_idx[:, 1]] = v.seq[fill_idx[:, 0], fill_idx[:, 1]]\n", expect="silent"),
    V("mode-eq", G, "        if supergraph is Supergraph.MCS:", "        if supergraph == Supergraph.MCS:", expect="silent"),
]
