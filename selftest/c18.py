C = "rex/cem.py"; E = "rex/evo.py"
def V(i, file, old, new, expect="fire", rule=None):
    return dict(id=f"C18-{i}", pid="C18", file=file, old=old, new=new, expect=expect, rule=rule)
VARIANTS = [
    V("argsort-raw", C, "    losses = jnp.where(jnp.isnan(losses), jnp.inf, losses)\n    elite_indices = jnp.argsort(losses)[:num_elites]", "    elite_indices = jnp.argsort(losses)[:num_elites]\n    losses = jnp.where(jnp.isnan(losses), jnp.inf, losses)", rule="C18.nan"),
    V("gt-in-one-where", C, "        lambda x, y: jnp.where(state.bestsofar_loss < best_loss, x, y), state.bestsofar, best_sample", "        lambda x, y: jnp.where(state.bestsofar_loss > best_loss, x, y), state.bestsofar, best_sample", rule="C18.best"),
    V("clip-swapped", C, "        clipped_samples = jnp.clip(samples, u_min, u_max)", "        clipped_samples = jnp.clip(samples, u_max, u_min)", rule="C18.bounds"),
    V("elite-last", C, "    best_index = elite_indices[0]", "    best_index = elite_indices[-1]", rule="C18.best"),
    V("nan-to-zero", C, "    losses = jnp.where(jnp.isnan(losses), jnp.inf, losses)", "    losses = jnp.where(jnp.isnan(losses), 0.0, losses)", rule="C18.nan"),
    V("both-gt", C, "    updated_bestsofar = jax.tree_util.tree_map(\n        lambda x, y: jnp.where(state.bestsofar_loss < best_loss, x, y), state.bestsofar, best_sample\n    )\n    updated_bestsofar_loss = jnp.where(state.bestsofar_loss < best_loss, state.bestsofar_loss, best_loss)",
      "    updated_bestsofar = jax.tree_util.tree_map(\n        lambda x, y: jnp.where(state.bestsofar_loss > best_loss, x, y), state.bestsofar, best_sample\n    )\n    updated_bestsofar_loss = jnp.where(state.bestsofar_loss > best_loss, state.bestsofar_loss, best_loss)", rule="C18.best"),
    V("evo-tell-raw", E, "    new_state = solver.strategy.tell(x, loss_nonan, state, solver.strategy_params)", "    new_state = solver.strategy.tell(x, losses, state, solver.strategy_params)", rule="C18.nan"),
    V("evo-clip-swapped", E, "strategy_params = strategy_params.replace(clip_min=clip_min, clip_max=clip_max)", "strategy_params = strategy_params.replace(clip_min=clip_max, clip_max=clip_min)", rule="C18.bounds"),
    V("no-clip", C, "        clipped_samples = jnp.clip(samples, u_min, u_max)\n        return clipped_samples", "        return samples", rule="C18.bounds"),
    V("argsort-descending", C, "    elite_indices = jnp.argsort(losses)[:num_elites]", "    elite_indices = jnp.argsort(-losses)[:num_elites]", rule="C18.best"),
    V("init-best-zero", C, "bestsofar=u_mean, bestsofar_loss=jnp.inf)", "bestsofar=u_mean, bestsofar_loss=0.0)", rule="C18.best"),
    # preserving
    V("le-form", C, "    updated_bestsofar = jax.tree_util.tree_map(\n        lambda x, y: jnp.where(state.bestsofar_loss < best_loss, x, y), state.bestsofar, best_sample\n    )\n    updated_bestsofar_loss = jnp.where(state.bestsofar_loss < best_loss, state.bestsofar_loss, best_loss)",
      "    keep_old = state.bestsofar_loss <= best_loss\n    updated_bestsofar = jax.tree_util.tree_map(lambda x, y: jnp.where(keep_old, x, y), state.bestsofar, best_sample)\n    updated_bestsofar_loss = jnp.where(keep_old, state.bestsofar_loss, best_loss)", expect="silent"),
    V("swapped-where", C, "    updated_bestsofar_loss = jnp.where(state.bestsofar_loss < best_loss, state.bestsofar_loss, best_loss)", "    updated_bestsofar_loss = jnp.where(best_loss <= state.bestsofar_loss, best_loss, state.bestsofar_loss)", expect="silent"),
]
