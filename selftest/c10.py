B = "rex/base.py"; N = "rex/node.py"; P = "rex/partition_runner.py"; AR = "rex/artificial.py"; U = "rex/utils.py"
def V(i, file, old, new, expect="fire", rule=None, all=False):
    return dict(id=f"C10-{i}", pid="C10", file=file, old=old, new=new, expect=expect, rule=rule, all=all)
VARIANTS = [
    V("idx-min-cum", B, "            # Slice the input state\n            idx_min = idx_max - window", "            # Slice the input state\n            idx_min = idx_max - cum_window", rule="C10.window"),
    V("arrival-ge", B, "idx_max = jnp.argwhere(ts_recv > ts_start, size=1, fill_value=cum_window)[0, 0]", "idx_max = jnp.argwhere(ts_recv >= ts_start, size=1, fill_value=cum_window)[0, 0]", rule="C10.arrival"),
    V("clip-dropped", B, "        return jnp.clip(self._get_alpha(delay, self.min, self.max), 0.0, 1.0)", "        return self._get_alpha(delay, self.min, self.max)", rule="C10.saturate"),
    V("generate-max", AR, "delay_dist = StaticDist.create(distrax.Deterministic(loc=delay_dist.min))  # Assume the minimal delay", "delay_dist = StaticDist.create(distrax.Deterministic(loc=delay_dist.max))  # Assume the minimal delay", rule="C10.generate"),
    V("configured-dist", P, "            _inputs = _inputs_undelayed.delay_dist.apply_delay(c.output_node.rate, _inputs_undelayed, ts_start)", "            _inputs = c.delay_dist.apply_delay(c.output_node.rate, _inputs_undelayed, ts_start)", rule="C10.apply"),
    V("window-floor", B, "        return int(onp.ceil(rate_out * (self.max - self.min)).astype(int))", "        return int(onp.floor(rate_out * (self.max - self.min)).astype(int))", rule="C10.window"),
    V("sample-max-only", B, "        samples = self.min + self.alpha * (self.max - self.min) * jnp.ones(shape)", "        samples = self.alpha * (self.max - self.min) * jnp.ones(shape)", rule="C10"),
    V("receiver-rate", P, "apply_delay(c.output_node.rate, _inputs_undelayed, ts_start)", "apply_delay(node.rate, _inputs_undelayed, ts_start)", rule="C10.apply"),
    V("linear-window-off", B, "        elif self.interp in [\"linear\", \"linear_real_only\"]:\n            idx_min = idx_max - window", "        elif self.interp in [\"linear\", \"linear_real_only\"]:\n            idx_min = idx_max - window - 1", rule="C10.window"),
    V("interp-extra-accepted", B, "        assert interp in [\"zoh\", \"linear\", \"linear_real_only\"], f\"Interpolation method {interp} not supported.\"", "        assert interp in [\"zoh\", \"linear\", \"linear_real_only\", \"cubic\"], f\"Interpolation method {interp} not supported.\"", rule="C10.interp"),
    V("equivalent-ignores-min", B, "        if self.min != other.min:\n            return False  # Different min delay", "        if False:\n            return False  # Different min delay", rule="C10.apply"),
    V("delay-applied-only-first", P, "            _inputs = _inputs_undelayed.delay_dist.apply_delay(c.output_node.rate, _inputs_undelayed, ts_start)", "            _inputs = _inputs_undelayed.delay_dist.apply_delay(c.output_node.rate, _inputs_undelayed, ts_start) if seq is None else _inputs_undelayed", rule="C10.apply"),
    V("dummy-recv", B, "        ts_recv = jnp.where(input.seq < 0, input.ts_recv, ts_recv)  # If seq < 0, then keep the original ts_recv", "        ts_recv = jnp.where(input.seq <= 0, input.ts_recv, ts_recv)", rule="C10.arrival"),
    # preserving
    V("window-var", B, "        cum_window = input.seq.shape[0]\n        window = cum_window - window_delayed", "        n_total = input.seq.shape[0]\n        cum_window = n_total\n        window = -window_delayed + n_total", expect="silent"),
    V("arrival-not-le", B, "idx_max = jnp.argwhere(ts_recv > ts_start, size=1, fill_value=cum_window)[0, 0]", "idx_max = jnp.argwhere(jnp.logical_not(ts_recv <= ts_start), size=1, fill_value=cum_window)[0, 0]", expect="silent"),
]
