A = "rex/asynchronous.py"
def V(i, old, new, expect="fire", rule=None, file=A):
    return dict(id=f"C04-{i}", pid="C04", file=file, old=old, new=new, expect=expect, rule=rule)
VARIANTS = [
    V("drop-max0", "self._phase_scheduled += max(0, phase_last - phase_scheduled)", "self._phase_scheduled += phase_last - phase_scheduled", rule="C04.drift"),
    V("no-phase-reset", "            else:  # self.scheduling in [PHASE]\n                self._phase_scheduled = 0.0", "            else:  # self.scheduling in [PHASE]\n                pass", rule="C04.drift"),
    V("or-only-blocking", "only_blocking = self.node.advance and all(", "only_blocking = self.node.advance or all(", rule="C04.only_blocking"),
    V("phase-last-wrong", "phase_last = ts_end_prev - ts_scheduled", "phase_last = ts_end_prev - ts_start if False else ts_end_prev - ts_scheduled - 0.001", rule="C04.start"),
    V("ts-output-from-sched", "ts_output = ts_start + delay", "ts_output = ts_scheduled + delay", rule="C04.end"),
    V("sched-minus-phase", "scheduled_ts = round(tick / self.node.rate + self.phase, 6)", "scheduled_ts = round(tick / self.node.rate - self.phase, 6)", rule="C04.sched"),
    V("tick-plus-2", "            tick = self._tick\n            self._tick += 1\n\n            # Calculate scheduled ts", "            tick = self._tick\n            self._tick += 2\n\n            # Calculate scheduled ts", rule="C04.sched"),
    V("fifo-dropped", "recv_sc = round(max(sent_sc + delay, self._prev_recv_sc), 6)", "recv_sc = round(sent_sc + delay, 6)", rule="C04.recv"),
    V("prev-recv-forgotten", "            self._prev_recv_sc = recv_sc\n", "            pass\n", rule="C04.recv"),
    V("ts-max-min", "ts_max = max([0.0] + input_ts)", "ts_max = min([0.0] + input_ts)", rule="C04.ts_max"),
    V("phase-always-scheduled", "phase = max(phase_inputs, phase_last) if only_blocking else max(phase_inputs, phase_last, phase_scheduled)", "phase = max(phase_inputs, phase_last, phase_scheduled)", rule="C04.start"),
    V("end-prev-start", "                self.q_ts_end_prev.append(ts_output)", "                self.q_ts_end_prev.append(ts_start)", rule="C04.end"),
    # behaviour-preserving
    V("direct-ts-start", "ts_start = ts_scheduled + phase\n", "ts_start = max(ts_max, ts_end_prev) if only_blocking else max(ts_max, ts_end_prev, ts_scheduled + phase_scheduled)\n", expect="silent"),
    V("swap-operands", "phase_inputs = ts_max - ts_scheduled", "phase_inputs = -ts_scheduled + ts_max", expect="silent"),
    V("rename-local", "            ts_end_prev = self.q_ts_end_prev.popleft()\n", "            ts_end_prev = self.q_ts_end_prev.popleft()\n            prev_end = ts_end_prev\n            ts_end_prev = prev_end\n", expect="silent"),
    V("freq-eq", "if self.node.scheduling in [Scheduling.FREQUENCY]:", "if self.node.scheduling == Scheduling.FREQUENCY:", expect="silent"),
    V("phase-branch-swap", "            if self.node.scheduling in [Scheduling.FREQUENCY]:\n                self._phase_scheduled += max(0, phase_last - phase_scheduled)\n            else:  # self.scheduling in [PHASE]\n                self._phase_scheduled = 0.0",
      "            if self.node.scheduling is Scheduling.PHASE:\n                self._phase_scheduled = 0.0\n            else:\n                self._phase_scheduled = max(phase_scheduled, phase_last)", expect="silent"),
    V("generator-grid", "        ts_next = jnp.max(jnp.array([ts_end, ts_prev + 1 / rate]))", "        ts_next = jnp.max(jnp.array([ts_end, (i + 1) / rate]))", rule="C04.generator", file="rex/artificial.py"),
    V("generator-no-spacing", "        ts_next = jnp.max(jnp.array([ts_end, ts_prev + 1 / rate]))", "        ts_next = ts_end", rule="C04.generator", file="rex/artificial.py"),
    V("generator-maximum", "        ts_next = jnp.max(jnp.array([ts_end, ts_prev + 1 / rate]))", "        ts_next = jnp.maximum(ts_prev + 1 / rate, ts_end)", expect="silent", file="rex/artificial.py"),
]
