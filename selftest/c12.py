AR = "rex/artificial.py"
def V(i, old, new, expect="fire", rule=None):
    return dict(id=f"C12-{i}", pid="C12", file=AR, old=old, new=new, expect=expect, rule=rule)
VARIANTS = [
    V("ts-next-min", "        ts_next = jnp.max(jnp.array([ts_end, ts_prev + 1 / rate]))", "        ts_next = jnp.min(jnp.array([ts_end, ts_prev + 1 / rate]))", rule="C12.scan"),
    V("skip-ge", "is_larger = ts_start[_seq_mod] > ts_recv if skip else ts_start[_seq_mod] >= ts_recv", "is_larger = ts_start[_seq_mod] >= ts_recv", rule="C12.tie"),
    V("continue-dropped", "            if (output_name, input_name) in edges:\n                continue  # Skip if edge already exists\n", "", rule="C12.augment"),
    V("vertex-continue-dropped", "            if n in vertices:\n                continue\n", "", rule="C12.augment"),
    V("mask-start", "        seq = jnp.where(ts_end > __ts_max, -1, i)", "        seq = jnp.where(ts_start > __ts_max, -1, i)", rule="C12.scan"),
    V("final-test-nonstrict", "        is_larger = ts_start[seq] > ts_recv if skip else ts_start[seq] >= ts_recv\n        seq_clipped", "        is_larger = ts_start[seq] >= ts_recv\n        seq_clipped", rule="C12.tie"),
    V("ts-end-no-delay", "        ts_end = ts_start + comp_delay.replace(rng=rng_comp).sample()[1]", "        ts_end = ts_start + 0.0 * comp_delay.replace(rng=rng_comp).sample()[1]", rule="C12.scan"),
    V("rng-reused", "        ts_end = ts_start + comp_delay.replace(rng=rng_comp).sample()[1]", "        ts_end = ts_start + comp_delay.replace(rng=rng_prev).sample()[1]", rule="C12.scan"),
    V("phase-zero", "        phase[n.name] = StaticDist.create(distrax.Deterministic(loc=n.phase))", "        phase[n.name] = StaticDist.create(distrax.Deterministic(loc=0.0))", rule="C12.scan"),
    V("blocking-not-rejected", "            if c.blocking is True:\n                raise NotImplementedError(\n                    \"connection.blocking=True is not supported yet. As a workaround, you can generate graphs via AsyncGraph.\"\n                )\n", "", rule="C12.reject"),
    V("seq-in-not-masked", "            seq_in = jnp.where(ts_end > _ts_max, -1, seqs_clipped)\n", "            seq_in = seqs_clipped\n", rule="C12.mask"),
    V("recv-from-start", "            ts_end = jnp.where(seq_out == -1, jnp.inf, vertices[output_name].ts_end)", "            ts_end = jnp.where(seq_out == -1, jnp.inf, vertices[output_name].ts_start)", rule="C12.mask"),
    V("receiver-wrong-node", "            ts_start = vertices[input_name].ts_start\n", "            ts_start = vertices[output_name].ts_start\n", rule="C12.tie"),
    V("search-restarts", "            last_seq, seqs_clipped = jax.lax.scan(scan_body_seq, 0, ts_recv)", "            last_seq, seqs_clipped = jax.lax.scan(scan_body_seq, 1, ts_recv)", rule="C12.mask"),
    # preserving
    V("maximum", "        ts_next = jnp.max(jnp.array([ts_end, ts_prev + 1 / rate]))", "        ts_next = jnp.maximum(ts_prev + 1 / rate, ts_end)", expect="silent"),
    V("where-form", "is_larger = ts_start[_seq_mod] > ts_recv if skip else ts_start[_seq_mod] >= ts_recv", "is_larger = jnp.logical_or(ts_start[_seq_mod] > ts_recv, jnp.logical_and(not skip, ts_start[_seq_mod] == ts_recv))", expect="silent"),
]
_E0 = "        edges = {(n1, n2): e for (n1, n2), e in _graphs.edges.items()}\n"
_EG = "            if (output_name, input_name) in edges:\n                continue  # Skip if edge already exists\n"
VARIANTS += [
    V("edges-only-configured", _E0 + "        for ((output_name, input_name), c), _rng in zip(connections.items(), rngs_comm):", "        edges = dict()\n        for ((output_name, input_name), c), _rng in zip(connections.items(), rngs_comm):\n            if (output_name, input_name) in _graphs.edges:\n                edges[(output_name, input_name)] = _graphs.edges[(output_name, input_name)]", rule="C12.augment"),
    V("edges-dict-copy", _E0, "        edges = dict(_graphs.edges)\n", expect="silent"),
]
