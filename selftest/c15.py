B = "rex/base.py"; N = "rex/node.py"; GM = "rex/gmm_estimator.py"
def V(i, file, old, new, expect="fire", rule=None, all=False):
    return dict(id=f"C15-{i}", pid="C15", file=file, old=old, new=new, expect=expect, rule=rule, all=all)
VARIANTS = [
    V("clip-minus-1", B, "        samples = jnp.clip(samples, 0.0, None)  # Ensure that the delay is non-negative", "        samples = jnp.clip(samples, -1.0, None)  # Ensure that the delay is non-negative", rule="C15.nonneg"),
    V("sample-with-self-rng", B, "        samples = self.dist.sample(sample_shape=shape, seed=rng_sample)", "        samples = self.dist.sample(sample_shape=shape, seed=self.rng)", rule="C15.rng"),
    V("return-self", B, "        return self.replace(rng=new_rng), samples", "        return self, samples", rule="C15.rng"),
    V("quantile-09", N, "self.delay = delay if delay is not None else float(self.delay_dist.quantile(0.99))\n        assert self.delay >= 0, \"Delay should be non-negative.\"\n        self.window", "self.delay = delay if delay is not None else float(self.delay_dist.quantile(0.9))\n        assert self.delay >= 0, \"Delay should be non-negative.\"\n        self.window", rule="C15.default"),
    V("clip-removed", B, "        samples = jnp.clip(samples, 0.0, None)  # Ensure that the delay is non-negative\n", "", rule="C15.nonneg"),
    V("normal-quantile-swapped", B, "            return jax.scipy.special.ndtri(q) * self.dist.scale + self.dist.loc", "            return jax.scipy.special.ndtri(q) * self.dist.loc + self.dist.scale", rule="C15.quantile"),
    V("deterministic-quantile-q", B, "            res = onp.ones(shape) * self.dist.mean()\n            return res", "            res = onp.ones(shape) * self.dist.mean() * q\n            return res", rule="C15.quantile"),
    V("reset-keeps-key", B, "        return self.replace(rng=rng)\n\n    @classmethod\n    def create(cls, dist", "        return self\n\n    @classmethod\n    def create(cls, dist", rule="C15.rng"),
    V("sample-caches", B, "        new_rng, rng_sample = jax.random.split(self.rng, 2)\n        samples = self.dist.sample", "        new_rng, rng_sample = jax.random.split(self.rng, 2)\n        object.__setattr__(self, \"_last\", new_rng)\n        self.dist.last = new_rng\n        samples = self.dist.sample", rule="C15.pure"),
    V("rescale-no-mean", GM, "        component_mus = component_mus * self._std + self._mean", "        component_mus = component_mus * self._std", rule="C15.estimator"),
    V("weights-not-renormalised", GM, "        w, s, m = w[prune_idx:], s[prune_idx:], m[prune_idx:]\n        w = normalize_weights(w)\n", "        w, s, m = w[prune_idx:], s[prune_idx:], m[prune_idx:]\n", rule="C15.estimator"),
    V("trainable-quantile-max", B, "        As the distribution is deterministic, the quantile is trivially calculated as the\n        constant value of the distribution.\n\n        Args:\n            q: the quantile value\n\n        Returns:\n            The quantile value\n        \"\"\"\n        return self.min + self.alpha * (self.max - self.min)", "        As the distribution is deterministic, the quantile is trivially calculated as the\n        constant value of the distribution.\n\n        Args:\n            q: the quantile value\n\n        Returns:\n            The quantile value\n        \"\"\"\n        return self.max", rule="C15.quantile"),
    # preserving
    V("maximum-form", B, "        new_rng, rng_sample = jax.random.split(self.rng, 2)", "        keys = jax.random.split(self.rng, 2)\n        new_rng, rng_sample = keys[0], keys[1]", expect="silent"),
]
