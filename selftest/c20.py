P = "rex/ppo.py"
A = "rex/actor_critic.py"
def V(i, old, new, expect="fire", rule=None, all=False, file=P):
    return dict(id=f"C20-{i}", pid="C20", file=file, old=old, new=new, expect=expect, rule=rule, all=all)
VARIANTS = [
    V("table-swap", "ACTIVATIONS = dict(tanh=nn.tanh, relu=nn.relu, gelu=nn.gelu, softplus=nn.softplus)", "ACTIVATIONS = dict(tanh=nn.tanh, relu=nn.relu, gelu=nn.softplus, softplus=nn.gelu)", rule="C20.activations"),
    V("table-missing", "ACTIVATIONS = dict(tanh=nn.tanh, relu=nn.relu, gelu=nn.gelu, softplus=nn.softplus)", "ACTIVATIONS = dict(tanh=nn.tanh, relu=nn.relu, gelu=nn.gelu)", rule="C20.activations"),
    V("table-other-fn", "ACTIVATIONS = dict(tanh=nn.tanh, relu=nn.relu, gelu=nn.gelu, softplus=nn.softplus)", "ACTIVATIONS = dict(tanh=nn.tanh, relu=nn.relu6, gelu=nn.gelu, softplus=nn.softplus)", rule="C20.activations"),
    V("actor-chain-swap", "                x = nn.gelu(x)\n            elif self.hidden_activation == \"softplus\":\n                x = nn.softplus(x)\n            else:\n                raise ValueError(f\"Unknown hidden_activation: {self.hidden_activation}\")\n\n        # Initialize output layer\n        if self.output_activation == \"identity\":", "                x = nn.silu(x)\n            elif self.hidden_activation == \"softplus\":\n                x = nn.softplus(x)\n            else:\n                raise ValueError(f\"Unknown hidden_activation: {self.hidden_activation}\")\n\n        # Initialize output layer\n        if self.output_activation == \"identity\":", rule="C20.activations", file=A),
    V("hidden-layer-off-by-one", "            hl = actor_params[f\"Dense_{i}\"]", "            hl = actor_params[f\"Dense_{i + 1}\"]", rule="C20.layers"),
    V("output-layer-first", "        hl = actor_params[f\"Dense_{num_layers-1}\"]  # Index of final layer", "        hl = actor_params[f\"Dense_{0}\"]  # Index of final layer", rule="C20.layers"),
    V("all-layers-hidden", "        for i in range(num_layers - 1):\n            hl = actor_params", "        for i in range(num_layers):\n            hl = actor_params", rule="C20.layers"),
    V("output-activated", "        x_mean = nn.Dense(num_output_units).apply({\"params\": hl}, x)\n", "        x_mean = ACTIVATIONS[self.hidden_activation](nn.Dense(num_output_units).apply({\"params\": hl}, x))\n", rule="C20.layers"),
    V("no-activation", "            x = ACTIVATIONS[self.hidden_activation](x)\n", "            x = x\n", rule="C20.layers"),
    V("half-log-std", "pi = distrax.MultivariateNormalDiag(x_mean, jnp.exp(log_std))", "pi = distrax.MultivariateNormalDiag(x_mean, jnp.exp(0.5 * log_std))", rule="C20.layers"),
    V("std-not-exp", "pi = distrax.MultivariateNormalDiag(x_mean, jnp.exp(log_std))", "pi = distrax.MultivariateNormalDiag(x_mean, jnp.abs(log_std))", rule="C20.layers"),
    V("det-tanh", "            else:\n                x = x_mean\n", "            else:\n                x = jnp.tanh(x_mean)\n", rule="C20.layers"),
    V("critic-params", "        actor_params = self.model[\"actor\"]", "        actor_params = self.model[\"critic\"]", rule="C20.layers"),
    V("no-clip", "norm_obs = self.obs_scaling.normalize(obs, clip=True, subtract_mean=True) if", "norm_obs = self.obs_scaling.normalize(obs, clip=False, subtract_mean=True) if", rule="C20.pipeline"),
    V("no-mean", "norm_obs = self.obs_scaling.normalize(obs, clip=True, subtract_mean=True) if", "norm_obs = self.obs_scaling.normalize(obs, clip=True, subtract_mean=False) if", rule="C20.pipeline"),
    V("raw-obs-to-actor", "            self.apply_actor(norm_obs, rng=rng) if self.model", "            self.apply_actor(obs, rng=rng) if self.model", rule="C20.pipeline"),
    V("no-unsquash", "        action = self.act_scaling.unsquash(action) if self.act_scaling is not None else action\n        return action", "        return action", rule="C20.pipeline"),
    V("rng-dropped", "            self.apply_actor(norm_obs, rng=rng) if self.model", "            self.apply_actor(norm_obs) if self.model", rule="C20.pipeline"),
    V("export-fixed-activation", "            hidden_activation=self.config.HIDDEN_ACTIVATION,\n            output_activation=\"gaussian\",", "            hidden_activation=\"tanh\",\n            output_activation=\"gaussian\",", rule="C20.extract"),
    V("actor-fixed-activation", "        hidden_activation=config.HIDDEN_ACTIVATION,\n        kernel_init_type=config.KERNEL_INIT_TYPE,\n        state_independent_std", "        hidden_activation=\"tanh\",\n        kernel_init_type=config.KERNEL_INIT_TYPE,\n        state_independent_std", rule="C20.extract"),
    V("actor-default-output", "    output_activation: str = \"gaussian\"", "    output_activation: str = \"tanh\"", rule="C20.extract", file=A),
    V("export-reward-scaling", "        return self.runner_state.env_state.aux.get(\"norm_obs\", None)", "        return self.runner_state.env_state.aux.get(\"norm_reward\", None)", rule="C20.extract"),
    # preserving
    V("table-literal", "ACTIVATIONS = dict(tanh=nn.tanh, relu=nn.relu, gelu=nn.gelu, softplus=nn.softplus)", "ACTIVATIONS = dict(softplus=nn.softplus, gelu=nn.gelu, relu=nn.relu, tanh=nn.tanh)", expect="silent"),
    V("get-action-statements", "        norm_obs = self.obs_scaling.normalize(obs, clip=True, subtract_mean=True) if self.obs_scaling is not None else obs\n", "        norm_obs = obs\n        if self.obs_scaling is not None:\n            norm_obs = self.obs_scaling.normalize(obs, subtract_mean=True, clip=True)\n", expect="silent"),
    V("log-std-inline", "                log_std = actor_params[\"log_std\"]\n                pi = distrax.MultivariateNormalDiag(x_mean, jnp.exp(log_std))", "                pi = distrax.MultivariateNormalDiag(x_mean, jnp.exp(self.model[\"actor\"][\"log_std\"]))", expect="silent"),
]
