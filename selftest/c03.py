A = "rex/asynchronous.py"; B = "rex/base.py"
def V(i, old, new, expect="fire", rule=None, file=A, all=False):
    return dict(id=f"C03-{i}", pid="C03", file=file, old=old, new=new, expect=expect, rule=rule, all=all)
VARIANTS = [
    V("ge-latest", "                        if ts > ts_step or (self.connection.skip and ts == ts_step):", "                        if ts >= ts_step:", rule="C03.tie"),
    V("skip-dropped-latest", "                        if ts > ts_step or (self.connection.skip and ts == ts_step):", "                        if ts > ts_step:", rule="C03.tie"),
    V("revert-D5", "                        if ts_recv > ts_step or (self.connection.skip and ts_recv == ts_step):", "                        if ts_recv > ts_step:", rule="C03.tie"),
    V("buffer-expected-dropped", "                        if ts_expected > ts_step:\n                            break\n", "", rule="C03.tie"),
    V("buffer-expected-formula", "ts_expected = seq / self.connection.output_node.rate + phase", "ts_expected = (seq + 1) / self.connection.output_node.rate + phase", rule="C03.tie"),
    V("future-guard-ge", "any(ts > ts_step for seq, ts in self.q_ts_input)", "any(ts >= ts_step for seq, ts in self.q_ts_input)", rule="C03.tie"),
    V("future-guard-dropped", "            if has_ts_in_future:\n                # Pop elements from queues", "            if True:\n                # Pop elements from queues", rule="C03.tie"),
    V("tiling-closed-both", "                    if t_low < t <= t_high and not skip:", "                    if t_low <= t <= t_high and not skip:", rule="C03.tiling"),
    V("tiling-skip-closed", "                    elif t_low <= t < t_high and skip:", "                    elif t_low <= t <= t_high and skip:", rule="C03.tiling"),
    V("tiling-first-step", "                        if t <= t_low and not skip:", "                        if t < t_low and not skip:", rule="C03.tiling"),
    V("tiling-start-index", "            i = int((t_low - phase_in) // dt_in) if N_node > 0 else 0", "            i = int((t_low - phase_in) // dt_in)", rule="C03.tiling"),
    V("tiling-t-low", "            t_low = dt_node * (N_node - 1) + phase_node", "            t_low = dt_node * (N_node - 2) + phase_node", rule="C03.tiling"),
    V("fifo-dropped", "recv_sc = round(max(sent_sc + delay, self._prev_recv_sc), 6)", "recv_sc = round(sent_sc + delay, 6)", rule="C03.fifo"),
    V("prev-recv-forgotten", "            self._prev_recv_sc = recv_sc\n", "            pass\n", rule="C03.fifo"),
    V("window-head", "self.q_grouped.append(grouped[-self.connection.window :])", "self.q_grouped.append(grouped[: self.connection.window])", rule="C03.window"),
    V("tick-plus-2", "                tick = self._tick  # Serves as seq_in for the grouped messages\n                self._tick += 1", "                tick = self._tick  # Serves as seq_in for the grouped messages\n                self._tick += 2", rule="C03.counter"),
    V("eps-test-removed", "        elif header_sent.eps != self.input_node.eps:\n            self.log(\"push_input (PREV EPS)\", log_level=LogLevel.DEBUG)\n            return\n", "", rule="C03.eps"),
    V("grouped-swapped", "                    grouped.append((seq, ts_sent, ts_recv, msg))", "                    grouped.append((seq, ts_recv, ts_sent, msg))", rule="C03.window"),
    V("roll-plus-1", "        rolled_a = jnp.roll(a, -1, axis=0)\n        new_a = jnp.array(rolled_a).at[-1].set(jnp.array(new))\n        return new_a\n\n    def push(self, seq: int,", "        rolled_a = jnp.roll(a, 1, axis=0)\n        new_a = jnp.array(rolled_a).at[-1].set(jnp.array(new))\n        return new_a\n\n    def push(self, seq: int,", rule="C03.window", file=B),
    V("push-order", "        new_t = [seq, ts_sent, ts_recv, data]", "        new_t = [seq, ts_recv, ts_sent, data]", rule="C03.window", file=B),
    V("record-filter-lt", "messages = list(filter(lambda x: x.seq_in <= last_seq_in, self._record_messages))", "messages = list(filter(lambda x: x.seq_in < last_seq_in, self._record_messages))", rule="C03.window"),
    V("msg-record-sent", "                ts_sent=sent_sc,\n                ts_recv=recv_sc,", "                ts_sent=recv_sc,\n                ts_recv=recv_sc,", rule="C03.fifo"),
    V("pop-one-too-many", "                [self.q_ts_input.popleft() for _ in range(num_msgs)]", "                [self.q_ts_input.popleft() for _ in range(num_msgs + 1)]", rule="C03"),
    V("only-last-pushed", "                for seq, ts_sent, ts_recv, msg in grouped:\n", "                for seq, ts_sent, ts_recv, msg in grouped[-1:]:\n", rule="C03.window"),
    # preserving
    V("not-le", "                        if ts > ts_step or (self.connection.skip and ts == ts_step):", "                        if not (ts <= ts_step) or (ts == ts_step and self.connection.skip):", expect="silent"),
    V("latest-nested", "                        if ts > ts_step or (self.connection.skip and ts == ts_step):\n                            break", "                        if ts > ts_step:\n                            break\n                        if self.connection.skip and not ts < ts_step:\n                            break", expect="silent"),
    V("tiling-reordered", "                    if t_low < t <= t_high and not skip:", "                    if not skip and t <= t_high and t > t_low:", expect="silent"),
    V("fifo-swapped", "recv_sc = round(max(sent_sc + delay, self._prev_recv_sc), 6)", "recv_sc = round(max(self._prev_recv_sc, delay + sent_sc), 6)", expect="silent"),
]
