import os, sys
import jax, jax.numpy as jnp, numpy as onp
from rex.base import TrainableDist, InputState
# sender signal: message k sent at t=0.1k with payload [k, 10k, 100k]; constant delay 0.05
n = 6
seq = jnp.arange(n)
ts_sent = 0.1 * jnp.arange(n)
data = jnp.stack([jnp.arange(n) * 1.0, jnp.arange(n) * 10.0, jnp.arange(n) * 100.0], axis=1)  # (6, 3)
for interp in ("zoh", "linear"):
    d = TrainableDist.create(delay=0.05, min=0.0, max=0.2, interp=interp)
    inp = InputState(seq=seq, ts_sent=ts_sent, ts_recv=ts_sent, data=data, delay_dist=d)
    out = d.apply_delay(10.0, inp, 0.50)   # window_delayed = 2 -> window 4
    print(interp, "seq", onp.asarray(out.seq), "\n", onp.asarray(out.data))
# expectation for linear: at ts_start-d = 0.45 the signal is k=4.5 -> [4.5, 45, 450]; older: 3.5, 2.5, 1.5
lin = onp.asarray(out.data)
exp = onp.array([[1.5, 15, 150], [2.5, 25, 250], [3.5, 35, 350], [4.5, 45, 450]])
print("matches expected piecewise-linear samples:", onp.allclose(lin, exp, atol=1e-3))
