import os, sys, threading, time
sys.path.insert(0, "/repo/tests/unit")
import jax.numpy as jnp
from distrax import Deterministic
from test_utils import Node, Output
import rex.constants as const
from rex.asynchronous import AsyncGraph

def mk():
    node1 = Node(name="node1", rate=10, delay_dist=Deterministic(0.01))
    node2 = Node(name="node2", rate=11, delay_dist=Deterministic(0.01))
    nodes = {n.name: n for n in [node1, node2]}
    node1.connect(node2, window=1, name="node2", delay_dist=Deterministic(0.01), blocking=False)
    node2.connect(node1, window=1, name="node1", delay_dist=Deterministic(0.01), blocking=True, skip=True)
    g = AsyncGraph(nodes=nodes, supervisor=node1, clock=const.Clock.SIMULATED, real_time_factor=const.RealTimeFactor.FAST_AS_POSSIBLE)
    gs = g.init(); g.warmup(gs)
    return g, gs

hist = sys.argv[1].split(",")
g, gs = mk()
done = threading.Event()
def wd():
    if not done.wait(25):
        print("HANG in history", hist, "at", cur[0]); os._exit(1)
cur = [None]
threading.Thread(target=wd, daemon=True).start()
ss = None
for h in hist:
    cur[0] = h
    if h == "reset": gs, ss = g.reset(gs)
    elif h == "run": gs = g.run(gs)
    elif h == "step": gs, ss = g.step(gs)
    elif h == "stop": g.stop()
    print("returned", h, flush=True)
done.set()
print("ALL RETURNED", hist)
os._exit(0)
