"""Flow rules over the event list of the value-numbering pass (A2 call-count, A3 must-pass-through,
ordering of events).

Guards are boolean terms over *atomic* branch conditions.  The atoms are treated as independent booleans
and all valuations are enumerated (finite; k <= MAX_ATOMS): this is a path-sensitive dataflow over the
abstraction "each distinct branch condition is a free boolean", sound for 'on every path' statements
(it may consider infeasible combinations, never fewer paths than exist).
"""
from __future__ import annotations

import itertools
from typing import Callable, Dict, Iterable, List, Optional, Sequence, Tuple

from . import terms as T
from .symeval import Event

MAX_ATOMS = 14


def bool_atoms(t: T.Term, acc=None) -> List[T.Term]:
    if acc is None:
        acc = []
    k = t[0]
    if k == "const":
        return acc
    if k in ("and", "or"):
        for x in t[1]:
            bool_atoms(x, acc)
    elif k == "not":
        bool_atoms(t[1], acc)
    elif k == "ite":
        for x in t[1:]:
            bool_atoms(x, acc)
    else:
        # lt0/le0 pairs: [d < 0] and [-d <= 0] are negations of each other: use one atom for both
        a = canonical_atom(t)[0]
        if a not in acc:
            acc.append(a)
    return acc


def canonical_atom(t: T.Term) -> Tuple[T.Term, bool]:
    """Return (atom, polarity): le0(-d) is represented as not lt0(d)."""
    if t[0] == "le0":
        return ("lt0", T.neg(t[1])), False
    return t, True


def bool_eval(t: T.Term, val: Dict[T.Term, bool]) -> bool:
    k = t[0]
    if k == "const":
        return bool(t[1])
    if k == "and":
        return all(bool_eval(x, val) for x in t[1])
    if k == "or":
        return any(bool_eval(x, val) for x in t[1])
    if k == "not":
        return not bool_eval(t[1], val)
    if k == "ite":
        return bool_eval(t[2], val) if bool_eval(t[1], val) else bool_eval(t[3], val)
    a, pol = canonical_atom(t)
    v = val[a]
    return v if pol else not v


def valuations(atoms: Sequence[T.Term]) -> Iterable[Dict[T.Term, bool]]:
    if len(atoms) > MAX_ATOMS:
        raise ValueError(f"too many branch atoms ({len(atoms)})")
    for bits in itertools.product((False, True), repeat=len(atoms)):
        yield dict(zip(atoms, bits))


def count_range(events: Sequence[Event], region: T.Term = T.TRUE, constraint: Optional[Callable[[Dict], bool]] = None,
                extra_atoms: Sequence[T.Term] = ()) -> Tuple[int, int, Optional[Dict]]:
    """[min, max] number of the given events executed on a path through `region` (A2).
    An event inside a loop counts as 'many' (returned as 10**6)."""
    atoms: List[T.Term] = []
    bool_atoms(region, atoms)
    for e in events:
        bool_atoms(e.guard, atoms)
    for a in extra_atoms:
        bool_atoms(a, atoms)
    lo, hi, witness = None, None, None
    for val in valuations(atoms):
        if not bool_eval(region, val):
            continue
        if constraint is not None and not constraint(val):
            continue
        n = 0
        for e in events:
            if bool_eval(e.guard, val):
                n += 10 ** 6 if e.loops else 1
        if lo is None or n < lo:
            lo = n
        if hi is None or n > hi:
            hi, witness = n, val
    return (lo or 0, hi or 0, witness)


def implies(a: T.Term, b: T.Term) -> bool:
    atoms: List[T.Term] = []
    bool_atoms(a, atoms)
    bool_atoms(b, atoms)
    return all((not bool_eval(a, v)) or bool_eval(b, v) for v in valuations(atoms))


def equivalent(a: T.Term, b: T.Term) -> bool:
    return implies(a, b) and implies(b, a)


def disjoint(a: T.Term, b: T.Term) -> bool:
    atoms: List[T.Term] = []
    bool_atoms(a, atoms)
    bool_atoms(b, atoms)
    return not any(bool_eval(a, v) and bool_eval(b, v) for v in valuations(atoms))


def precedes(first: Event, second: Event) -> bool:
    """`first` has happened on every path on which `second` happens (same function, structured code):
    textual order and guard implication."""
    if first.idx >= second.idx:
        return False
    if first.loops and first.loops != second.loops[: len(first.loops)]:
        return False
    return implies(second.guard, first.guard)


def show_val(val: Optional[Dict]) -> str:
    if not val:
        return "{}"
    return "{" + ", ".join(f"{T.show(k)[:60]}={v}" for k, v in val.items()) + "}"


def select_cases(term: T.Term, guard: T.Term):
    """Yield (guard_value, specialised term) for every valuation of the atoms of `guard`: the value a guarded (ite) term takes
    when the guard holds / does not hold, whichever way the conditions are nested or combined."""
    atoms: List[T.Term] = []
    bool_atoms(guard, atoms)
    atoms = list(dict.fromkeys(canonical_atom(a)[0] for a in atoms))
    for val in valuations(atoms):
        t = term
        for a, v in val.items():
            t = T.assume(t, a, v)
        yield bool_eval(guard, val), t
