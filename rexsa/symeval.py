"""Value numbering over the term algebra of terms.py (analysis A7, also the provenance engine for A4/A5
and the source of the event lists used by the flow rules A2/A3/A14).

This is *not* path-by-path symbolic execution: every function body is walked exactly once, every name gets
one term per program point, branches are merged with ite-terms (phi nodes), loops are summarised by
havoc-ing what they assign, and no constraint solver is involved.  The path condition attached to an event
is the conjunction of the branch conditions that lexically dominate it (plus the negated conditions of
earlier return/break/continue/raise statements).
"""
from __future__ import annotations

import ast
from dataclasses import dataclass, field
from typing import Any, Callable, Dict, List, Optional, Sequence, Set, Tuple

from . import terms as T
from .model import ClassInfo, FuncInfo, Model

Term = tuple

# Canonical dotted prefixes for import aliases we want to recognise independent of the local alias.
PURE_PREFIXES = (
    "jax.numpy.", "numpy.", "jax.tree_util.", "jax.lax.", "jax.random.", "jax.scipy.", "jax.nn.", "jax.dtypes.",
    "math.", "functools.", "flax.", "distrax.", "equinox.", "networkx.", "supergraph.", "jax.vmap", "jax.jit",
    "jax.devices", "jax.typing", "jax.Array", "rex.jax_utils.", "jax.errors", "numpy.ma.",
)
PURE_BUILTINS = {
    "max", "min", "round", "float", "int", "len", "all", "any", "abs", "str", "isinstance", "tuple", "list", "dict",
    "set", "sorted", "sum", "range", "zip", "enumerate", "bool", "iter", "next", "filter", "map", "reversed", "type",
    "hasattr", "getattr", "repr", "issubclass", "frozenset", "super",
}
PURE_METHODS = {
    "replace", "get", "items", "values", "keys", "copy", "astype", "reshape", "unfreeze", "format", "ljust", "split",
    "mean", "quantile", "window", "equivalent", "sample", "reset", "min", "max", "sum", "std", "tolist", "flatten",
    "squeeze", "clip", "all", "any", "filled", "startswith", "endswith", "join", "at", "set", "add", "to_generation",
    "to_window", "to_graph", "push", "apply_delay", "get_alpha", "from_outputs", "create", "index", "count", "nodes",
    "sample_pure", "transpose", "block_until_ready", "var", "prod", "argmax", "argmin",
}
TRANSPARENT_CASTS = {
    "float", "round", "jax.numpy.array", "jax.numpy.asarray", "numpy.array", "numpy.asarray", "jax.numpy.int32",
    "numpy.int32", "jax.numpy.float32", "numpy.float32", "jax.numpy.float64", "numpy.float64", "numpy.int64",
}


@dataclass
class Event:
    idx: int
    kind: str  # call | store_attr | store_sub | assert | return | raise | delete
    name: str  # dotted callee ("self.q_tick.popleft"), or the store target ("self._tick")
    term: Optional[Term]  # call term / stored value / asserted condition / returned value
    args: Tuple[Term, ...] = ()
    kwargs: Tuple[Tuple[str, Term], ...] = ()
    recv: Optional[Term] = None  # receiver of a method call / base of a store
    key: Optional[Term] = None  # subscript key for store_sub
    guard: Term = T.TRUE
    loops: Tuple[int, ...] = ()
    node: Any = None
    func: str = ""
    depth: int = 0  # inlining depth at which the event occurred
    ctx: Tuple[str, ...] = ()  # enclosing with-contexts (e.g. 'self._lock')

    @property
    def lineno(self) -> int:
        return getattr(self.node, "lineno", 0)


@dataclass
class LoopInfo:
    uid: int
    kind: str  # for | while | comp | scan
    iter: Optional[Term]
    target: Optional[str]
    env_in: Dict[str, Term]
    env_out: Dict[str, Term]
    cond: Optional[Term] = None
    node: Any = None
    guard: Term = T.TRUE
    live_out: Term = T.TRUE  # condition under which an iteration runs to its end (no break/continue/return taken)
    pre: Dict[str, Term] = field(default_factory=dict)  # values of the loop-carried names before the loop


@dataclass
class Closure:
    uid: int
    kind: str  # lambda | def | partial | wrap
    node: Any = None
    frame: Any = None
    bound_args: Tuple[Term, ...] = ()
    bound_kwargs: Tuple[Tuple[str, Term], ...] = ()
    inner: Optional[Term] = None  # for partial/wrap: the wrapped callable term
    qualname: str = ""
    wrap: str = ""  # vmap | jit | no-op wrappers


class Frame:
    def __init__(self, func_qual: str, module: str, cls: Optional[ClassInfo], env: Dict[str, Term], parent=None):
        self.func = func_qual
        self.module = module
        self.cls = cls
        self.env = env
        self.parent = parent  # lexically enclosing Frame (closures)
        self.returns: List[Tuple[Term, Term]] = []
        self.is_helper = False  # frame of a helper analysed inline: its events belong to the caller
        self.raised: Term = T.FALSE

    def lookup(self, name: str) -> Optional[Term]:
        f = self
        while f is not None:
            if name in f.env:
                return f.env[name]
            f = f.parent
        return None


_KNOWN_API = None


def _known_api():
    global _KNOWN_API
    if _KNOWN_API is None:
        import json
        import os
        p = os.path.join(os.path.dirname(os.path.abspath(__file__)), "known_api.json")
        try:
            _KNOWN_API = frozenset(json.load(open(p))["functions"])
        except OSError:
            _KNOWN_API = frozenset()
    return _KNOWN_API


class Unsupported(Exception):
    pass


class SymEval:
    def __init__(self, model: Model, inline: Sequence[str] = (), max_depth: int = 3,
                 inline_properties: bool = True, overrides: Optional[Dict[str, Callable]] = None,
                 self_types: Optional[Dict[str, str]] = None):
        self.model = model
        self.inline = set(inline)  # method / function simple names or qualnames to inline
        self.loop_breaks: Dict[int, List] = {}  # loop uid -> [(guard, ast node)] of `break` statements (early exits)
        self.loop_continues: Dict[int, List] = {}  # loop uid -> [(guard, environment)] at `continue` statements
        self.helper_stack: List[str] = []  # helpers (functions not in the frozen API table) being analysed inline
        self.max_depth = max_depth
        self.inline_properties = inline_properties
        self.overrides = overrides or {}
        self.events: List[Event] = []
        self.loops: Dict[int, LoopInfo] = {}
        self.closures: Dict[int, Closure] = {}
        self.notes: List[str] = []  # unsupported constructs met
        self._uid = 0
        self.live: Term = T.TRUE
        self.loop_stack: Tuple[int, ...] = ()
        self.ctx_stack: Tuple[str, ...] = ()
        self.depth = 0
        self.heap: Dict[Tuple[Term, str], Term] = {}
        self.types: Dict[Term, str] = {}  # term -> class qualname (light typing for property/method resolution)
        for k, v in (self_types or {}).items():
            self.types[T.sym(k)] = v

    # ------------------------------------------------------------------ utils
    def uid(self) -> int:
        self._uid += 1
        return self._uid

    def unk(self, what: str, node=None) -> Term:
        self.notes.append(f"{what} at line {getattr(node, 'lineno', '?')}")
        return ("unk", what, self.uid())

    def emit(self, kind, name, term, node, frame, **kw) -> Event:
        if kind in ("store_sub", "store_attr") and term is not None and self.live not in (T.TRUE, T.FALSE) and term[0] != "closure" \
                and any(x[0] == "ite" for x in T.walk(term)):
            term = T.assume(term, self.live, True)  # what is stored on a path, simplified by what is known on that path
        ev = Event(len(self.events), kind, name, term, guard=self.live, loops=self.loop_stack, node=node,
                   func=frame.func if frame else "", depth=self.depth, ctx=self.ctx_stack, **kw)
        self.events.append(ev)
        return ev

    # ------------------------------------------------------------------ entry points
    def run_function(self, fi: FuncInfo, args: Optional[Dict[str, Term]] = None, self_term: Optional[Term] = None,
                     parent_frame: Optional[Frame] = None, as_class: Optional[str] = None) -> "Result":
        # as_class: the concrete class the method is analysed for (an inherited method reads that class's constants)
        cls = self.model.classes.get(as_class or fi.cls) if (as_class or fi.cls) else None
        env: Dict[str, Term] = {}
        a = fi.node.args
        params = [p.arg for p in a.posonlyargs + a.args]
        for i, p in enumerate(params):
            if i == 0 and cls is not None and fi.parent is None and p in ("self", "cls"):
                env[p] = self_term or T.sym(p)
                if p == "self":
                    self.types.setdefault(env[p], cls.qualname)
            else:
                env[p] = T.sym(p)
        if a.vararg:
            env[a.vararg.arg] = T.sym("*" + a.vararg.arg)
        for p in a.kwonlyargs:
            env[p.arg] = T.sym(p.arg)
        if a.kwarg:
            env[a.kwarg.arg] = T.sym("**" + a.kwarg.arg)
        # annotations give light types
        for p in a.posonlyargs + a.args + a.kwonlyargs:
            tname = self._annotation_class(p.annotation, fi.module)
            if tname and p.arg in env:
                self.types.setdefault(env[p.arg], tname)
        if args:
            env.update(args)
        frame = Frame(fi.qualname, fi.module, cls, env, parent=parent_frame)
        self.exec_block(fi.node.body, frame)
        return Result(self, frame)

    def run_block(self, stmts: Sequence[ast.stmt], fi: FuncInfo, env: Dict[str, Term]) -> "Result":
        cls = self.model.classes.get(fi.cls) if fi.cls else None
        frame = Frame(fi.qualname, fi.module, cls, dict(env))
        if "self" in env and cls is not None:
            self.types.setdefault(env["self"], cls.qualname)
        self.exec_block(stmts, frame)
        return Result(self, frame)

    def invoke(self, fterm: Term, args: Sequence[Term], frame: Frame, kwargs=(), node=None) -> Term:
        """Call a closure / callable term obtained from a finished evaluation (e.g. the function a factory returns)."""
        self.live = T.TRUE
        self.loop_stack = ()
        return self.call(fterm, list(args), list(kwargs), node, frame)

    def callable_of(self, r: "Result", qualname: str) -> Optional[Term]:
        """The callable for a nested function of the reference tree, wherever it lives today: the closure in the parent's
        environment (possibly renamed), or a reference to the module-level function / method it was moved to."""
        name = self.model.local_name(qualname)
        c = r.env.get(name)
        if c is not None and c[0] == "closure":
            return c
        now = (self.model.moved or {}).get(qualname) if self.model.aliases() is not None else None
        if now and now in self.model.functions:
            fi = self.model.functions[now]
            if fi.cls and _first_param(fi.node) == "self":
                return T.sym("self." + fi.name)
            return T.sym("rex." + now)
        return None

    # ------------------------------------------------------------------ typing helpers
    def _annotation_class(self, ann, module: str) -> Optional[str]:
        if ann is None:
            return None
        if isinstance(ann, ast.Constant) and isinstance(ann.value, str):
            name = ann.value
        else:
            name = _dotted(ann)
        if not name:
            return None
        simple = name.split(".")[-1]
        ci = self.model.find_class(simple)
        return ci.qualname if ci else None

    def type_of(self, t: Term) -> Optional[ClassInfo]:
        q = self.types.get(t)
        if q is None and t[0] == "obj":
            ci = self.model.find_class(t[1])
            return ci
        return self.model.classes.get(q) if q else None

    # ------------------------------------------------------------------ statements
    def exec_block(self, stmts: Sequence[ast.stmt], frame: Frame):
        skip = False
        for i, st in enumerate(stmts):
            if skip:
                skip = False
                continue
            if self.live == T.FALSE:
                break
            if isinstance(st, ast.For) and i + 1 < len(stmts):
                q = _search_loop(st, stmts[i + 1])
                if q is not None:
                    # for x in xs: if c(x): return True      is   return any(c(x) for x in xs)   (and the dual with all)
                    # return False
                    self.exec_stmt(q, frame)
                    skip = True
                    continue
            self.exec_stmt(st, frame)

    def exec_stmt(self, st: ast.stmt, frame: Frame):
        m = getattr(self, "st_" + type(st).__name__, None)
        if m is None:
            self.unk(f"statement {type(st).__name__}", st)
            return
        m(st, frame)

    def st_Expr(self, st, frame):
        if isinstance(st.value, ast.Constant):
            return
        self.eval(st.value, frame)

    def st_Pass(self, st, frame):
        pass

    def st_Import(self, st, frame):
        for a in st.names:
            frame.env[a.asname or a.name.split(".")[0]] = T.sym(a.name if a.asname else a.name.split(".")[0])

    def st_ImportFrom(self, st, frame):
        for a in st.names:
            frame.env[a.asname or a.name] = T.sym(f"{st.module}.{a.name}")

    def st_Global(self, st, frame):
        pass

    def st_Nonlocal(self, st, frame):
        pass

    def st_Assign(self, st, frame):
        v = self.eval(st.value, frame)
        for tgt in st.targets:
            self.assign(tgt, v, frame, st)

    def st_AnnAssign(self, st, frame):
        if st.value is None:
            return
        v = self.eval(st.value, frame)
        self.assign(st.target, v, frame, st)

    def st_AugAssign(self, st, frame):
        cur = self.eval(_as_load(st.target), frame)
        rhs = self.eval(st.value, frame)
        v = self.binop(st.op, cur, rhs, st)
        self.assign(st.target, v, frame, st)

    def st_Delete(self, st, frame):
        for tgt in st.targets:
            self.emit("delete", _dotted(tgt) or "?", None, st, frame)

    def assign(self, tgt, v: Term, frame: Frame, st):
        # a value computed on a path is simplified by what is known on that path (e.g. `x if r is not None else None`
        # under `if r is not None:`)
        if self.live not in (T.TRUE, T.FALSE) and v[0] != "closure" and any(x[0] == "ite" for x in T.walk(v)):
            v = T.assume(v, self.live, True)
        if isinstance(tgt, ast.Name):
            frame.env[tgt.id] = v
        elif isinstance(tgt, (ast.Tuple, ast.List)):
            star = [i for i, e in enumerate(tgt.elts) if isinstance(e, ast.Starred)]
            for i, e in enumerate(tgt.elts):
                if isinstance(e, ast.Starred):
                    self.assign(e.value, ("slice", v, T.const(i), None, None), frame, st)
                else:
                    idx = i if not star or i < star[0] else i - len(tgt.elts)
                    self.assign(e, T.mk_index(v, T.const(idx)), frame, st)
        elif isinstance(tgt, ast.Attribute):
            base = self.eval(tgt.value, frame)
            self.heap[(base, tgt.attr)] = v
            name = (T.show(base) + "." + tgt.attr) if base[0] == "sym" else f"<{T.show(base)}>.{tgt.attr}"
            self.emit("store_attr", name, v, st, frame, recv=base)
        elif isinstance(tgt, ast.Subscript):
            base = self.eval(tgt.value, frame)
            key = self.eval_slice(tgt.slice, frame)
            name = T.show(base) if base[0] == "sym" else (_dotted(tgt.value) or T.show(base))
            self.emit("store_sub", name, v, st, frame, recv=base, key=key)
            # keep locally built dict literals up to date
            if isinstance(tgt.value, ast.Name) and base[0] == "dict":
                items = [(k, x) for k, x in base[1] if k != key] + [(key, v)]
                frame.env[tgt.value.id] = ("dict", tuple(items))
            else:
                # a table built by a comprehension and written to afterwards is no longer what the comprehension says: later reads of it are
                # reads of the updated table, not of the comprehension's entries
                root, depth_ = tgt.value, 1
                while isinstance(root, ast.Subscript):
                    root, depth_ = root.value, depth_ + 1
                if isinstance(root, ast.Name) and depth_ >= 2:  # (an entry of an entry: table[a][b] = v)
                    old = frame.lookup(root.id)
                    if old is not None and old[0] == "comp" and old[1] == "dict":
                        f_ = frame
                        while f_ is not None and root.id not in f_.env:
                            f_ = f_.parent
                        (f_ or frame).env[root.id] = T.mk_call("updated", [old])
        elif isinstance(tgt, ast.Starred):
            self.assign(tgt.value, v, frame, st)
        else:
            self.unk(f"assignment target {type(tgt).__name__}", st)

    def st_Return(self, st, frame):
        v = self.eval(st.value, frame) if st.value is not None else T.NONE
        frame.returns.append((self.live, v))
        if not frame.is_helper:
            self.emit("return", frame.func, v, st, frame)
        self.live = T.FALSE

    def st_Raise(self, st, frame):
        v = self.eval(st.exc, frame) if st.exc is not None else T.NONE
        self.emit("raise", frame.func, v, st, frame)
        if frame.is_helper:
            frame.raised = T.mk_or([frame.raised, self.live])
        self.live = T.FALSE

    def st_Assert(self, st, frame):
        c = self.eval(st.test, frame)
        self.emit("assert", frame.func, c, st, frame)

    def st_Break(self, st, frame):
        if self.loop_stack:
            self.loop_breaks.setdefault(self.loop_stack[-1], []).append((self.live, st))
        self.live = T.FALSE

    def st_Continue(self, st, frame):
        # the iteration ends here with the values bound so far: what the rest of the body assigns does not apply on this path
        if self.loop_stack and self.live != T.FALSE:
            self.loop_continues.setdefault(self.loop_stack[-1], []).append((self.live, dict(frame.env)))
        self.live = T.FALSE

    def st_FunctionDef(self, st, frame):
        u = self.uid()
        q = f"{frame.func}.{st.name}"
        self.closures[u] = Closure(u, "def", st, frame, qualname=q)
        frame.env[st.name] = ("closure", u)

    def st_ClassDef(self, st, frame):
        frame.env[st.name] = T.sym(f"{frame.func}.{st.name}")

    def _branch(self, cond: Term, body_fn, else_fn, frame: Frame):
        """Evaluate two alternatives and merge env/heap with ite(cond, ., .)."""
        live0, env0, heap0 = self.live, frame.env, dict(self.heap)
        # then
        frame.env = dict(env0)
        self.heap = dict(heap0)
        self.live = T.mk_and([live0, cond])
        if self.live != T.FALSE:
            body_fn()
        env1, heap1, live1 = frame.env, self.heap, self.live
        # else
        frame.env = dict(env0)
        self.heap = dict(heap0)
        self.live = T.mk_and([live0, T.mk_not(cond)])
        if self.live != T.FALSE:
            else_fn()
        env2, heap2, live2 = frame.env, self.heap, self.live
        # merge
        t_dead = live1 == T.FALSE
        e_dead = live2 == T.FALSE
        if t_dead and e_dead:
            frame.env, self.heap, self.live = env2, heap2, T.FALSE
            return
        if t_dead:
            frame.env, self.heap, self.live = env2, heap2, live2
            return
        if e_dead:
            frame.env, self.heap, self.live = env1, heap1, live1
            return
        merged = {}
        for k in set(env1) | set(env2):
            a = env1.get(k)
            b = env2.get(k)
            if a is None or b is None:
                merged[k] = a if b is None else b  # defined on one side only
            else:
                merged[k] = a if a == b else (_acc_join(a, b) or T.mk_ite(cond, a, b))
        mheap = {}
        for k in set(heap1) | set(heap2):
            a = heap1.get(k)
            b = heap2.get(k)
            if a is None:
                a = T.mk_attr(k[0], k[1])
            if b is None:
                b = T.mk_attr(k[0], k[1])
            mheap[k] = a if a == b else T.mk_ite(cond, a, b)
        frame.env, self.heap = merged, mheap
        both_full = live1 == T.mk_and([live0, cond]) and live2 == T.mk_and([live0, T.mk_not(cond)])
        self.live = live0 if both_full else T.mk_or([live1, live2])

    def st_If(self, st, frame):
        c = self.as_bool(self.eval(st.test, frame))
        self._branch(c, lambda: self.exec_block(st.body, frame), lambda: self.exec_block(st.orelse, frame), frame)

    def _assigned_names(self, stmts) -> Tuple[Set[str], Set[Tuple[str, str]]]:
        names: Set[str] = set()
        attrs: Set[Tuple[str, str]] = set()
        for st in stmts:
            for n in ast.walk(st):
                if isinstance(n, (ast.FunctionDef, ast.Lambda)):
                    continue
                if isinstance(n, ast.Name) and isinstance(n.ctx, ast.Store):
                    names.add(n.id)
                elif isinstance(n, ast.Attribute) and isinstance(n.ctx, ast.Store):
                    d = _dotted(n.value)
                    if d:
                        attrs.add((d, n.attr))
                elif isinstance(n, ast.AugAssign):
                    if isinstance(n.target, ast.Name):
                        names.add(n.target.id)
                    elif isinstance(n.target, ast.Attribute):
                        d = _dotted(n.target.value)
                        if d:
                            attrs.add((d, n.target.attr))
        return names, attrs

    def _loop(self, kind, st, frame, iter_term, target, cond_ast=None, proj=None):
        names, attrs = self._assigned_names(st.body)
        tnames = set()
        if target is not None:
            for n in ast.walk(target):
                if isinstance(n, ast.Name):
                    tnames.add(n.id)
        # a local list / set that the body both grows and reads (xs.append(f(xs[-1]))): what a read sees depends on the iteration, so it
        # is carried like a rebound name (and not summarised as the comprehension of what is appended)
        forced = sorted(n for n in _grown_and_read(st.body) - tnames if n in frame.env and frame.env[n][0] in ("list", "accum", "comp", "call"))
        carried = sorted(set(n for n in names - tnames if n in frame.env) | set(forced))
        names = set(names) | set(forced)
        carried_attrs = sorted(attrs)
        # pass 1 (discarded): find which syntactically assigned names/attributes really change on a live path
        # (assignments under constant-false conditions do not make a name loop-carried)
        snap = (len(self.events), dict(frame.env), dict(self.heap), self.live, dict(self.loops), dict(self.closures))
        lid = self.uid()
        info = self._loop_pass(lid, kind, st, frame, iter_term, target, cond_ast, carried, carried_attrs, proj)
        really = [n for n in carried if info.env_out.get(n) != info.env_in.get(n) or n in forced]
        really_attrs = [(d, a) for d, a in carried_attrs if self.heap.get((T.sym(d), a)) != T.sym(f"loop{lid}:{d}.{a}")]
        if really != carried or really_attrs != carried_attrs:
            del self.events[snap[0]:]
            frame.env, self.heap, self.live = dict(snap[1]), dict(snap[2]), snap[3]
            self.loops, self.closures = dict(snap[4]), dict(snap[5])
            lid = self.uid()
            info = self._loop_pass(lid, kind, st, frame, iter_term, target, cond_ast, really, really_attrs, proj)
        self.loops[lid] = info
        # after the loop: carried names are unknown
        for n in (names if really == carried else set(really) | (names - set(carried))):
            if n in really or n not in snap[1]:
                frame.env[n] = T.sym(f"loopout{lid}:{n}")
        for d, a in really_attrs:
            self.heap[(T.sym(d), a)] = T.sym(f"loopout{lid}:{d}.{a}")
        if kind == "for" and target is not None:
            self._loop_to_comprehension(lid, st, frame, iter_term, target, snap[0], snap[1], snap[3])
            self._loop_to_max(lid, st, frame, iter_term, target, info, snap[1], snap[3])
        if st.orelse:
            self.exec_block(st.orelse, frame)
        return lid

    def _loop_to_max(self, lid, st, frame, iter_term, target, info, env0, live0):
        """m = m0; for x in xs: if v(x) > m: m = v(x)   (or m = max(m, v(x)), possibly under a filter)   is   m = max([m0] + [v(x) for x in xs if ...])."""
        if lid in self.loop_breaks or any(isinstance(n, (ast.Break, ast.Return)) for n in ast.walk(st)):
            return
        tname = _dotted(target) or ast.unparse(target)
        for n, sym_in in info.env_in.items():
            out = info.env_out.get(n)
            pre = env0.get(n)
            if out is None or pre is None or frame.env.get(n) != T.sym(f"loopout{lid}:{n}"):
                continue
            conds = ()
            body = out
            if body[0] == "ite" and body[3] == sym_in:
                conds, body = (body[1],), body[2]
            elif body[0] == "ite" and body[2] == sym_in:
                conds, body = (T.mk_not(body[1]),), body[3]
            if body[0] != "max" or sym_in not in body[1] or len(body[1]) != 2:
                continue
            v = [x for x in body[1] if x != sym_in][0]
            if any(x == sym_in for x in T.walk(v)) or any(x == sym_in for c in conds for x in T.walk(c)):
                continue
            cs = tuple(c if live0 == T.TRUE else T.assume(c, live0, True) for c in conds)
            comp = ("comp", "list", v, ((tname, iter_term),), tuple(c for c in cs if c != T.TRUE))
            frame.env[n] = T.mk_call("max", [T.mk_call("+", [("list", (pre,)), comp])])

    def _loop_to_comprehension(self, lid, st, frame, iter_term, target, ev0, env0, live0):
        """A local list / dict that a `for` loop fills with exactly one (possibly guarded) append / item store per iteration is
        the comprehension `[elt for target in iter if cond]` / `{k: v for ...}`: give it that normal form, so that rules see the
        same term whichever way the code is written."""
        for n in ast.walk(st):
            if isinstance(n, (ast.Break, ast.Return)) or (isinstance(n, (ast.For, ast.While)) and n is not st):
                return
        tname = _dotted(target) or ast.unparse(target)
        stack = self.loop_stack + (lid,)

        def conds_of(g):
            c = g if live0 == T.TRUE else T.assume(g, live0, True)
            return () if c == T.TRUE else (c,)

        for n, v in list(frame.env.items()):
            pre = env0.get(n)
            if pre is None or pre == v:
                continue
            is_set = pre == ("call", "set", (), (), None)
            if v[0] == "accum" and (pre[0] in ("list", "accum") or is_set):
                pre_items = pre[2] if pre[0] == "accum" else ()
                base = pre[1] if pre[0] == "accum" else pre
                if v[1] != base or v[2][:len(pre_items)] != pre_items or len(v[2]) != len(pre_items) + 1:
                    continue
                _, g, elt, loops, how = v[2][-1]
                if how != ("add" if is_set else "append") or loops != stack:
                    continue
                if is_set:
                    frame.env[n] = ("comp", "set", elt, ((tname, iter_term),), conds_of(g))  # s = set(); for ...: s.add(v)  is  {v for ...}
                    continue
                comp = ("comp", "list", elt, ((tname, iter_term),), conds_of(g))
                frame.env[n] = comp if (pre[0] == "list" and not pre[1]) else T.mk_call("+", [pre, comp])
            elif v[0] == "dict" and pre == ("dict", ()) and len(v[1]) == 1:
                sts = [e for e in self.events[ev0:] if e.kind == "store_sub" and e.name == n]
                if len(sts) != 1 or sts[0].loops != stack or (sts[0].key, sts[0].term) != v[1][0]:
                    continue
                frame.env[n] = ("comp", "dict", ("tuple", v[1][0]), ((tname, iter_term),), conds_of(sts[0].guard))

    def _loop_pass(self, lid, kind, st, frame, iter_term, target, cond_ast, carried, carried_attrs, proj=None) -> LoopInfo:
        pre_env = dict(frame.env)
        env_in = {}
        for n in carried:
            env_in[n] = T.sym(f"loop{lid}:{n}")
            frame.env[n] = env_in[n]
        for d, a in carried_attrs:
            self.heap[(T.sym(d), a)] = T.sym(f"loop{lid}:{d}.{a}")
        live0 = self.live
        if target is not None:
            el = ("elem", iter_term, lid)
            if isinstance(proj, tuple):
                _, tmpl, inner_elem, inner_conds = proj
                m = {inner_elem: el} if inner_elem is not None else {}
                if inner_elem is not None and inner_elem[0] == "elem" and inner_elem[2] in self.loops and self.loops[inner_elem[2]].kind == "for" and inner_elem[2] not in self.loop_stack:
                    # a second pass over what an earlier (finished) loop over the same source collected: its items keep naming that
                    # loop's element (the same slot, in the same order), so what the two passes do to one item can be compared
                    m = {}
                self.assign(target, T.subst(tmpl, m), frame, st)
                self.live = T.mk_and([live0] + [T.subst(c, m) for c in inner_conds])
            else:
                self.assign(target, el if proj is None else T.mk_index(el, T.const(proj)), frame, st)
        body_live = self.live
        self.loop_stack = self.loop_stack + (lid,)
        cond_t = None
        if cond_ast is not None:
            cond_t = self.as_bool(self.eval(cond_ast, frame))
            self.live = T.mk_and([body_live, cond_t])
        self.exec_block(st.body, frame)
        env_out = dict(frame.env)
        for g, env_c in reversed(self.loop_continues.pop(lid, [])):
            gc = g if body_live == T.TRUE else T.assume(g, body_live, True)
            for n in set(env_out) | set(env_c):
                a, b = env_c.get(n), env_out.get(n)
                if a is not None and b is not None and a != b and a[0] != "closure" and b[0] != "closure":
                    if b[0] == "accum" and (a == b[1] or (a[0] == "accum" and a[1] == b[1] and b[2][:len(a[2])] == a[2])):
                        continue  # the list as it was at the `continue`, extended afterwards: each later item carries its own condition
                    env_out[n] = T.mk_ite(gc, a, b)
        frame.env.update({n: v for n, v in env_out.items() if n in frame.env})
        live_out = self.live
        self.loop_stack = self.loop_stack[:-1]
        self.live = live0
        return LoopInfo(lid, kind, iter_term, _dotted(target) if target is not None else None, env_in, env_out, cond_t, st,
                        live0, live_out, {n: pre_env[n] for n in env_in if n in pre_env})

    def _flag_loop(self, st, frame) -> bool:
        """flag = True; for x in it: if c(x): flag = False [; break]   is   flag = all(not c(x) for x in it)   (and the dual with any)."""
        if len(st.body) != 1 or not isinstance(st.body[0], ast.If) or st.body[0].orelse:
            return False
        body = st.body[0].body
        if not (1 <= len(body) <= 2) or (len(body) == 2 and not isinstance(body[1], ast.Break)):
            return False
        a = body[0]
        if not (isinstance(a, ast.Assign) and len(a.targets) == 1 and isinstance(a.targets[0], ast.Name) and isinstance(a.value, ast.Constant)
                and isinstance(a.value.value, bool)):
            return False
        if st.orelse:
            # for ...: if c: flag = False; break      the else clause runs when the loop was not left by the break: same function of c
            # else: flag = True
            o = st.orelse
            if not (len(o) == 1 and len(body) == 2 and isinstance(o[0], ast.Assign) and len(o[0].targets) == 1 and isinstance(o[0].targets[0], ast.Name)
                    and o[0].targets[0].id == a.targets[0].id and isinstance(o[0].value, ast.Constant) and o[0].value.value is (not a.value.value)):
                return False
        else:
            pre = frame.lookup(a.targets[0].id)
            if pre != (T.FALSE if a.value.value else T.TRUE):
                return False
        test = st.body[0].test
        if any(isinstance(n, (ast.Call, ast.NamedExpr, ast.Await)) and not (isinstance(n, ast.Call) and isinstance(n.func, ast.Name) and n.func.id in ("len", "isinstance", "bool"))
               for n in ast.walk(test)):
            return False  # the test must be free of effects for the early exit not to matter
        elt = test if a.value.value else ast.UnaryOp(op=ast.Not(), operand=test)
        comp = ast.ListComp(elt=elt, generators=[ast.comprehension(target=st.target, iter=st.iter, ifs=[], is_async=0)])
        call = ast.Call(func=ast.Name(id="any" if a.value.value else "all", ctx=ast.Load()), args=[comp], keywords=[])
        ast.copy_location(call, st)
        ast.fix_missing_locations(call)
        self.assign(a.targets[0], self.eval(call, frame), frame, st)
        return True

    def st_For(self, st, frame):
        if self._flag_loop(st, frame):
            return
        zl = _index_loop_as_zip(st, frame, self)
        if zl is not None:
            self.st_For(zl, frame)
            return
        en = _manual_counter_as_enumerate(st, frame)
        if en is not None:
            f_, after = en
            self.st_For(f_, frame)
            self.exec_stmt(after, frame)
            return
        it = self.eval(st.iter, frame)
        if it[0] in ("tuple", "list") and len(it[1]) <= 16 and not any(x[0] == "star" for x in it[1]) and not st.orelse \
                and not any(isinstance(n, ast.Break) for n in ast.walk(st)):
            # a loop over a short literal sequence is its unrolling (a table walked in order); guard clauses ending in `continue` are read as
            # the if/else they abbreviate
            body_ = _without_continue(st.body)
            if body_ is not None:
                for x in it[1]:
                    self.assign(st.target, x, frame, st)
                    self.exec_block(body_, frame)
                return
        if it[0] == "call" and T.call_name(it) == "itertools.count" and len(it[2]) <= 1 and not it[3] and isinstance(st.target, ast.Name) and not st.orelse \
                and isinstance(st.iter, ast.Call) and not any(isinstance(n, ast.Continue) for n in ast.walk(st)):
            # for i in itertools.count(a): body (left by break)   is   i = a; while True: body; i += 1
            init = ast.Assign(targets=[ast.Name(id=st.target.id, ctx=ast.Store())], value=st.iter.args[0] if st.iter.args else ast.Constant(value=0))
            inc = ast.AugAssign(target=ast.Name(id=st.target.id, ctx=ast.Store()), op=ast.Add(), value=ast.Constant(value=1))
            wl = ast.While(test=ast.Constant(value=True), body=list(st.body) + [inc], orelse=[])
            for n_ in (init, inc, wl):
                ast.copy_location(n_, st)
                ast.fix_missing_locations(n_)
            self.exec_stmt(init, frame)
            self.exec_stmt(wl, frame)
            return
        fuse = _fuse_source(it)
        if fuse is not None:
            self._loop("for", st, frame, fuse[0], st.target, proj=("fuse",) + fuse[1:])
            return
        if it[0] == "call" and it[1] in ("&", "-") and len(it[2]) == 2 and _is_keys_view(it[2][0]):
            # for k in a.keys() & b.keys() / a.keys() - b: the loop over a's keys under `k in b` / `k not in b`
            ph = T.sym("__filter_elem__")
            other = it[2][1]
            other = (T.sym(other[1][:-len(".keys")]) if isinstance(other[1], str) else other[1][1]) if _is_keys_view(other) else other
            cond = ("in", ph, other) if it[1] == "&" else T.mk_not(("in", ph, other))
            src, proj = canon_iter(it[2][0])
            self._loop("for", st, frame, src, st.target, proj=("fuse", ph if proj is None else T.mk_index(ph, T.const(proj)), ph, (T.subst(cond, {ph: ph if proj is None else T.mk_index(ph, T.const(proj))}),)))
            return
        if it[0] == "call" and T.call_name(it) in ("filter", "itertools.filterfalse") and len(it[2]) == 2 and not it[3] and it[2][0] != T.NONE:
            # for x in filter(p, xs) / itertools.filterfalse(p, xs): the loop over xs whose body runs under p(x) / not p(x)
            ph = T.sym("__filter_elem__")
            pred = self.as_bool(self.call(it[2][0], [ph], [], st.iter, frame))
            cond = pred if T.call_name(it) == "filter" else T.mk_not(pred)
            src, proj = canon_iter(it[2][1])
            tmpl = ph if proj is None else T.mk_index(ph, T.const(proj))
            self._loop("for", st, frame, src, st.target, proj=("fuse", tmpl, ph, (cond,)))
            return
        it, proj = canon_iter(it)
        self._loop("for", st, frame, it, st.target, proj=proj)

    def st_While(self, st, frame):
        cd = _countdown_while_as_for(st)
        if cd is not None:
            for s_ in cd:
                self.exec_stmt(s_, frame)
            return
        f = _counter_while_as_for(st, frame)
        if f is not None:
            # i = a; while i < n: body; i += 1   is   for i in range(a, n): body
            self.exec_stmt(f, frame)
            return
        self._loop("while", st, frame, None, None, cond_ast=st.test)

    def st_With(self, st, frame):
        saved = self.ctx_stack
        for item in st.items:
            v = self.eval(item.context_expr, frame)
            self.ctx_stack = self.ctx_stack + (T.show(v)[:80],)
            if item.optional_vars is not None:
                self.assign(item.optional_vars, v, frame, st)
        self.exec_block(st.body, frame)
        self.ctx_stack = saved

    def st_Try(self, st, frame):
        tid = self.uid()
        live0 = self.live
        names, attrs = self._assigned_names(st.body)
        env0 = dict(frame.env)
        heap0 = dict(self.heap)
        nret0 = len(frame.returns)
        self.exec_block(st.body, frame)
        nret1 = len(frame.returns)
        if st.orelse:
            self.exec_block(st.orelse, frame)
        env_body, heap_body, live_body = frame.env, self.heap, self.live
        outs = [(T.TRUE, env_body, heap_body, live_body)]
        if st.handlers and nret1 > nret0:
            # a `return` inside the try body is reached only if no handled exception occurred there: its value must not shadow
            # what a handler returns (try: return f(x) / except E: return g(x))
            hn = []
            for h in st.handlers:
                hname = _dotted(h.type) if h.type is not None else "BaseException"
                if h.type is not None and isinstance(h.type, ast.Tuple):
                    hname = "|".join(_dotted(e) or "?" for e in h.type.elts)
                hn.append(T.mk_not(T.sym(f"exc{tid}:{hname}")))
            for i in range(nret0, nret1):
                g, v = frame.returns[i]
                frame.returns[i] = (T.mk_and([g] + hn), v)
        for h in st.handlers:
            hname = _dotted(h.type) if h.type is not None else "BaseException"
            if h.type is not None and isinstance(h.type, ast.Tuple):
                hname = "|".join(_dotted(e) or "?" for e in h.type.elts)
            exc = T.sym(f"exc{tid}:{hname}")
            frame.env = dict(env0)
            for n in names:
                frame.env[n] = T.sym(f"try{tid}:{n}")
            self.heap = dict(heap0)
            for d, a in attrs:
                self.heap[(T.sym(d), a)] = T.sym(f"try{tid}:{d}.{a}")
            if h.name:
                frame.env[h.name] = exc
            self.live = T.mk_and([live0, exc])
            self.exec_block(h.body, frame)
            outs.append((exc, frame.env, self.heap, self.live))
        # merge: body result unless an exception symbol holds
        env, heap, live = env_body, heap_body, live_body
        for exc, e2, h2, l2 in outs[1:]:
            if l2 == T.FALSE:
                continue
            if live == T.FALSE:
                env, heap, live = e2, h2, l2
                continue
            merged = {}
            for k in set(env) | set(e2):
                a, b = env.get(k), e2.get(k)
                merged[k] = (a if b is None else b) if (a is None or b is None) else (a if a == b else T.mk_ite(exc, b, a))
            mh = {}
            for k in set(heap) | set(h2):
                a = heap.get(k, T.mk_attr(k[0], k[1]))
                b = h2.get(k, T.mk_attr(k[0], k[1]))
                mh[k] = a if a == b else T.mk_ite(exc, b, a)
            env, heap, live = merged, mh, T.mk_or([live, l2])
        frame.env, self.heap, self.live = env, heap, live
        if live_body != T.FALSE and all(l2 == T.FALSE for _, _, _, l2 in outs[1:]):
            self.live = live_body
        if st.finalbody:
            self.exec_block(st.finalbody, frame)

    # ------------------------------------------------------------------ expressions
    def eval(self, e, frame: Frame) -> Term:
        if e is None:
            return T.NONE
        m = getattr(self, "ex_" + type(e).__name__, None)
        if m is None:
            return self.unk(f"expression {type(e).__name__}", e)
        return m(e, frame)

    def ex_Constant(self, e, frame):
        v = e.value
        if isinstance(v, complex) or isinstance(v, bytes):
            return ("const", repr(v))
        return T.const(v)

    def ex_JoinedStr(self, e, frame):
        # structured only for call-free f-strings (keys such as f"Dense_{i}"); messages with calls stay opaque
        parts = []
        for v in e.values:
            if isinstance(v, ast.Constant):
                parts.append(T.const(v.value))
            elif isinstance(v, ast.FormattedValue) and v.format_spec is None and v.conversion == -1 and \
                    not any(isinstance(n, (ast.Call, ast.Await, ast.NamedExpr, ast.Lambda, ast.JoinedStr)) for n in ast.walk(v.value)):
                parts.append(self.eval(v.value, frame))
            else:
                return ("const", "<fstr>")
        return T.mk_call("fstr", parts)

    def ex_Name(self, e, frame):
        v = frame.lookup(e.id)
        if v is not None:
            return v
        return self.global_name(e.id, frame)

    def global_name(self, name: str, frame: Frame) -> Term:
        mi = self.model.modules.get(frame.module)
        if mi is not None:
            if name in mi.imports:
                return T.sym(_canon_import(mi.imports[name]))
            q = f"{frame.module}.{name}"
            if q in self.model.functions or q in self.model.classes:
                return T.sym("rex." + q)
            # module-level simple constants
            for st in mi.tree.body:
                if isinstance(st, ast.Assign) and len(st.targets) == 1 and isinstance(st.targets[0], ast.Name) \
                        and st.targets[0].id == name:
                    if isinstance(st.value, ast.Constant):
                        return T.const(st.value.value)
                    if isinstance(st.value, (ast.BinOp, ast.UnaryOp)) and all(isinstance(n, (ast.BinOp, ast.UnaryOp, ast.Constant, ast.operator, ast.unaryop))
                                                                             for n in ast.walk(st.value)) and _never_mutated(mi.tree, name):
                        # a module-level constant spelled as arithmetic on literals (2**31 - 1): the same term as the expression in place
                        return self.eval(st.value, Frame(f"{frame.module}.<module>", frame.module, None, {}))
                    def simple(v):
                        # (a module-level lambda closes over module names only: it is the function it spells out)
                        return isinstance(v, (ast.Name, ast.Attribute, ast.Constant, ast.Lambda)) or (
                            isinstance(v, ast.UnaryOp) and isinstance(v.op, ast.USub) and isinstance(v.operand, ast.Constant)) or (
                            isinstance(v, (ast.Tuple, ast.List)) and len(v.elts) <= 8 and all(simple(x) for x in v.elts))
                    if isinstance(st.value, ast.Call) and (_dotted(st.value.func) or "").endswith("partial") and st.value.args and all(simple(a_) for a_ in st.value.args) \
                            and all(k.arg and simple(k.value) for k in st.value.keywords) and _never_mutated(mi.tree, name):
                        # a module-level functools.partial(f, ...) object: the function it abbreviates
                        return self.eval(st.value, Frame(f"{frame.module}.<module>", frame.module, None, {}))
                    if isinstance(st.value, ast.Dict) and st.value.keys and all(isinstance(k, ast.Constant) for k in st.value.keys) \
                            and all(simple(v) for v in st.value.values) and _never_mutated(mi.tree, name):
                        # a module-level table of named functions / constants (never written again): known contents
                        mf = Frame(f"{frame.module}.<module>", frame.module, None, {})
                        return ("dict", tuple((T.const(k.value), self.eval(v, mf)) for k, v in zip(st.value.keys, st.value.values)))
                    if isinstance(st.value, ast.Call) and isinstance(st.value.func, ast.Name) and st.value.func.id == "dict" and not st.value.args and st.value.keywords \
                            and all(k.arg and simple(k.value) for k in st.value.keywords) and _never_mutated(mi.tree, name):
                        mf = Frame(f"{frame.module}.<module>", frame.module, None, {})
                        return ("dict", tuple((T.const(k.arg), self.eval(k.value, mf)) for k in st.value.keywords))
                    if isinstance(st.value, (ast.Tuple, ast.List)) and st.value.elts and len(st.value.elts) <= 16 and all(simple(v) for v in st.value.elts) \
                            and _never_mutated(mi.tree, name):
                        # ... likewise a module-level tuple / list of names or constants (a set of states, a list of field names)
                        mf = Frame(f"{frame.module}.<module>", frame.module, None, {})
                        return ("tuple" if isinstance(st.value, ast.Tuple) else "list", tuple(self.eval(v, mf) for v in st.value.elts))
                    return T.sym(f"rex.{frame.module}.{name}")
        return T.sym(name)  # builtin or unknown global

    def _class_constant(self, ci, name: str, frame: Frame) -> Optional[Term]:
        """A class-level tuple / list of constants (e.g. the names of the queues) that no method ever assigns to."""
        for c in self.model.mro(ci):
            for st in c.node.body:
                if isinstance(st, ast.Assign) and len(st.targets) == 1 and isinstance(st.targets[0], ast.Name) and st.targets[0].id == name \
                        and isinstance(st.value, (ast.Tuple, ast.List)) and st.value.elts \
                        and all(isinstance(v, (ast.Constant, ast.Attribute, ast.Name)) for v in st.value.elts):
                    for k in self.model.mro(ci):
                        for n in ast.walk(k.node):
                            if isinstance(n, ast.Attribute) and n.attr == name and isinstance(n.ctx, (ast.Store, ast.Del)):
                                return None
                    mf = Frame(f"{c.module}.<module>", c.module, None, {})
                    return ("tuple" if isinstance(st.value, ast.Tuple) else "list", tuple(self.eval(v, mf) for v in st.value.elts))
        return None

    # attributes another thread may write while this function runs: *when* they are read matters, so each read is an event
    VOLATILE = ("_must_reset",)

    def ex_Attribute(self, e, frame):
        base = self.eval(e.value, frame)
        if e.attr in self.VOLATILE and isinstance(e.ctx, ast.Load):
            self.emit("read", T.show(T.mk_attr(base, e.attr)), T.mk_attr(base, e.attr), e, frame)
        qn = _queue_of_entry(base)
        if qn is not None:
            qc = self.model.queue_entry_classes().get(qn)
            if qc is not None:
                fs = self.model.dataclass_fields(qc)
                if e.attr in fs:
                    return T.mk_index(base, T.const(fs.index(e.attr)))  # entry.<field> of a NamedTuple queue entry is entry[<position>]
        if base in (T.sym("self"), T.sym("cls")) and frame.cls is not None and (base, e.attr) not in self.heap:
            cc = self._class_constant(frame.cls, e.attr, frame)
            if cc is not None:
                return cc
        if (base, e.attr) in self.heap:
            return self.heap[(base, e.attr)]
        # in-repo property on a typed receiver
        if self.inline_properties and self.depth < self.max_depth:
            ci = self.type_of(base)
            if ci is not None:
                pf = self.model.lookup_property(ci, e.attr)
                if pf is not None and _is_simple_property(pf.node):
                    return self.inline_call(pf, [], [], base, e, frame)
        return T.mk_attr(base, e.attr)

    def ex_Tuple(self, e, frame):
        return ("tuple", tuple(self.eval_star(x, frame) for x in e.elts))

    def ex_List(self, e, frame):
        if any(isinstance(x, ast.Starred) for x in e.elts) and len(e.elts) <= 6:
            # [a, *xs, b] is [a] + xs + [b]: one normal form for the two spellings of a concatenation
            parts, cur = [], []
            for x in e.elts:
                if isinstance(x, ast.Starred):
                    if cur:
                        parts.append(("list", tuple(cur)))
                        cur = []
                    parts.append(self.eval(x.value, frame))
                else:
                    cur.append(self.eval(x, frame))
            if cur:
                parts.append(("list", tuple(cur)))
            out = parts[0]
            for p_ in parts[1:]:
                out = self.binop(ast.Add(), out, p_, e)
            return out
        return ("list", tuple(self.eval_star(x, frame) for x in e.elts))

    def ex_Set(self, e, frame):
        return ("list", tuple(self.eval(x, frame) for x in e.elts))

    def ex_Dict(self, e, frame):
        items = []
        for k, v in zip(e.keys, e.values):
            if k is None:
                items.append((("const", "**"), self.eval(v, frame)))
            else:
                items.append((self.eval(k, frame), self.eval(v, frame)))
        return ("dict", tuple(items))

    def eval_star(self, x, frame):
        if isinstance(x, ast.Starred):
            return ("star", self.eval(x.value, frame))
        return self.eval(x, frame)

    def ex_Starred(self, e, frame):
        return ("star", self.eval(e.value, frame))

    def ex_UnaryOp(self, e, frame):
        v = self.eval(e.operand, frame)
        if isinstance(e.op, ast.Not):
            return T.mk_not(self.as_bool(v))
        if isinstance(e.op, ast.USub):
            return T.neg(v)
        if isinstance(e.op, ast.UAdd):
            return v
        if isinstance(e.op, ast.Invert):
            return T.mk_call("~", [v])
        return self.unk("unary op", e)

    def as_bool(self, v: Term) -> Term:
        """Truth value of a container is `len(v) > 0`: `if q:` / `while xs and ...` / `not q` read like the explicit length tests."""
        if v[0] == "call" and v[1] == "bool" and len(v[2]) == 1 and not v[3]:
            return self.as_bool(v[2][0])  # bool(x) used as a condition is x used as a condition
        if _seq_like(v):
            q = _count_quantifier(ast.Gt(), T.mk_call("len", [v]), T.ZERO)
            return q if q is not None else T.lt(T.ZERO, T.mk_call("len", [v]))
        return v

    def binop(self, op, a: Term, b: Term, node) -> Term:
        nonnum = lambda t: t[0] in ("list", "tuple", "dict", "const", "comp") and not (t[0] == "const")
        if isinstance(op, ast.Add):
            if a[0] == "const" and b[0] == "const" and isinstance(a[1], str) and isinstance(b[1], str):
                return T.const(a[1] + b[1])  # "returned_" + "episode_lengths"
            if a[0] in ("list", "tuple") and b[0] == a[0]:
                return (a[0], a[1] + b[1])
            if nonnum(a) or nonnum(b) or (a[0] == "const" and isinstance(a[1], str)) or (
                    b[0] == "const" and isinstance(b[1], str)):
                return T.mk_call("+", [a, b])
            return T.add(a, b)
        if isinstance(op, (ast.Sub, ast.BitAnd, ast.BitOr)) and (_is_keys_view(a) or _is_keys_view(b)):
            # set algebra on dict key views: kept symbolic (not arithmetic)
            return T.mk_call({ast.Sub: "-", ast.BitAnd: "&", ast.BitOr: "|"}[type(op)], [a, b])
        if isinstance(op, ast.Sub):
            if nonnum(a) or nonnum(b):
                return T.mk_call("-", [a, b])
            return T.sub(a, b)
        if isinstance(op, ast.Mult):
            if nonnum(a) or nonnum(b) or (a[0] == "const" and isinstance(a[1], str)):
                return T.mk_call("*", [a, b])
            return T.mul(a, b)
        if isinstance(op, ast.Div):
            if T.const_value(b) == 0:
                return self.unk("division by literal zero", node)
            return T.div(a, b)
        if isinstance(op, ast.Pow):
            c = T.const_value(b)
            if c is not None and c.denominator == 1 and 0 <= c <= 4:
                return T.power(a, int(c))
            return T.mk_call("**", [a, b])
        if isinstance(op, ast.FloorDiv):
            return T.mk_call("//", [a, b])
        if isinstance(op, ast.Mod):
            return T.mk_call("%", [a, b])
        if isinstance(op, ast.BitAnd):
            return T.mk_call("&", [a, b])
        if isinstance(op, ast.BitOr):
            return T.mk_call("|", [a, b])
        if isinstance(op, ast.MatMult):
            return T.mk_call("@", [a, b])
        return self.unk(f"binary op {type(op).__name__}", node)

    def ex_BinOp(self, e, frame):
        a = self.eval(e.left, frame)
        b = self.eval(e.right, frame)
        return self.binop(e.op, a, b, e)

    def ex_BoolOp(self, e, frame):
        vals = [self.as_bool(self.eval(v, frame)) for v in e.values]
        # NOTE: short-circuit evaluation of side-effecting operands is not modelled (none in rex)
        return T.mk_and(vals) if isinstance(e.op, ast.And) else T.mk_or(vals)

    def cmp(self, op, a: Term, b: Term, node) -> Term:
        q = _count_quantifier(op, a, b)
        if q is not None:
            return q
        if isinstance(op, (ast.Eq, ast.NotEq, ast.Is, ast.IsNot)):
            # a truth value compared with True / False: bool(x) is True  is  x,  bool(x) == False  is  not x
            for u, k in ((a, b), (b, a)):
                if k[0] == "const" and isinstance(k[1], bool) and ((u[0] == "call" and u[1] == "bool" and len(u[2]) == 1 and not u[3]) or T._is_bool(u)) and u[0] != "const":
                    t = self.as_bool(u)
                    return t if (k[1] is True) == isinstance(op, (ast.Eq, ast.Is)) else T.mk_not(t)
        if isinstance(op, ast.Lt):
            return T.lt(a, b)
        if isinstance(op, ast.LtE):
            return T.le(a, b)
        if isinstance(op, ast.Gt):
            return T.lt(b, a)
        if isinstance(op, ast.GtE):
            return T.le(b, a)
        if isinstance(op, ast.Eq):
            return T.eq(a, b)
        if isinstance(op, ast.NotEq):
            return T.mk_not(T.eq(a, b))
        if isinstance(op, ast.Is):
            return T.eq(a, b, numeric=False)
        if isinstance(op, ast.IsNot):
            return T.mk_not(T.eq(a, b, numeric=False))
        if isinstance(op, (ast.In, ast.NotIn)):
            if b[0] == "ite" and any(x[0] in ("list", "tuple") and not any(y[0] == "star" for y in x[1]) for x in (b[2], b[3])):
                # x in (A if c else [..]): the membership test on each side (one side is a literal, whose test is a plain disjunction)
                r = T.mk_ite(b[1], self.cmp(ast.In(), a, b[2], node), self.cmp(ast.In(), a, b[3], node))
            elif b[0] == "call" and b[1] == "+" and len(b[2]) >= 2 and not b[3]:
                # x in (A + B) for lists: x in A or x in B
                r = T.mk_or([self.cmp(ast.In(), a, p_, node) for p_ in b[2]])
            elif _concat_parts(b) is not None:
                r = T.mk_or([self.cmp(ast.In(), a, p_, node) for p_ in _concat_parts(b)])
            elif b[0] in ("list", "tuple") and not any(x[0] == "star" for x in b[1]):
                r = T.mk_or([T.eq(a, x, numeric=False) for x in b[1]])
            elif b[0] == "dict" and b[1] and all(k[0] == "const" for k, _ in b[1]):
                r = T.mk_or([T.eq(a, k, numeric=False) for k, _ in b[1]])
            elif b[0] == "call" and not b[2] and not b[3] and ((isinstance(b[1], str) and b[1].endswith(".keys")) or (isinstance(b[1], tuple) and b[1][0] == "attr" and b[1][2] == "keys")):
                r = ("in", a, T.sym(b[1][:-len(".keys")]) if isinstance(b[1], str) else b[1][1])  # k in d.keys() is k in d
            else:
                r = ("in", a, b)
            return r if isinstance(op, ast.In) else T.mk_not(r)
        return self.unk("comparison", node)

    def ex_Compare(self, e, frame):
        left = self.eval(e.left, frame)
        parts = []
        for op, comp in zip(e.ops, e.comparators):
            right = self.eval(comp, frame)
            parts.append(self.cmp(op, left, right, e))
            left = right
        return T.mk_and(parts) if len(parts) > 1 else parts[0]

    def ex_IfExp(self, e, frame):
        c = self.as_bool(self.eval(e.test, frame))
        if c == T.TRUE:
            return self.eval(e.body, frame)
        if c == T.FALSE:
            return self.eval(e.orelse, frame)
        out = {}

        def then():
            out["a"] = self.eval(e.body, frame)

        def els():
            out["b"] = self.eval(e.orelse, frame)

        self._branch(c, then, els, frame)
        return T.mk_ite(c, out.get("a", T.NONE), out.get("b", T.NONE))

    def ex_NamedExpr(self, e, frame):
        v = self.eval(e.value, frame)
        self.assign(e.target, v, frame, e)
        return v

    def eval_slice(self, s, frame) -> Term:
        if isinstance(s, ast.Slice):
            return ("sl", self.eval(s.lower, frame) if s.lower else None, self.eval(s.upper, frame) if s.upper else None,
                    self.eval(s.step, frame) if s.step else None)
        if isinstance(s, ast.Tuple):
            return ("tuple", tuple(self.eval_slice(x, frame) for x in s.elts))
        return self.eval(s, frame)

    def ex_Subscript(self, e, frame):
        base = self.eval(e.value, frame)
        if isinstance(e.slice, ast.Slice):
            s = e.slice
            return ("slice", base, self.eval(s.lower, frame) if s.lower else None,
                    self.eval(s.upper, frame) if s.upper else None, self.eval(s.step, frame) if s.step else None)
        key = self.eval_slice(e.slice, frame)
        if base[0] == "comp" and base[1] == "dict" and base[2][0] == "tuple" and len(base[3]) == 1 and not base[4]:
            r = self.index_dictcomp(base, key)
            if r is not None:
                return r
        sel = self.dict_select(base, key, None, e, frame)
        if sel is not None:
            return sel
        if base[0] in ("tuple", "list") and len(base[1]) == 2 and (T._is_bool(key) or (key[0] == "call" and key[1] == "bool" and len(key[2]) == 1)) and key[0] != "const":
            # (a, b)[bool(c)] is b if c else a
            return T.mk_ite(self.as_bool(key), base[1][1], base[1][0])
        return T.mk_index(base, key)

    def dict_select(self, base: Term, key: Term, default: Optional[Term], node, frame) -> Optional[Term]:
        """{k1: v1, k2: v2, ...}[key] with a symbolic key over a literal table is the if/elif chain over key == k_i (a dispatch
        table); without a default, the fall-through raises KeyError."""
        if base[0] != "dict" or not base[1] or key[0] == "const":
            return None
        keys = [k for k, _ in base[1]]
        if len(set(keys)) != len(keys) or key in keys or not all(k[0] in ("sym", "const") for k in keys):
            return None
        if set(keys) == {T.TRUE, T.FALSE} and key[0] != "const":
            # a two-entry table keyed by a truth value: {True: a, False: b}[bool(c)] is a if c else b
            kb = self.as_bool(key)
            conds = [kb if k == T.TRUE else T.mk_not(kb) for k in keys]
            out = dict(base[1])
            return T.mk_ite(kb, out[T.TRUE], out[T.FALSE])
        conds = [T.eq(key, k, numeric=False) for k in keys]
        if default is None:
            # the fall-through is recorded as a raise (rules that ask "does anything else raise" see it); like other implicit
            # exceptions (AttributeError, IndexError, ...) it does not narrow the path condition of what follows
            live0 = self.live
            self.live = T.mk_and([live0] + [T.mk_not(c) for c in conds])
            if self.live != T.FALSE:
                self.emit("raise", frame.func, T.mk_call("KeyError", [key]), node, frame)
            self.live = live0
            out = base[1][-1][1]
            rest = list(zip(conds, [v for _, v in base[1]]))[:-1]
        else:
            out = default
            rest = list(zip(conds, [v for _, v in base[1]]))
        for c, v in reversed(rest):
            out = T.mk_ite(c, v, out)
        return out

    def index_dictcomp(self, comp: Term, key: Term) -> Optional[Term]:
        """{k: v for ... in X.items()/X.keys()/X}[key]  ->  v with the loop element bound to `key`."""
        k, v = comp[2][1]
        it = comp[3][0][1]
        if k[0] == "elem":
            el = k
        elif k[0] == "index" and k[1][0] == "elem":
            el = k[1]
        else:
            return None
        mapping: Dict[Term, Term] = {}
        if k == el:
            mapping[el] = key
            if it[0] in ("sym", "attr", "index"):  # `{k: f(d[k]) for k in d}`: d[k] is in its canonical items() form
                canon = T.mk_index(it, el)
                if canon != ("index", it, el):
                    mapping[canon] = T.mk_index(it, key)
        elif k == T.mk_index(el, T.const(0)) and it[0] == "call" and isinstance(it[1], str) and it[1].endswith(".items"):
            mapping[k] = key
            mapping[T.mk_index(el, T.const(1))] = T.mk_index(T.sym(it[1][: -len(".items")]), key)
        elif k[0] == "index" and k[1] == el and T.const_value(k[2]) is not None:
            # key is one component of the loop element (e.g. zip(names, rngs)): bind that component, keep the others generic
            mapping[k] = key
        else:
            return None
        return self.subst_value(v, mapping)

    def subst_value(self, v: Term, mapping: Dict[Term, Term]) -> Term:
        if v[0] == "closure":
            c = self.closures.get(v[1])
            if c is None:
                return v
            u = self.uid()
            fr = c.frame
            if fr is not None:
                fr2 = Frame(fr.func, fr.module, fr.cls,
                            {n: (x if x[0] == "closure" else T.subst(x, mapping)) for n, x in fr.env.items()}, parent=fr.parent)
            else:
                fr2 = None
            self.closures[u] = Closure(u, c.kind, c.node, fr2, tuple(self.subst_value(a, mapping) for a in c.bound_args),
                                       tuple((kk, self.subst_value(a, mapping)) for kk, a in c.bound_kwargs),
                                       self.subst_value(c.inner, mapping) if c.inner is not None else None, c.qualname, c.wrap)
            return ("closure", u)
        return T.subst(v, mapping)

    def ex_Lambda(self, e, frame):
        u = self.uid()
        self.closures[u] = Closure(u, "lambda", e, frame, qualname=f"{frame.func}.<lambda>")
        return ("closure", u)

    def _comp(self, kind, e, frame, elt_fn):
        cid = self.uid()
        saved_env = frame.env
        frame.env = dict(saved_env)
        live0 = self.live
        self.loop_stack = self.loop_stack + (cid,)
        gens = []
        conds = []
        for g in e.generators:
            it = self.eval(g.iter, frame)
            inherited = ()
            fuse = _fuse_source(it)
            if fuse is not None:
                it, tmpl, inner_elem, inner_conds = fuse
                el = ("elem", it, cid)
                m = {inner_elem: el} if inner_elem is not None else {}
                inherited = tuple(T.subst(c, m) for c in inner_conds)
                self.assign(g.target, T.subst(tmpl, m), frame, e)
            else:
                it, proj = canon_iter(it)
                el = ("elem", it, cid)
                self.assign(g.target, el if proj is None else T.mk_index(el, T.const(proj)), frame, e)
            gens.append((_dotted(g.target) or ast.unparse(g.target), it))
            for ct in inherited:
                conds.append(ct)
                self.live = T.mk_and([self.live, ct])
            for c in g.ifs:
                ct = self.eval(c, frame)
                conds.append(ct)
                self.live = T.mk_and([self.live, ct])
        elt = elt_fn()
        self.loop_stack = self.loop_stack[:-1]
        self.live = live0
        frame.env = saved_env
        self.loops[cid] = LoopInfo(cid, "comp", gens[0][1] if gens else None, gens[0][0] if gens else None, {}, {},
                                   None, e, live0)
        return ("comp", kind, elt, tuple(gens), tuple(conds))

    def ex_ListComp(self, e, frame):
        return self._comp("list", e, frame, lambda: self.eval(e.elt, frame))

    def ex_SetComp(self, e, frame):
        return self._comp("set", e, frame, lambda: self.eval(e.elt, frame))

    def ex_GeneratorExp(self, e, frame):
        return self._comp("gen", e, frame, lambda: self.eval(e.elt, frame))

    def ex_DictComp(self, e, frame):
        return self._comp("dict", e, frame, lambda: ("tuple", (self.eval(e.key, frame), self.eval(e.value, frame))))

    # ------------------------------------------------------------------ calls
    def ex_Call(self, e, frame):
        tw = _takewhile_count(e)
        if tw is not None:
            # sum(1 for _ in itertools.takewhile(p, xs)) / len(list(itertools.takewhile(p, xs))): the length of the leading run, counted by the
            # loop `n = 0; for x in xs: if not p(x): break; n += 1`
            pred, xs = tw
            self._tmp = getattr(self, "_tmp", 0) + 1
            n_, x_ = f"__run{self._tmp}", f"__run{self._tmp}_x"
            src = f"{n_} = 0\nfor {x_} in __xs__:\n    if not __p__({x_}):\n        break\n    {n_} += 1\n"
            mod = ast.parse(src)

            class _Sub(ast.NodeTransformer):
                def visit_Name(self, n):
                    return {"__xs__": xs, "__p__": pred}.get(n.id, n)
            mod = _Sub().visit(mod)
            own = {id(c) for root in (xs, pred) for c in ast.walk(root)}
            for st_ in mod.body:
                for n in ast.walk(st_):
                    if id(n) not in own:
                        ast.copy_location(n, e)
                self.exec_stmt(st_, frame)
            return frame.lookup(n_)
        # receiver / callee
        recv = None
        method = None
        if isinstance(e.func, ast.Attribute):
            recv = self.eval(e.func.value, frame)
            method = e.func.attr
            if (recv, method) in self.heap:
                fterm = self.heap[(recv, method)]
                recv_is_module = False
            else:
                fterm = ("attr", recv, method) if recv[0] in ("ite", "replace") else T.mk_attr(recv, method)
        else:
            fterm = self.eval(e.func, frame)
        args = [self.eval_star(a, frame) for a in e.args]
        kwargs = []
        for k in e.keywords:
            if k.arg is None:
                kwargs.append(("**", self.eval(k.value, frame)))
            else:
                kwargs.append((k.arg, self.eval(k.value, frame)))
        # f(**dict(a=x, b=y)) / f(**{"a": x}) is f(a=x, b=y): expand literal keyword dictionaries
        if any(k == "**" for k, _ in kwargs):
            expanded = []
            for k, v in kwargs:
                if k == "**" and v[0] == "call" and v[1] == "dict" and not v[2] and all(kk != "**" for kk, _ in v[3]):
                    expanded.extend(v[3])
                elif k == "**" and v[0] == "dict" and v[1] and all(kk[0] == "const" and isinstance(kk[1], str) for kk, _ in v[1]):
                    expanded.extend((kk[1], vv) for kk, vv in v[1])
                elif k == "**" and v[0] == "ite" and _kw_literal(v) is not None:
                    # f(**(d1 if c else d2)) with two literal keyword dictionaries of the same keys: each keyword picked by the condition
                    expanded.extend(_kw_literal(v))
                else:
                    expanded.append((k, v))
            kwargs = expanded
        if method in ("append", "appendleft") and len(args) == 1 and args[0][0] == "obj" and isinstance(e.func.value, ast.Attribute) \
                and e.func.value.attr in self.model.queue_entry_classes() and self.model.queue_entry_classes()[e.func.value.attr].qualname.split(".")[-1] == args[0][1]:
            args = [("tuple", tuple(v for _, v in args[0][2]))]  # the entry as the plain tuple it is
        # local list accumulation: x = []; ...; x.append(v)  ->  x becomes an 'accum' term that remembers what was
        # appended under which guard (the list object is local, so this is not an effect)
        if method in ("append", "extend", "add") and isinstance(e.func.value, ast.Name) and recv is not None \
                and len(args) == 1 and not kwargs and frame.lookup(e.func.value.id) is recv \
                and (method != "add" or recv == ("call", "set", (), (), None) or (recv[0] == "accum" and recv[1] == ("call", "set", (), (), None))):
            item = ("acc_item", self.live, args[0], self.loop_stack, method)
            new = _acc_append(recv, item)
            if new is not None:
                f = frame
                while f is not None and e.func.value.id not in f.env:
                    f = f.parent
                (f or frame).env[e.func.value.id] = new
                self.emit("local_append", e.func.value.id, args[0], e, frame, recv=recv)
                return T.NONE
        # in-place reordering of a local list: x.sort(key=..) is x = sorted(x, key=..); x.reverse() is x = x[::-1]
        if method in ("sort", "reverse") and isinstance(e.func.value, ast.Name) and recv is not None and not args and frame.lookup(e.func.value.id) is recv \
                and (recv[0] in ("comp", "list", "accum") or (recv[0] == "call" and recv[1] in ("sorted", "list"))) and (method == "sort" or not kwargs):
            if method == "sort":
                new = self.call(T.sym("sorted"), [recv], kwargs, e, frame)
            else:
                new = ("slice", recv, None, None, T.const(-1))
            f = frame
            while f is not None and e.func.value.id not in f.env:
                f = f.parent
            (f or frame).env[e.func.value.id] = new
            return T.NONE
        return self.call(fterm, args, kwargs, e, frame, recv=recv, method=method)

    def _callable_leaf(self, f: Term) -> bool:
        if f[0] == "closure":
            return True
        if f[0] == "ite":
            return self._callable_leaf(f[2]) and self._callable_leaf(f[3])
        if f[0] == "sym" and f[1].startswith("self.") and f[1].count(".") == 1:
            return True
        if f[0] == "sym" and f[1] in _OPERATOR_FUNCS:
            return True
        if f[0] == "sym" and f[1].startswith("rex.") and f[1][4:] in self.model.functions:
            return True
        return False

    def fname(self, fterm: Term) -> str:
        if fterm[0] == "sym":
            return fterm[1]
        if fterm[0] == "attr":
            return self.fname(fterm[1]) + "." + fterm[2]
        return "<" + T.show(fterm) + ">"

    def call(self, fterm, args, kwargs, node, frame, recv=None, method=None) -> Term:
        if recv is None and fterm[0] == "sym" and fterm[1].startswith("self.") and fterm[1].count(".") == 1:
            # a bound method held in a variable / table: called like `self.m(...)`
            recv, method = T.sym("self"), fterm[1].split(".", 1)[1]
        name = self.fname(fterm)
        # user overrides first
        for key in (name, method and "." + method):
            if key and key in self.overrides:
                r = self.overrides[key](self, fterm, args, kwargs, node, frame, recv)
                if r is not None:
                    return r
        # closures
        if fterm[0] == "closure":
            return self.apply_closure(fterm, args, kwargs, node, frame)
        if fterm[0] == "ite" and all(self._callable_leaf(x) for x in (fterm[2], fterm[3])):
            # (f if c else g)(args): each alternative applied on its own path
            out = {}

            def leaf(f):
                if f[0] == "sym" and "." in f[1]:
                    return self.call(f, args, kwargs, node, frame, recv=T.sym(f[1].rsplit(".", 1)[0]), method=f[1].rsplit(".", 1)[1])
                return self.call(f, args, kwargs, node, frame)
            self._branch(fterm[1], lambda: out.__setitem__("a", leaf(fterm[2])), lambda: out.__setitem__("b", leaf(fterm[3])), frame)
            return T.mk_ite(fterm[1], out.get("a", T.NONE), out.get("b", T.NONE))
        if name in _OPERATOR_FUNCS and len(args) == 2 and not kwargs:
            # operator.gt(a, b) is a > b
            op = _OPERATOR_FUNCS[name]()
            return self.cmp(op, args[0], args[1], node) if isinstance(op, ast.cmpop) else self.binop(op, args[0], args[1], node)
        if name in ("functools.reduce", "reduce") and len(args) == 3 and not kwargs:
            # functools.reduce(f, xs, init) is the fold loop  acc = init; for x in xs: acc = f(acc, x)
            loop = ast.parse("for __fold_x in __fold_it:\n    __fold_acc = __fold_fn(__fold_acc, __fold_x)").body[0]
            for n in ast.walk(loop):
                if hasattr(n, "lineno") and node is not None:
                    ast.copy_location(n, node)
            frame.env.update({"__fold_fn": args[0], "__fold_it": args[1], "__fold_acc": args[2]})
            self.exec_stmt(loop, frame)
            out = frame.env.pop("__fold_acc")
            for k in ("__fold_fn", "__fold_it", "__fold_x"):
                frame.env.pop(k, None)
            return out
        if method == "format" and recv is not None and recv[0] == "const" and isinstance(recv[1], str) and not kwargs \
                and "{" in recv[1] and recv[1].replace("{}", "").count("{") == 0 and recv[1].count("{}") == len(args) and not any(a[0] == "star" for a in args):
            # "{}_{}".format(a, b) is f"{a}_{b}"
            parts, lits = [], recv[1].split("{}")
            for i, lit in enumerate(lits):
                if lit:
                    parts.append(T.const(lit))
                if i < len(args):
                    parts.append(args[i])
            return T.mk_call("fstr", parts)
        # pytree utilities: one spelling.  tree_leaves(x) is tree_flatten(x)[0], tree_structure(x) is tree_flatten(x)[1],
        # treedef.unflatten(xs) is tree_unflatten(treedef, xs), <treedef>.num_leaves is len(tree_flatten(x)[0]), and unflattening the
        # leaves of x mapped one by one through f is tree_map(f, x)
        if name in ("jax.tree_util.tree_leaves", "jax.tree_util.tree_structure") and len(args) == 1:
            return T.mk_index(T.mk_call("jax.tree_util.tree_flatten", [args[0]], kwargs), T.ZERO if name.endswith("leaves") else T.ONE)
        if method == "unflatten" and recv is not None and len(args) == 1 and not kwargs and recv[0] == "index" and recv[1][0] == "call" \
                and T.call_name(recv[1]) == "jax.tree_util.tree_flatten":
            return self.call(T.sym("jax.tree_util.tree_unflatten"), [recv, args[0]], [], node, frame)
        if name == "jax.tree_util.tree_unflatten" and len(args) == 2 and not kwargs and args[1][0] == "comp" and args[1][1] == "list" and not args[1][4] and len(args[1][3]) == 1:
            src = args[1][3][0][1]
            if src[0] == "index" and src[2] == T.ZERO and src[1][0] == "call" and T.call_name(src[1]) == "jax.tree_util.tree_flatten" and not src[1][3] \
                    and args[0] == T.mk_index(src[1], T.ONE):
                el = [x for x in T.walk(args[1][2]) if x[0] == "elem" and x[1] == src]
                if len(set(el)) == 1:
                    return T.subst(args[1][2], {el[0]: src[1][2][0]})  # leaf-wise reading, as for tree_map
        if name == "jax.random.split" and len(args) == 2 and not kwargs:
            kwargs = [("num", args[1])]  # split(key, n) is split(key, num=n)
            args = [args[0]]
        if name in ("numpy.full", "jax.numpy.full") and len(args) >= 2 and T.const_value(args[1]) is not None and all(k == "dtype" for k, _ in kwargs) and len(args) <= 3:
            # full(shape, c) is c * ones(shape) (the dtype is a cast, transparent like astype)
            return T.mul(args[1], self.call(T.sym(name.rsplit(".", 1)[0] + ".ones"), [args[0]], [], node, frame))
        if name in _REDUCTIONS and args and args[0][0] not in ("list", "tuple", "star") and not (args[0][0] == "call" and args[0][1] == "+"):
            # jnp.max(x, axis=1) / onp.amax(x, axis=1) is x.max(axis=1): one normal form for reductions of an array
            m = _REDUCTIONS[name]
            return self.call(T.mk_attr(args[0], m) if args[0][0] == "sym" else ("attr", args[0], m), list(args[1:]), kwargs, node, frame, recv=args[0], method=m)
        if name in ("max", "min", "sum", "len", "tuple", "list", "sorted", "any", "all") and len(args) == 1 and args[0][0] == "obj":
            oc_ = self.model.find_class(args[0][1])
            if oc_ is not None and getattr(oc_, "is_namedtuple", False):
                args = [("tuple", tuple(v for _, v in args[0][2]))]  # a NamedTuple instance is the tuple of its fields
        lit = lambda t: t[0] in ("tuple", "list") and not any(x[0] == "star" for x in t[1])
        if name == "map" and len(args) == 2 and not kwargs and lit(args[1]):
            return ("tuple", tuple(self.call(args[0], [x], [], node, frame) for x in args[1][1]))  # map over a literal sequence, element by element
        if name == "zip" and len(args) >= 2 and not kwargs and all(lit(a_) for a_ in args) and len({len(a_[1]) for a_ in args}) == 1:
            return ("tuple", tuple(("tuple", tuple(a_[1][i] for a_ in args)) for i in range(len(args[0][1]))))
        if name == "zip" and len(args) >= 2 and not kwargs and all(a_[0] == "comp" and a_[1] == "list" and len(a_[3]) == 1 for a_ in args) and len({(a_[3], a_[4]) for a_ in args}) == 1:
            # lists filled side by side in one loop, zipped back together: the list of the tuples (same generator, same element)
            src_ = args[0][3][0][1]
            xs_ = {x for a_ in args for x in T.walk(a_[2]) if x[0] == "elem" and x[1] == src_}
            if len(xs_) <= 1:
                return ("comp", "list", ("tuple", tuple(a_[2] for a_ in args)), args[0][3], args[0][4])
        if name == "dict" and len(args) == 1 and not kwargs and lit(args[0]) and all(x[0] == "tuple" and len(x[1]) == 2 for x in args[0][1]):
            return ("dict", tuple((x[1][0], x[1][1]) for x in args[0][1]))
        if name == "dataclasses.replace" and len(args) == 1 and all(k != "**" for k, _ in kwargs):
            return T.mk_replace(args[0], tuple(kwargs))  # dataclasses.replace(x, a=v) is x.replace(a=v) (what the generated method does)
        if fterm[0] == "call" and T.call_name(fterm) == "operator.methodcaller" and fterm[2] and fterm[2][0][0] == "const" and len(args) == 1 and not kwargs:
            m_ = fterm[2][0][1]  # operator.methodcaller("m", *a)(x) is x.m(*a)
            return self.call(T.mk_attr(args[0], m_) if args[0][0] == "sym" else ("attr", args[0], m_), list(fterm[2][1:]), list(fterm[3]), node, frame, recv=args[0], method=m_)
        if name in ("list", "tuple") and len(args) == 1 and not kwargs and args[0][0] == "call" and args[0][1] == "map" and len(args[0][2]) == 2 and not args[0][3]:
            f_, xs = args[0][2]
            if xs[0] in ("tuple", "list") and not any(x[0] == "star" for x in xs[1]):
                return (name, tuple(self.call(f_, [x], [], node, frame) for x in xs[1]))  # map over a literal: element by element
            # list(map(f, xs)) is [f(x) for x in xs]
            cid = self.uid()
            src, proj = canon_iter(xs)
            el = ("elem", src, cid)
            self.loop_stack = self.loop_stack + (cid,)
            elt = self.call(f_, [el if proj is None else T.mk_index(el, T.const(proj))], [], node, frame)
            self.loop_stack = self.loop_stack[:-1]
            self.loops[cid] = LoopInfo(cid, "comp", src, "x", {}, {}, None, node, self.live)
            return ("comp", "list", elt, (("x", src),), ())
        if name == "operator.attrgetter" and len(args) >= 2 and not kwargs and all(a_[0] == "const" and isinstance(a_[1], str) and all(p_.isidentifier() for p_ in a_[1].split(".")) for a_ in args):
            # operator.attrgetter("a", "b") is lambda x: (x.a, x.b)
            lam = ast.parse("lambda __x: (" + ", ".join(f"__x.{a_[1]}" for a_ in args) + ",)", mode="eval").body
            for n in ast.walk(lam):
                if hasattr(n, "lineno") and node is not None:
                    ast.copy_location(n, node)
            u = self.uid()
            self.closures[u] = Closure(u, "lambda", lam, Frame(frame.func, frame.module, frame.cls, {}, parent=frame), qualname=f"{frame.func}.<lambda>")
            return ("closure", u)
        if name in ("operator.itemgetter", "operator.attrgetter") and len(args) == 1 and not kwargs and (name.endswith("itemgetter") or args[0][0] == "const"):
            # operator.itemgetter(k) is lambda x: x[k]; operator.attrgetter("a") is lambda x: x.a
            src = "lambda __x: __x[__k]" if name.endswith("itemgetter") else f"lambda __x: __x.{args[0][1]}"
            lam = ast.parse(src, mode="eval").body
            for n in ast.walk(lam):
                if hasattr(n, "lineno") and node is not None:
                    ast.copy_location(n, node)
            u = self.uid()
            self.closures[u] = Closure(u, "lambda", lam, Frame(frame.func, frame.module, frame.cls, {"__k": args[0]}, parent=frame), qualname=f"{frame.func}.<lambda>")
            return ("closure", u)
        if method == "update" and recv is not None and len(args) == 1 and not kwargs and args[0][0] == "dict" and args[0][1] \
                and isinstance(node, ast.Call) and isinstance(node.func, ast.Attribute) and isinstance(node.func.value, ast.Name) \
                and all(k[0] == "const" for k, _ in args[0][1]):
            # d.update({"a": x, "b": y}) is d["a"] = x; d["b"] = y
            nm = node.func.value.id
            for k, v in args[0][1]:
                self.emit("store_sub", T.show(recv) if recv[0] == "sym" else nm, v, node, frame, recv=recv, key=k)
            cur = frame.lookup(nm)
            if cur is not None and cur[0] == "dict":
                items = [(k, x) for k, x in cur[1] if k not in dict(args[0][1])] + list(args[0][1])
                f_ = frame
                while f_ is not None and nm not in f_.env:
                    f_ = f_.parent
                (f_ or frame).env[nm] = ("dict", tuple(items))
            return T.NONE
        if name == "setattr" and len(args) == 3 and not kwargs and args[1][0] == "const" and isinstance(args[1][1], str) and args[1][1].isidentifier() \
                and isinstance(node, ast.Call) and len(node.args) == 3:
            # setattr(x, "a", v) is x.a = v
            tgt = ast.Attribute(value=node.args[0], attr=args[1][1], ctx=ast.Store())
            ast.copy_location(tgt, node)
            self.assign(tgt, args[2], frame, node)
            return T.NONE
        if name == "getattr" and len(args) == 2 and not kwargs and args[1][0] == "const" and isinstance(args[1][1], str) and args[1][1].isidentifier():
            return T.mk_attr(args[0], args[1][1])  # getattr(x, "a") is x.a
        if name in ("all", "any") and len(args) == 1 and not kwargs and args[0][0] == "comp" and args[0][1] in ("list", "gen") and len(args[0][3]) == 1:
            args = [_canon_quantified(name, args[0])]
        if method == "get" and recv is not None and recv[0] == "dict" and len(args) == 2 and not kwargs:
            sel = self.dict_select(recv, args[0], args[1], node, frame)
            if sel is not None:
                return sel
        # interpreted functions
        r = self.interpret(name, fterm, args, kwargs, node, frame, recv, method)
        if r is not None:
            return r
        # in-repo callee?
        target = self.resolve(name, fterm, recv, method, frame)
        if target is not None and self.model.aliases() is not None and self.model.moved and target.qualname in self.model.moved.values() and self.depth < self.max_depth + 3:
            # a nested function of the reference tree that now lives at module level / as a method: applied like the closure it was
            self_t = recv if (target.cls and target.parent is None and _first_param(target.node) in ("self",)) else None
            return self.inline_call(target, args, kwargs, self_t, node, frame)
        if target is not None and _memoised(target):
            # a memoised function is not the expression it computes: later calls return what the first call saw (of a mutable
            # argument's configuration, too).  Kept as a call of the cache, never analysed inline.
            nm_ = f"cached:rex.{target.qualname}"
            t_ = T.mk_call(nm_, list(args), list(kwargs))
            self.emit("call", nm_, t_, node, frame, args=tuple(args), kwargs=tuple(kwargs), recv=recv)
            return t_
        if target is not None and self.is_new_helper(target) and not self._pulled_up(target, recv, method) and len(self.helper_stack) < 3 and target.qualname not in self.helper_stack:
            # a function the reference tree does not have: a helper extracted later; analyse it at the call site, with its
            # events attributed to the caller
            self_t = recv if (target.cls and target.parent is None and _first_param(target.node) in ("self",)) else None
            if _first_param(target.node) == "cls" and target.cls:
                self_t = recv if recv is not None else T.sym("cls")
            self.helper_stack.append(target.qualname)
            try:
                return self.inline_call(target, args, kwargs, self_t, node, frame, as_helper=True)
            finally:
                self.helper_stack.pop()
        if target is not None and self.depth < self.max_depth and self.should_inline(target, name, method):
            self_t = recv if (target.cls and target.parent is None and _first_param(target.node) in ("self",)) else None
            if _first_param(target.node) == "cls" and target.cls:
                self_t = recv if recv is not None else T.sym("cls")
            return self.inline_call(target, args, kwargs, self_t, node, frame)
        # an instance of an in-repo class with __call__ (a closure written as a small class): calling it runs that method
        if fterm[0] == "obj":
            oc = self.model.find_class(fterm[1])
            cm = self.model.lookup_method(oc, "__call__") if oc is not None else None
            if cm is not None and self.depth < self.max_depth + 3:
                return self.inline_call(cm, args, kwargs, fterm, node, frame, as_helper=self.is_new_helper(cm) and len(self.helper_stack) < 3)
        # dataclass construction
        ci = self.resolve_class(name, fterm, frame)
        if ci is not None and not ci.is_dataclass and "__init__" in ci.methods:
            # a plain class whose __init__ only stores its parameters: read like the dataclass it amounts to
            init = ci.methods["__init__"].node
            ps = [a_.arg for a_ in init.args.args[1:]]
            body = [st_ for st_ in init.body if not (isinstance(st_, ast.Expr) and isinstance(st_.value, ast.Constant))]
            plain = all(isinstance(st_, ast.Assign) and len(st_.targets) == 1 and isinstance(st_.targets[0], ast.Attribute) and isinstance(st_.targets[0].value, ast.Name)
                        and st_.targets[0].value.id == "self" and isinstance(st_.value, ast.Name) and st_.value.id in ps for st_ in body)
            if plain and body and not init.args.vararg and not init.args.kwarg and not any(a_[0] == "star" for a_ in args) and all(k != "**" for k, _ in kwargs) \
                    and len(args) <= len(ps):
                given = dict(zip(ps, args))
                given.update(dict(kwargs))
                if all(st_.value.id in given for st_ in body):
                    simple = ci.qualname.split(".")[-1]
                    t = ("obj", simple, tuple((st_.targets[0].attr, given[st_.value.id]) for st_ in body))
                    self.emit("call", "new:" + simple, t, node, frame, args=tuple(args), kwargs=tuple(kwargs), recv=recv)
                    return t
        if ci is not None and ci.is_dataclass:
            fields = self.model.dataclass_fields(ci)
            items = []
            ok = True
            for i, a in enumerate(args):
                if a[0] == "star":
                    inner = a[1]
                    if inner[0] in ("tuple", "list"):
                        for j, x in enumerate(inner[1]):
                            if len(items) < len(fields):
                                items.append((fields[len(items)], x))
                    elif inner[0] == "comp" or True:
                        # positional expansion of an opaque sequence: field k <- seq[k]
                        rest = [f for f in fields if f not in [k for k, _ in kwargs]]
                        rest = rest[len(items):]
                        for j, f in enumerate(rest):
                            items.append((f, T.mk_index(inner, T.const(j))))
                    continue
                if len(items) < len(fields):
                    items.append((fields[len(items)], a))
                else:
                    ok = False
            for k, v in kwargs:
                if k == "**":
                    ok = False
                    continue
                items = [(f, x) for f, x in items if f != k] + [(k, v)]
            if ok:
                simple = ci.qualname.split(".")[-1]
                if getattr(ci, "is_namedtuple", False):
                    items = sorted(items, key=lambda kv: fields.index(kv[0]) if kv[0] in fields else len(fields))  # a tuple: field order
                t = ("obj", simple, tuple(items))
                self.emit("call", "new:" + simple, t, node, frame, args=tuple(args), kwargs=tuple(kwargs), recv=recv)
                return t
        # generic call
        pure = self.is_pure(name, method, recv)
        t = T.mk_call(name if fterm[0] == "sym" else fterm, args, kwargs, None if pure else self.uid())
        self.emit("call", name, t, node, frame, args=tuple(args), kwargs=tuple(kwargs), recv=recv)
        return t

    def is_pure(self, name: str, method: Optional[str], recv) -> bool:
        if name in PURE_BUILTINS:
            return True
        if any(name.startswith(p) or name == p.rstrip(".") for p in PURE_PREFIXES):
            return True
        if method is not None and method in PURE_METHODS and not name.startswith("self.q_"):
            return True
        return False

    def is_new_helper(self, target: FuncInfo) -> bool:
        known = _known_api()
        return bool(known) and target.qualname not in known and target.parent is None and target.qualname not in self.model.aliases().values()

    def _pulled_up(self, target: FuncInfo, recv, method) -> bool:
        """The callee is a method of the reference API that now lives in an in-repo base class of the receiver's class: still that
        API method (called, not analysed inline)."""
        if recv is None or method is None or target.cls is None:
            return False
        ci = self.type_of(recv)
        known = _known_api()
        return ci is not None and ci.qualname != target.cls and bool(known) and f"{ci.qualname}.{method}" in known

    def should_inline(self, target: FuncInfo, name: str, method: Optional[str]) -> bool:
        return (target.qualname in self.inline) or (target.name in self.inline) or ("*" in self.inline)

    def resolve(self, name, fterm, recv, method, frame) -> Optional[FuncInfo]:
        # method on typed receiver
        if recv is not None and method is not None:
            ci = self.type_of(recv)
            if ci is not None:
                f = self.model.lookup_method(ci, method)
                if f is not None:
                    return f
            # classmethod / staticmethod via class symbol
            ci2 = self.resolve_class(self.fname(recv) if recv[0] in ("sym", "attr") else "", recv, frame)
            if ci2 is not None:
                f = self.model.lookup_method(ci2, method)
                if f is not None:
                    return f
        if name.startswith("rex."):
            q = name[4:]
            if q in self.model.functions:
                return self.model.functions[q]
        if recv is not None and method is not None and not method.startswith("__"):
            # a method the reference tree does not have, defined by exactly one class: a helper extracted onto the receiver's class (the
            # receiver's type need not be known to find it)
            cands = [f for f in self.model.functions.values() if f.name == method and f.cls and f.parent is None and self.is_new_helper(f)]
            known_names = {q.rsplit(".", 1)[-1] for q in (_known_api() or ())}  # (a reference method pulled up into a new base class keeps being that method)
            if len(cands) == 1 and method not in known_names and not any(f.name == method and f.cls and f is not cands[0] for f in self.model.functions.values()):
                return cands[0]
        return None

    def resolve_class(self, name, fterm, frame) -> Optional[ClassInfo]:
        if not name or name.startswith("<"):
            return None
        if name.startswith("rex."):
            q = name[4:]
            if q in self.model.classes:
                return self.model.classes[q]
        if name == "cls" and frame.cls is not None:
            return frame.cls
        # nested classes defined in the current function
        q = name
        if q in self.model.classes:
            return self.model.classes[q]
        return None

    def inline_call(self, target: FuncInfo, args, kwargs, self_term, node, frame, as_helper: bool = False) -> Term:
        a = target.node.args
        params = [p.arg for p in a.posonlyargs + a.args]
        env: Dict[str, Term] = {}
        is_method = target.cls is not None and target.parent is None and params and params[0] in ("self", "cls")
        decos = [(_dotted(d) or "") for d in target.node.decorator_list]
        if "staticmethod" in decos:
            is_method = False
        pos = list(args)
        if is_method:
            env[params[0]] = self_term if self_term is not None else T.sym(params[0])
            params = params[1:]
        defaults = a.defaults
        ndef = len(defaults)
        all_params = params
        # positional
        flat_pos = []
        for x in pos:
            if x[0] == "star" and x[1][0] in ("tuple", "list"):
                flat_pos.extend(x[1][1])
            else:
                flat_pos.append(x)
        for i, p in enumerate(all_params):
            if i < len(flat_pos):
                env[p] = flat_pos[i]
        if a.vararg:
            env[a.vararg.arg] = ("tuple", tuple(flat_pos[len(all_params):]))
        for k, v in kwargs:
            if k != "**":
                env[k] = v
        # defaults
        mod_frame = Frame(target.qualname, target.module, None, {})
        for i, p in enumerate(all_params):
            if p not in env:
                di = i - (len(all_params) - ndef)
                if 0 <= di < ndef:
                    env[p] = self.eval(defaults[di], mod_frame)
                else:
                    env[p] = T.sym(f"?{p}")
        for p, d in zip(a.kwonlyargs, a.kw_defaults):
            if p.arg not in env:
                env[p.arg] = self.eval(d, mod_frame) if d is not None else T.sym(f"?{p.arg}")
        cls = self.model.classes.get(target.cls) if target.cls else None
        parent = None
        sub = Frame(frame.func if as_helper else target.qualname, target.module, cls, env, parent=parent)
        if is_method and "self" in env and cls is not None:
            self.types.setdefault(env["self"], cls.qualname)
        live0 = self.live
        sub.is_helper = as_helper
        if not as_helper:
            self.depth += 1
        try:
            self.exec_block(_generator_as_list(target.node), sub)
        finally:
            if not as_helper:
                self.depth -= 1
        self.live = live0 if sub.raised == T.FALSE else T.mk_and([live0, T.mk_not(sub.raised)])
        return merge_returns(sub.returns)

    def apply_closure(self, cterm, args, kwargs, node, frame) -> Term:
        c = self.closures.get(cterm[1])
        if c is None:
            return self.unk("unknown closure", node)
        if self.depth >= self.max_depth + 3:
            t = T.mk_call(c.qualname or "closure", args, kwargs, self.uid())
            self.emit("call", c.qualname or "closure", t, node, frame, args=tuple(args), kwargs=tuple(kwargs))
            return t
        if c.kind == "partial":
            return self.call(c.inner, list(c.bound_args) + list(args), list(c.bound_kwargs) + list(kwargs), node, frame)
        if c.kind == "wrap":
            return self.call(c.inner, args, kwargs, node, frame)
        fn = c.node
        a = fn.args
        params = [p.arg for p in a.posonlyargs + a.args]
        env: Dict[str, Term] = {}
        flat_pos = []
        for x in args:
            if x[0] == "star" and x[1][0] in ("tuple", "list"):
                flat_pos.extend(x[1][1])
            else:
                flat_pos.append(x)
        for i, p in enumerate(params):
            if i < len(flat_pos):
                env[p] = flat_pos[i]
        if a.vararg:
            env[a.vararg.arg] = ("tuple", tuple(flat_pos[len(params):]))
        for k, v in kwargs:
            if k != "**":
                env[k] = v
        ndef = len(a.defaults)
        for i, p in enumerate(params):
            if p not in env:
                di = i - (len(params) - ndef)
                env[p] = self.eval(a.defaults[di], c.frame) if 0 <= di < ndef else T.sym(f"?{p}")
        for p, d in zip(a.kwonlyargs, a.kw_defaults):
            if p.arg not in env:
                env[p.arg] = self.eval(d, c.frame) if d is not None else T.sym(f"?{p.arg}")
        known = _known_api()
        as_helper = bool(known) and c.kind == "def" and c.qualname not in known and c.qualname not in self.model.aliases().values() and frame is not None and len(self.helper_stack) < 3 \
            and c.qualname not in self.helper_stack and not c.qualname.endswith(">")
        sub = Frame(frame.func if as_helper else c.qualname, c.frame.module, c.frame.cls, env, parent=c.frame)
        sub.is_helper = as_helper
        live0 = self.live
        if as_helper:
            self.helper_stack.append(c.qualname)
        else:
            self.depth += 1
        try:
            if c.kind == "lambda":
                r = self.eval(fn.body, sub)
            else:
                self.exec_block(fn.body, sub)
                r = merge_returns(sub.returns)
        finally:
            if as_helper:
                self.helper_stack.pop()
            else:
                self.depth -= 1
        self.live = live0 if sub.raised == T.FALSE else T.mk_and([live0, T.mk_not(sub.raised)])
        return r

    # ------------------------------------------------------------------ interpreted library functions
    def interpret(self, name, fterm, args, kwargs, node, frame, recv, method) -> Optional[Term]:
        kw = dict(kwargs)
        plain = [a for a in args if a[0] != "star"]
        if name == "dict" and not args and not kwargs:
            return ("dict", ())
        if name in ("max", "min") and len(args) == 1 and set(kw) == {"default"} and args[0][0] != "star":
            # max(xs, default=d) is max(xs) if len(xs) > 0 else d (a generator argument is consumed like the list of its items)
            xs_ = args[0]
            if xs_[0] == "comp" and xs_[1] == "gen":
                xs_ = ("comp", "list") + tuple(xs_[2:])
            expr = ast.parse(f"{name}(__mx_a) if len(__mx_a) > 0 else __mx_d", mode="eval").body
            for n_ in ast.walk(expr):
                ast.copy_location(n_, node)
            sub_ = Frame(frame.func, frame.module, frame.cls, {"__mx_a": xs_, "__mx_d": kw["default"]}, parent=frame)
            return self.eval(expr, sub_)
        if name in ("max", "min") and not kwargs and len(args) == 1 and args[0][0] == "ite":
            # max(t) with t one of two literal tuples picked by a condition: the maximum on each side
            def _lit(t):
                return t[0] in ("list", "tuple") and len(t[1]) >= 1 and not any(x[0] == "star" for x in t[1]) if t[0] != "ite" else (_lit(t[2]) and _lit(t[3]))

            def _each(t):
                if t[0] == "ite":
                    return T.mk_ite(t[1], _each(t[2]), _each(t[3]))
                return T.mk_max(list(t[1])) if name == "max" else T.mk_min(list(t[1]))
            if _lit(args[0]) and all(_arith_ok(x) for t in _ite_tuple_leaves(args[0]) for x in t[1]):
                return _each(args[0])
        if name in ("max", "min") and not kwargs:
            items = None
            if len(args) >= 2 and len(plain) == len(args):
                items = list(args)
            elif len(args) == 1 and args[0][0] in ("list", "tuple") and not any(x[0] == "star" for x in args[0][1]) \
                    and len(args[0][1]) >= 1:
                items = list(args[0][1])
            if items is not None and all(_arith_ok(x) for x in items):
                return T.mk_max(items) if name == "max" else T.mk_min(items)
            return None
        if name in ("jax.numpy.maximum", "numpy.maximum") and len(args) == 2:
            return T.mk_max(args)
        if name in ("jax.numpy.minimum", "numpy.minimum") and len(args) == 2:
            return T.mk_min(args)
        if name in ("jax.numpy.max", "numpy.max", "jax.numpy.min", "numpy.min") and len(args) == 1 and args[0][0] in (
                "list", "tuple") and len(args[0][1]) >= 2:
            return T.mk_max(args[0][1]) if name.endswith("max") else T.mk_min(args[0][1])
        if name in TRANSPARENT_CASTS and len(args) >= 1:
            dt = dict(kwargs).get("dtype")
            if dt is not None and not _fixed_dtype(dt):
                return None  # a cast to a computed dtype (result_type(...), promote_types(...)) can truncate: keep it visible
            if name == "round":
                # only the repository's micro-second rounding idiom round(x, 6) is transparent (H4)
                nd = T.const_value(args[1]) if len(args) > 1 else None
                if nd is None or nd < 6:
                    return None
            return args[0]
        if method == "astype" and recv is not None and (not args or _fixed_dtype(args[0])):
            return recv
        if name in ("jax.numpy.logical_or", "numpy.logical_or") and len(args) == 2:
            return T.mk_or(args)
        if name in ("jax.numpy.logical_and", "numpy.logical_and") and len(args) == 2:
            return T.mk_and(args)
        if name in ("jax.numpy.logical_not", "numpy.logical_not") and len(args) == 1:
            return T.mk_not(args[0])
        if name in ("jax.numpy.where", "numpy.where") and len(args) == 3:
            # elementwise select on arrays: NOT a control-flow merge (indexing / reductions must not be lifted through it);
            # rules that reason elementwise convert it explicitly with terms.where_to_ite
            return T.mk_call("jax.numpy.where", args)
        if name in ("jax.numpy.square", "numpy.square") and len(args) == 1:
            return T.mul(args[0], args[0])
        if name == "jax.lax.cond" and len(args) >= 3:
            pred, f, g = args[0], args[1], args[2]
            ops = args[3:]
            out = {}
            self._branch(pred, lambda: out.__setitem__("a", self.call(f, list(ops), [], node, frame)),
                         lambda: out.__setitem__("b", self.call(g, list(ops), [], node, frame)), frame)
            self.emit("call", "jax.lax.cond", pred, node, frame, args=tuple(args))
            return T.mk_ite(pred, out.get("a", T.NONE), out.get("b", T.NONE))
        if name == "jax.tree_util.tree_map" and len(args) >= 2 and args[0][0] == "ite" and args[0][2][0] in ("closure", "sym", "attr") and args[0][3][0] in ("closure", "sym", "attr"):
            # the mapped function is selected by a condition: map with each and merge
            cnd, fa, fb = args[0][1], args[0][2], args[0][3]
            out = {}
            self._branch(cnd, lambda: out.__setitem__("a", self.interpret(name, fterm, [fa] + list(args[1:]), kwargs, node, frame, recv, method)),
                         lambda: out.__setitem__("b", self.interpret(name, fterm, [fb] + list(args[1:]), kwargs, node, frame, recv, method)), frame)
            a_, b_ = out.get("a", T.NONE), out.get("b", T.NONE)
            if a_[0] == "list" and b_[0] == "list" and len(a_[1]) == len(b_[1]):
                return ("list", tuple(T.mk_ite(cnd, x, y) for x, y in zip(a_[1], b_[1])))
            return T.mk_ite(cnd, a_, b_)
        if name == "jax.tree_util.tree_map" and len(args) >= 2 and args[0][0] in ("closure", "sym", "attr"):
            # leafwise application: the identity on leaves is what the algebraic rules need
            fn = args[0]

            def apply(leaves):
                if fn[0] == "closure":
                    return self.call(fn, leaves, [], node, frame)
                # a function / bound method given by reference
                if fn[0] == "sym" and "." in fn[1]:
                    return self.call(fn, leaves, [], node, frame, recv=T.sym(fn[1].rsplit(".", 1)[0]), method=fn[1].rsplit(".", 1)[1])
                if fn[0] == "attr":
                    return self.call(fn, leaves, [], node, frame, recv=fn[1], method=fn[2])
                return self.call(fn, leaves, [], node, frame)
            trees = list(args[1:])
            for kind in ("list", "tuple"):
                # a literal list / tuple of trees is mapped component by component (same structure in every argument)
                if all(t[0] == kind for t in trees) and len({len(t[1]) for t in trees}) == 1 and not any(x[0] == "star" for t in trees for x in t[1]):
                    return (kind, tuple(apply([t[1][i] for t in trees]) for i in range(len(trees[0][1]))))
            return apply(trees)
        if name == "functools.partial" and len(args) >= 1:
            u = self.uid()
            self.closures[u] = Closure(u, "partial", inner=args[0], bound_args=tuple(args[1:]),
                                       bound_kwargs=tuple(kwargs), qualname=self.fname(args[0]) if args[0][0] in (
                                           "sym", "attr") else "partial")
            return ("closure", u)
        if name == "jax.lax.dynamic_slice_in_dim" and 3 <= len(args) <= 4 and not (set(kw) - {"axis"}):
            # dynamic_slice_in_dim(x, start, size, axis=0) is dynamic_slice(x, [start], [size]) in the leading axis (the other
            # axes are taken whole: the form the repository writes as [start] + [0]*k, [size] + shape[1:])
            ax = args[3] if len(args) == 4 else kw.get("axis", T.ZERO)
            if T.const_value(ax) == 0:
                t = T.mk_call("jax.lax.dynamic_slice", [args[0], ("list", (args[1],)), ("list", (args[2],))], [], None)
                self.emit("call", "jax.lax.dynamic_slice", t, node, frame, args=(args[0], ("list", (args[1],)), ("list", (args[2],))), kwargs=())
                return t
        if name in ("jax.jit", "jax.vmap", "equinox.filter_vmap", "equinox.filter_jit") and len(args) >= 1:
            u = self.uid()
            self.closures[u] = Closure(u, "wrap", inner=args[0], qualname=name, wrap=name)
            return ("closure", u)
        if name in ("jax.lax.scan",) and len(args) >= 2:
            f, init = args[0], args[1]
            xs = args[2] if len(args) > 2 else kw.get("xs", T.NONE)
            lid = self.uid()
            self.loop_stack = self.loop_stack + (lid,)
            carry = T.sym(f"scan{lid}:carry")
            r = self.call(f, [carry, ("elem", xs, lid)], [], node, frame)
            self.loop_stack = self.loop_stack[:-1]
            self.loops[lid] = LoopInfo(lid, "scan", xs, None, {"carry": carry, "init": init}, {"result": r}, None, node,
                                       self.live)
            t = T.mk_call("jax.lax.scan", [T.sym(f"scan{lid}")], [], None)
            self.emit("call", name, t, node, frame, args=tuple(args), kwargs=tuple(kwargs))
            return ("tuple", (T.mk_index(t, T.const(0)), T.mk_index(t, T.const(1))))
        if name == "jax.lax.fori_loop" and len(args) >= 4:
            f, init = args[2], args[3]
            lid = self.uid()
            self.loop_stack = self.loop_stack + (lid,)
            carry = T.sym(f"fori{lid}:carry")
            r = self.call(f, [T.sym(f"fori{lid}:i"), carry], [], node, frame)
            self.loop_stack = self.loop_stack[:-1]
            self.loops[lid] = LoopInfo(lid, "scan", None, None, {"carry": carry, "init": init}, {"result": r}, None, node,
                                       self.live)
            t = T.mk_call("jax.lax.fori_loop", [T.sym(f"fori{lid}")], [], None)
            self.emit("call", name, t, node, frame, args=tuple(args), kwargs=tuple(kwargs))
            return t
        if method == "replace" and recv is not None and not args and all(k != "**" for k, _ in kwargs) \
                and not (recv[0] == "sym" and recv[1].startswith(("jax", "numpy", "str"))):
            return T.mk_replace(recv, tuple(kwargs))
        if name == "isinstance" and len(args) == 2:
            return T.mk_call("isinstance", args, [], None)
        return None


def canon_iter(it: Term):
    """Iteration over `d.values()` / `d.keys()` is iteration over `d.items()` projected to component 1 / 0: one normal form for
    the three spellings.  Returns (iterable, projection or None)."""
    if it[0] == "call" and not it[2] and not it[3]:
        f = it[1]
        for meth, proj in (("values", 1), ("keys", 0)):
            if isinstance(f, str) and f.endswith("." + meth):
                return ("call", f[:-len(meth)] + "items", (), (), it[4]), proj
            if isinstance(f, tuple) and f[0] == "attr" and f[2] == meth:
                return ("call", ("attr", f[1], "items"), (), (), it[4]), proj
    return it, None


_SEQ_ATTRS = ("action", "observation")


def _seq_like(v: Term) -> bool:
    """Terms known to be lists / deques: event queues (q_*, _q_*), the synchronizer's action / observation deques, local list
    literals, accumulations, list comprehensions and the results of sorted() / list()."""
    if v[0] in ("list", "accum") or (v[0] == "comp" and v[1] in ("list", "set", "dict")):
        return True
    if v[0] == "sym":
        last = v[1].rsplit(".", 1)[-1]
        return last.startswith(("q_", "_q_")) or (last in _SEQ_ATTRS and "." in v[1])
    if v[0] == "attr":
        return v[2].startswith(("q_", "_q_")) or v[2] in _SEQ_ATTRS
    if v[0] == "call" and isinstance(v[1], str) and v[1] in ("sorted", "list", "collections.deque"):
        return True
    if v[0] == "index" and v[2] == T.ZERO and v[1][0] == "call" and T.call_name(v[1]) == "jax.tree_util.tree_flatten":
        return True  # the list of leaves of a pytree
    return False


def _fixed_dtype(t: Term) -> bool:
    """dtype arguments that the transparent-cast assumption (H4) covers: literal dtypes and the dtype-restoration idiom x.dtype."""
    if t[0] == "sym":
        return True  # float, int, jax.numpy.float32, numpy.int32, a parameter named dtype, x.dtype (collapsed attribute chain)
    if t[0] == "attr" and t[2] == "dtype":
        return True
    if t[0] == "const":
        return True
    if t[0] == "call" and T.call_name(t) in ("jax.dtypes.canonicalize_dtype", "numpy.dtype", "jax.numpy.dtype") and len(t[2]) == 1:
        return _fixed_dtype(t[2][0])
    return False


def _acc_join(a: Term, b: Term) -> Optional[Term]:
    """phi of a local list that one branch appended to: the items carry their own guards, so the longer accumulation is
    the merged value (instead of ite(cond, longer, shorter))."""
    def parts(t):
        if t[0] == "list":
            return t, ()
        if t[0] == "accum":
            return t[1], t[2]
        return None
    pa, pb = parts(a), parts(b)
    if pa is None or pb is None or pa[0] != pb[0] or (not pa[1] and not pb[1]):
        return None
    short, long_ = (pa, pb) if len(pa[1]) <= len(pb[1]) else (pb, pa)
    if long_[1][:len(short[1])] != short[1]:
        return None
    return ("accum", long_[0], long_[1])


def _acc_append(t: Term, item) -> Optional[Term]:
    if t[0] == "list" or t == ("call", "set", (), (), None):
        return ("accum", t, (item,))
    if t[0] == "accum":
        return ("accum", t[1], t[2] + (item,))
    if t[0] == "ite":
        a, b = _acc_append(t[2], item), _acc_append(t[3], item)
        if a is None or b is None:
            return None
        return ("ite", t[1], a, b)
    return None


def _arith_ok(t: Term) -> bool:
    return t[0] not in ("list", "tuple", "dict", "comp", "star", "closure") and not (
        t[0] == "const" and not isinstance(t[1], bool) and t[1] is not None and isinstance(t[1], str))


def merge_returns(returns: List[Tuple[Term, Term]]) -> Term:
    if not returns:
        return T.NONE
    r = returns[-1][1]
    for g, v in reversed(returns[:-1]):
        r = T.mk_ite(g, v, r)
    return r


_REDUCTIONS = {f"{mod}.{f}": {"amax": "max", "amin": "min"}.get(f, f) for mod in ("jax.numpy", "numpy")
               for f in ("max", "min", "amax", "amin", "sum", "mean", "std", "var", "prod", "argmax", "argmin")}
_OPERATOR_FUNCS = {"operator.gt": ast.Gt, "operator.ge": ast.GtE, "operator.lt": ast.Lt, "operator.le": ast.LtE, "operator.eq": ast.Eq,
                   "operator.ne": ast.NotEq, "operator.add": ast.Add, "operator.sub": ast.Sub, "operator.mul": ast.Mult,
                   "operator.truediv": ast.Div, "operator.is_": ast.Is, "operator.is_not": ast.IsNot}


_GEN_CACHE: Dict[int, list] = {}


def _generator_as_list(fn: ast.FunctionDef) -> list:
    """Body of a function; for a generator function, the body of the function that returns the list of the yielded values (what
    iterating over the generator produces, in order): `yield v` becomes an append to a fresh local list that is returned."""
    def own(n):
        stack = list(n.body)
        while stack:
            x = stack.pop()
            if isinstance(x, (ast.FunctionDef, ast.AsyncFunctionDef, ast.Lambda, ast.ClassDef)):
                continue
            yield x
            stack.extend(ast.iter_child_nodes(x))
    if not any(isinstance(x, (ast.Yield, ast.YieldFrom)) for x in own(fn)):
        return fn.body
    if id(fn) in _GEN_CACHE:
        return _GEN_CACHE[id(fn)]
    import copy

    class Rw(ast.NodeTransformer):
        def visit_FunctionDef(self, node):
            return node

        def visit_Lambda(self, node):
            return node

        def visit_Expr(self, node):
            v = node.value
            if isinstance(v, ast.Yield):
                call = ast.Expr(value=ast.Call(func=ast.Attribute(value=ast.Name(id="__yielded", ctx=ast.Load()), attr="append", ctx=ast.Load()),
                                               args=[v.value if v.value is not None else ast.Constant(value=None)], keywords=[]))
                return ast.copy_location(call, node)
            if isinstance(v, ast.YieldFrom):
                call = ast.Expr(value=ast.Call(func=ast.Attribute(value=ast.Name(id="__yielded", ctx=ast.Load()), attr="extend", ctx=ast.Load()), args=[v.value], keywords=[]))
                return ast.copy_location(call, node)
            return node
    body = [Rw().visit(copy.deepcopy(st)) for st in fn.body]
    init = ast.copy_location(ast.Assign(targets=[ast.Name(id="__yielded", ctx=ast.Store())], value=ast.List(elts=[], ctx=ast.Load())), fn.body[0])
    ret = ast.copy_location(ast.Return(value=ast.Name(id="__yielded", ctx=ast.Load())), fn.body[-1])
    out = [init] + body + [ret]
    for st in out:
        ast.fix_missing_locations(st)
    _GEN_CACHE[id(fn)] = out
    return out


def _search_loop(loop: ast.For, after: ast.stmt):
    """The `return any(...)` / `return all(...)` statement a search loop with early return abbreviates, or None."""
    if loop.orelse or len(loop.body) != 1 or not isinstance(loop.body[0], ast.If) or loop.body[0].orelse or len(loop.body[0].body) != 1:
        return None
    r_in = loop.body[0].body[0]
    if not (isinstance(r_in, ast.Return) and isinstance(r_in.value, ast.Constant) and isinstance(r_in.value.value, bool)
            and isinstance(after, ast.Return) and isinstance(after.value, ast.Constant) and after.value.value is (not r_in.value.value)):
        return None
    test = loop.body[0].test
    if any(isinstance(n, (ast.Call, ast.NamedExpr, ast.Await)) and not (isinstance(n, ast.Call) and isinstance(n.func, ast.Name) and n.func.id in ("len", "isinstance", "bool"))
           for n in ast.walk(test)):
        return None
    elt = test if r_in.value.value else ast.UnaryOp(op=ast.Not(), operand=test)
    comp = ast.ListComp(elt=elt, generators=[ast.comprehension(target=loop.target, iter=loop.iter, ifs=[], is_async=0)])
    ret = ast.Return(value=ast.Call(func=ast.Name(id="any" if r_in.value.value else "all", ctx=ast.Load()), args=[comp], keywords=[]))
    ast.copy_location(ret, loop)
    ast.fix_missing_locations(ret)
    return ret


def _grown_and_read(body) -> set:
    """Names X with `X.append(..)` / `.extend` / `.add` / `.insert` in the statements and another read of X in them."""
    grown, recv_nodes = set(), set()
    for s_ in body:
        for n in ast.walk(s_):
            if isinstance(n, ast.Call) and isinstance(n.func, ast.Attribute) and n.func.attr in ("append", "extend", "add", "insert", "appendleft") and isinstance(n.func.value, ast.Name):
                grown.add(n.func.value.id)
                recv_nodes.add(id(n.func.value))
    read = set()
    for s_ in body:
        for n in ast.walk(s_):
            if isinstance(n, ast.Name) and isinstance(n.ctx, ast.Load) and n.id in grown and id(n) not in recv_nodes:
                read.add(n.id)
    return read


def _kw_literal(v: Term):
    """[(name, value)] if v is a literal keyword dictionary - {"a": x} / dict(a=x) - or a conditional choice between two with the same
    names (then each value is the conditional choice), else None."""
    if v[0] == "dict" and v[1] and all(kk[0] == "const" and isinstance(kk[1], str) for kk, _ in v[1]):
        return [(kk[1], vv) for kk, vv in v[1]]
    if v[0] == "call" and v[1] == "dict" and not v[2] and v[3] and all(kk != "**" for kk, _ in v[3]):
        return list(v[3])
    if v[0] == "ite":
        a, b = _kw_literal(v[2]), _kw_literal(v[3])
        if a is not None and b is not None and sorted(k for k, _ in a) == sorted(k for k, _ in b):
            db = dict(b)
            return [(k, T.mk_ite(v[1], x, db[k])) for k, x in a]
    return None


def _without_continue(body):
    """The loop body with every top-level guard `if c: ...; continue` turned into `if c: ... else: <rest of the body>`; None if a
    `continue` sits anywhere else (nested deeper, in a loop, in a try)."""
    if not any(isinstance(n, ast.Continue) for s_ in body for n in ast.walk(s_)):
        return body
    out = []
    for k, s_ in enumerate(body):
        if isinstance(s_, ast.If) and not s_.orelse and s_.body and isinstance(s_.body[-1], ast.Continue) \
                and not any(isinstance(n, ast.Continue) for b_ in s_.body[:-1] for n in ast.walk(b_)) and not any(isinstance(n, ast.Continue) for n in ast.walk(s_.test)):
            rest = _without_continue(body[k + 1:])
            if rest is None:
                return None
            new = ast.If(test=s_.test, body=list(s_.body[:-1]) or [ast.copy_location(ast.Pass(), s_)], orelse=list(rest))
            ast.copy_location(new, s_)
            out.append(new)
            return out
        if any(isinstance(n, ast.Continue) for n in ast.walk(s_)):
            return None
        out.append(s_)
    return out


def _concat_parts(t: Term):
    """The operands if t is a `+` of lists that the arithmetic normal form turned into a sum of atoms (at least one of them a
    comprehension / list, every coefficient and exponent 1, no constant), else None."""
    if t[0] != "num" or t[2] != T.POLY_ONE or len(t[1]) < 2:
        return None
    parts = []
    for mono, coef in t[1]:
        if coef != 1 or len(mono) != 1 or mono[0][1] != 1:
            return None
        parts.append(mono[0][0])
    if not any(p[0] in ("comp", "list", "accum") or (p[0] == "call" and p[1] == "+") for p in parts):
        return None
    return parts


def _ite_tuple_leaves(t: Term):
    return _ite_tuple_leaves(t[2]) + _ite_tuple_leaves(t[3]) if t[0] == "ite" else [t]


def _countdown_while_as_for(st: ast.While):
    """`while n > 0: n -= 1; body` (or with the decrement last; n not used otherwise in the body, no break / continue / else) runs the body
    n times: `for _ in range(n): body`, followed by `n = min(n, 0)`.  Returns the two statements or None."""
    t = st.test
    if st.orelse or len(st.body) < 2 or not (isinstance(t, ast.Compare) and len(t.ops) == 1 and isinstance(t.ops[0], ast.Gt) and isinstance(t.left, ast.Name)
                                            and isinstance(t.comparators[0], ast.Constant) and t.comparators[0].value == 0 and not isinstance(t.comparators[0].value, bool)):
        return None
    n = t.left.id

    def dec(s_):
        return isinstance(s_, ast.AugAssign) and isinstance(s_.target, ast.Name) and s_.target.id == n and isinstance(s_.op, ast.Sub) and isinstance(s_.value, ast.Constant) and s_.value.value == 1
    if dec(st.body[0]):
        body = st.body[1:]
    elif dec(st.body[-1]):
        body = st.body[:-1]
    else:
        return None
    for x in [x for s_ in body for x in ast.walk(s_)]:
        if isinstance(x, (ast.Break, ast.Continue, ast.Return)) or (isinstance(x, ast.Name) and x.id == n):
            return None
    f = ast.For(target=ast.Name(id=f"__{n}_left", ctx=ast.Store()), iter=ast.Call(func=ast.Name(id="range", ctx=ast.Load()), args=[ast.Name(id=n, ctx=ast.Load())], keywords=[]),
                body=body, orelse=[])
    after = ast.Assign(targets=[ast.Name(id=n, ctx=ast.Store())], value=ast.Call(func=ast.Name(id="min", ctx=ast.Load()), args=[ast.Name(id=n, ctx=ast.Load()), ast.Constant(value=0)], keywords=[]))
    for x in (f, after):
        ast.copy_location(x, st)
        ast.fix_missing_locations(x)
    return [f, after]


def _counter_while_as_for(st: ast.While, frame):
    """The `for i in range(a, n)` loop a counting while loop abbreviates (i = a before it, `while i < n`, `i += 1` as last statement, i not
    assigned elsewhere in the body, no continue / else), or None."""
    t = st.test
    down = _descending_while_as_for(st, frame)
    if down is not None:
        return down
    if st.orelse or not (isinstance(t, ast.Compare) and len(t.ops) == 1 and isinstance(t.ops[0], ast.Lt) and isinstance(t.left, ast.Name)) or not st.body:
        return None
    i = t.left.id
    last = st.body[-1]
    if not (isinstance(last, ast.AugAssign) and isinstance(last.target, ast.Name) and last.target.id == i and isinstance(last.op, ast.Add)
            and isinstance(last.value, ast.Constant) and last.value.value == 1):
        return None
    body = st.body[:-1]
    if not body:
        return None
    bound_names = {n.id for n in ast.walk(t.comparators[0]) if isinstance(n, ast.Name)}
    for n in [x for s_ in body for x in ast.walk(s_)]:
        if isinstance(n, (ast.Continue,)) or (isinstance(n, ast.Name) and isinstance(n.ctx, (ast.Store, ast.Del)) and (n.id == i or n.id in bound_names)):
            return None
        if isinstance(n, ast.Call) and any(isinstance(m, ast.Name) and m.id in bound_names for m in ast.walk(n.func)) and isinstance(n.func, ast.Attribute) \
                and n.func.attr in ("append", "pop", "popleft", "extend", "clear", "add", "remove"):
            return None
    pre = frame.lookup(i)
    c = T.const_value(pre) if pre is not None else None
    if c is None or c.denominator != 1:
        return None
    f = ast.For(target=ast.Name(id=i, ctx=ast.Store()), iter=ast.Call(func=ast.Name(id="range", ctx=ast.Load()),
                                                                      args=([ast.Constant(value=int(c))] if int(c) != 0 else []) + [t.comparators[0]], keywords=[]),
                body=body, orelse=[])
    ast.copy_location(f, st)
    ast.fix_missing_locations(f)
    return f


def _index_loop_as_zip(st: ast.For, frame=None, ev=None):
    """`for i in range(min(len(A), len(B), ..)): ... A[i] ... B[i] ...` (i used only to subscript those sequences, which the body does
    not rebind) is `for a, b, .. in zip(A, B, ..)` - zip stops at the shortest; with one sequence, `for a in A`."""
    it = st.iter
    if st.orelse or not (isinstance(st.target, ast.Name) and isinstance(it, ast.Call) and isinstance(it.func, ast.Name) and it.func.id == "range" and len(it.args) == 1 and not it.keywords):
        return None

    def len_of(c):
        return c.args[0] if isinstance(c, ast.Call) and isinstance(c.func, ast.Name) and c.func.id == "len" and len(c.args) == 1 and not c.keywords else None
    a = it.args[0]
    if isinstance(a, ast.Name) and frame is not None and frame.lookup(a.id) is not None and frame.lookup(a.id)[0] != "const":
        # the bound computed beforehand (n = min(len(A), len(B)); for i in range(n)): the sequences are those the body subscripts
        # with i, provided the bound is exactly the shortest of their lengths
        i_ = st.target.id
        cands = []
        for n in [x for s_ in st.body for x in ast.walk(s_)]:
            if isinstance(n, ast.Subscript) and isinstance(n.ctx, ast.Load) and isinstance(n.slice, ast.Name) and n.slice.id == i_ and isinstance(n.value, (ast.Name, ast.Attribute)) \
                    and ast.dump(n.value) not in [ast.dump(c) for c in cands]:
                cands.append(n.value)
        if not cands or any(isinstance(m, ast.Name) and m.id == a.id and isinstance(m.ctx, ast.Store) for s_ in st.body for m in ast.walk(s_)):
            return None
        want = T.mk_min([T.mk_call("len", [ev.eval(c, frame)]) for c in cands]) if len(cands) > 1 else T.mk_call("len", [ev.eval(cands[0], frame)])
        if frame.lookup(a.id) != want:
            return None
        seqs = cands
    elif len_of(a) is not None:
        seqs = [len_of(a)]
    elif isinstance(a, ast.Call) and isinstance(a.func, ast.Name) and a.func.id == "min" and len(a.args) >= 2 and not a.keywords and all(len_of(x) is not None for x in a.args):
        seqs = [len_of(x) for x in a.args]
    else:
        return None
    def indexed_as(x):
        # what the body subscripts with i for this sequence: the sequence itself, or - for a prefix slice X[:k] - X (same items below the bound)
        if isinstance(x, ast.Subscript) and isinstance(x.slice, ast.Slice) and x.slice.lower is None and x.slice.step is None and isinstance(x.value, (ast.Name, ast.Attribute)):
            return x.value
        return x if isinstance(x, (ast.Name, ast.Attribute)) else None
    if not all(indexed_as(x) is not None for x in seqs):
        return None
    i = st.target.id
    dumps = [ast.dump(indexed_as(x)) for x in seqs]
    if len(set(dumps)) != len(dumps):
        return None
    import copy
    body = copy.deepcopy(st.body)
    subs = {}
    for s_ in body:
        for n in ast.walk(s_):
            if isinstance(n, ast.Subscript) and isinstance(n.ctx, ast.Load) and isinstance(n.slice, ast.Name) and n.slice.id == i and ast.dump(n.value) in dumps:
                subs[id(n.slice)] = dumps.index(ast.dump(n.value))
    if not subs:
        return None
    roots = {n.id for x in seqs for n in ast.walk(x) if isinstance(n, ast.Name)}
    for n in [x for s_ in body for x in ast.walk(s_)]:
        if isinstance(n, ast.Name) and n.id == i and id(n) not in subs:
            return None
        if isinstance(n, ast.Name) and n.id in roots and isinstance(n.ctx, (ast.Store, ast.Del)):
            return None
    names = [f"__{i}_item{k}" for k in range(len(seqs))]

    class _R(ast.NodeTransformer):
        def visit_Subscript(self, n):
            if id(n.slice) in subs:
                return ast.copy_location(ast.Name(id=names[subs[id(n.slice)]], ctx=ast.Load()), n)
            return self.generic_visit(n)
    new_body = [_R().visit(s_) for s_ in body]
    if len(seqs) == 1:
        target, src = ast.Name(id=names[0], ctx=ast.Store()), seqs[0]
    else:
        target = ast.Tuple(elts=[ast.Name(id=nm, ctx=ast.Store()) for nm in names], ctx=ast.Store())
        src = ast.Call(func=ast.Name(id="zip", ctx=ast.Load()), args=list(seqs), keywords=[])
    f = ast.For(target=target, iter=src, body=new_body, orelse=[])
    ast.copy_location(f, st)
    ast.fix_missing_locations(f)
    return f


def _memoised(target) -> bool:
    for d in target.node.decorator_list:
        nm = _dotted(d.func if isinstance(d, ast.Call) else d) or ""
        if nm.split(".")[-1] in ("lru_cache", "cache", "cached_property", "memoize", "memoise"):
            return True
    return False


def _takewhile_count(e: ast.Call):
    """(p, xs) if e is `sum(1 for _ in itertools.takewhile(p, xs))` or `len(list(itertools.takewhile(p, xs)))`, else None."""
    def tw(c):
        if isinstance(c, ast.Call) and len(c.args) == 2 and not c.keywords and (_dotted(c.func) or "").split(".")[-1] == "takewhile":
            return c.args[0], c.args[1]
        return None
    if not (isinstance(e.func, ast.Name) and len(e.args) == 1 and not e.keywords):
        return None
    a = e.args[0]
    if e.func.id == "sum" and isinstance(a, ast.GeneratorExp) and isinstance(a.elt, ast.Constant) and a.elt.value == 1 and len(a.generators) == 1 \
            and not a.generators[0].ifs and isinstance(a.generators[0].target, ast.Name):
        return tw(a.generators[0].iter)
    if e.func.id == "len" and isinstance(a, ast.Call) and isinstance(a.func, ast.Name) and a.func.id in ("list", "tuple") and len(a.args) == 1 and not a.keywords:
        return tw(a.args[0])
    return None


def _manual_counter_as_enumerate(st: ast.For, frame):
    """`i = c; for x in xs: body; i += 1` (the increment the last statement of the body, i not assigned elsewhere in it, no continue)
    is `for i, x in enumerate(xs, c): body`, followed by `i = c + len(xs)`.  Returns (the for loop, the assignment after it) or None."""
    if st.orelse or len(st.body) < 2:
        return None
    last = st.body[-1]
    if not (isinstance(last, ast.AugAssign) and isinstance(last.target, ast.Name) and isinstance(last.op, ast.Add) and isinstance(last.value, ast.Constant) and last.value.value == 1):
        return None
    i = last.target.id
    if any(isinstance(n, ast.Name) and n.id == i for n in ast.walk(st.target)) or any(isinstance(n, ast.Name) and n.id == i for n in ast.walk(st.iter)):
        return None
    body = st.body[:-1]
    for n in [x for s_ in body for x in ast.walk(s_)]:
        if isinstance(n, (ast.Continue, ast.Break)) or (isinstance(n, ast.Name) and n.id == i and isinstance(n.ctx, (ast.Store, ast.Del))):
            return None
    pre = frame.lookup(i)
    c = T.const_value(pre) if pre is not None else None
    if c is None or c.denominator != 1:
        return None
    en = ast.Call(func=ast.Name(id="enumerate", ctx=ast.Load()), args=[st.iter] + ([ast.Constant(value=int(c))] if int(c) != 0 else []), keywords=[])
    f = ast.For(target=ast.Tuple(elts=[ast.Name(id=i, ctx=ast.Store()), st.target], ctx=ast.Store()), iter=en, body=body, orelse=[])
    after = ast.Assign(targets=[ast.Name(id=i, ctx=ast.Store())],
                       value=ast.BinOp(left=ast.Constant(value=int(c)), op=ast.Add(), right=ast.Call(func=ast.Name(id="len", ctx=ast.Load()), args=[st.iter], keywords=[])))
    for n_ in (f, after):
        ast.copy_location(n_, st)
        ast.fix_missing_locations(n_)
    return f, after


def _descending_while_as_for(st: ast.While, frame):
    """`i = len(X) - 1; while i >= 0: ... X[i] ...; i -= 1` (i used only to subscript X) is `for x in X[::-1]: ... x ...`."""
    t = st.test
    if st.orelse or not st.body or not (isinstance(t, ast.Compare) and len(t.ops) == 1 and isinstance(t.left, ast.Name) and isinstance(t.comparators[0], (ast.Constant, ast.UnaryOp))):
        return None
    try:
        bound = ast.literal_eval(t.comparators[0])
    except ValueError:
        return None
    if not ((isinstance(t.ops[0], ast.GtE) and bound == 0) or (isinstance(t.ops[0], ast.Gt) and bound == -1)):
        return None
    i = t.left.id
    last = st.body[-1]
    if not (isinstance(last, ast.AugAssign) and isinstance(last.target, ast.Name) and last.target.id == i and isinstance(last.op, ast.Sub)
            and isinstance(last.value, ast.Constant) and last.value.value == 1):
        return None
    import copy
    body = copy.deepcopy(st.body[:-1])  # (rewritten below; the function's own tree stays as it is)
    if not body:
        return None
    subs = {id(n.slice): n for s_ in body for n in ast.walk(s_) if isinstance(n, ast.Subscript) and isinstance(n.ctx, ast.Load) and isinstance(n.slice, ast.Name) and n.slice.id == i
            and isinstance(n.value, ast.Name)}
    seqs = {n.value.id for n in subs.values()}
    if len(seqs) != 1:
        return None
    X = next(iter(seqs))
    for n in [x for s_ in body for x in ast.walk(s_)]:
        if isinstance(n, (ast.Continue, ast.Break)):
            return None
        if isinstance(n, ast.Name) and n.id == i and id(n) not in subs:
            return None
        if isinstance(n, ast.Name) and n.id == X and isinstance(n.ctx, (ast.Store, ast.Del)):
            return None
        if isinstance(n, ast.Call) and isinstance(n.func, ast.Attribute) and isinstance(n.func.value, ast.Name) and n.func.value.id == X \
                and n.func.attr in ("append", "pop", "popleft", "extend", "clear", "insert", "remove", "sort", "reverse"):
            return None
    pre, xs = frame.lookup(i), frame.lookup(X)
    if pre is None or xs is None or pre != T.sub(T.mk_call("len", [xs]), T.ONE):
        return None
    el = f"__{i}_item"

    class _R(ast.NodeTransformer):
        def visit_Subscript(self, n):
            if id(n.slice) in subs:
                return ast.copy_location(ast.Name(id=el, ctx=ast.Load()), n)
            return self.generic_visit(n)
    new_body = []
    for s_ in body:
        new_body.append(_R().visit(s_))
    f = ast.For(target=ast.Name(id=el, ctx=ast.Store()),
                iter=ast.Subscript(value=ast.Name(id=X, ctx=ast.Load()), slice=ast.Slice(lower=None, upper=None, step=ast.UnaryOp(op=ast.USub(), operand=ast.Constant(value=1))), ctx=ast.Load()),
                body=new_body, orelse=[])
    ast.copy_location(f, st)
    ast.fix_missing_locations(f)
    return f


def _queue_of_entry(t: Term) -> Optional[str]:
    """name of the queue attribute if t is an entry taken from / peeked in a queue: <x>.<q>.popleft() / .pop() / <x>.<q>[i]"""
    if t[0] == "call" and not t[2] and isinstance(t[1], str) and t[1].rsplit(".", 1)[-1] in ("popleft", "pop") and t[1].count(".") >= 2:
        return t[1].rsplit(".", 2)[-2]
    if t[0] == "call" and not t[2] and isinstance(t[1], tuple) and t[1][0] == "attr" and t[1][2] in ("popleft", "pop"):
        b = t[1][1]
        return b[2] if b[0] == "attr" else (b[1].rsplit(".", 1)[-1] if b[0] == "sym" else None)
    if t[0] == "index":
        b = t[1]
        return b[2] if b[0] == "attr" else (b[1].rsplit(".", 1)[-1] if b[0] == "sym" and "." in b[1] else None)
    return None


def _is_keys_view(t: Term) -> bool:
    return t[0] == "call" and not t[2] and not t[3] and ((isinstance(t[1], str) and t[1].endswith(".keys")) or (isinstance(t[1], tuple) and t[1][0] == "attr" and t[1][2] == "keys"))


def _never_mutated(tree: ast.Module, name: str) -> bool:
    """No statement anywhere in the module stores into `name[...]`, rebinds it a second time or calls a mutating method on it."""
    binds = 0
    for n in ast.walk(tree):
        if isinstance(n, ast.Name) and n.id == name and isinstance(n.ctx, (ast.Store, ast.Del)):
            binds += 1
        if isinstance(n, ast.Subscript) and isinstance(n.ctx, (ast.Store, ast.Del)) and isinstance(n.value, ast.Name) and n.value.id == name:
            return False
        if isinstance(n, ast.Call) and isinstance(n.func, ast.Attribute) and isinstance(n.func.value, ast.Name) and n.func.value.id == name \
                and n.func.attr in ("update", "pop", "popitem", "clear", "setdefault", "__setitem__", "__delitem__", "append", "extend", "insert", "remove", "sort", "reverse"):
            return False
        if isinstance(n, ast.Global) and name in n.names:
            return False
    return binds == 1


def _fuse_source(it: Term):
    """Iterating over `[g(x) for x in A if c(x)]` is iterating over A under c(x) with the loop variable bound to g(x) (map fusion).
    Returns (A, g-template, the inner element term or None, conditions) or None."""
    if it[0] == "call" and not it[2] and not it[3] and isinstance(it[1], tuple) and it[1][0] == "attr" and it[1][2] in ("items", "values", "keys") \
            and it[1][1][0] == "comp" and it[1][1][1] == "dict" and len(it[1][1][3]) == 1 and it[1][1][2][0] == "tuple" and len(it[1][1][2][1]) == 2:
        # {k(x): v(x) for x in A if c(x)}.items() / .values() / .keys(): the same, with the loop variable bound to (k, v) / v / k (the keys of a
        # table filled once per element are taken to be distinct, as for the table itself)
        d = it[1][1]
        k_, v_ = d[2][1]
        # only if the keys are distinct by construction - the source's own key (k of `for k, v in A.items()`) or its element (of a set / range /
        # the keys of a mapping); a table keyed by something computed from the element may merge entries and is not the list of its items
        src_ = d[3][0][1]
        own_keys = [T.mk_index(("elem", src_, u), T.ZERO) for u in {x[2] for x in T.walk(k_) if x[0] == "elem" and x[1] == src_}] if T.call_name(src_).endswith(".items") else []
        own_elems = [x for x in T.walk(k_) if x[0] == "elem" and x[1] == src_] if (src_[0] == "call" and src_[1] in ("range", "set")) else []
        if not (k_ in own_keys or k_ in own_elems):
            return None
        tmpl = {"items": ("tuple", (k_, v_)), "values": v_, "keys": k_}[it[1][2]]
        it = ("comp", "list", tmpl, d[3], d[4])
    if not (it[0] == "comp" and it[1] in ("list", "gen") and len(it[3]) == 1):
        return None
    inner_it = it[3][0][1]
    xs = {x for src in (it[2],) + tuple(it[4]) for x in T.walk(src) if x[0] == "elem" and x[1] == inner_it}
    if len(xs) > 1:
        return None
    return inner_it, it[2], (next(iter(xs)) if xs else None), it[4]


def _filtered_sublist(t: Term):
    """len([x for x in it if F]) -> (comprehension, F): the length of a filtered copy of a collection counts the elements satisfying F."""
    if not (t[0] == "call" and t[1] == "len" and len(t[2]) == 1 and not t[3]):
        return None
    c = t[2][0]
    if not (c[0] == "comp" and c[1] == "list" and len(c[3]) == 1 and c[4]):
        return None
    elt, it = c[2], c[3][0][1]
    if elt[0] == "index" and elt[2] in (T.ZERO, T.ONE):
        elt = elt[1]
    if not (elt[0] == "elem" and elt[1] == it):
        return None
    return c, T.mk_and(list(c[4]))


def _count_quantifier(op, a: Term, b: Term) -> Optional[Term]:
    """Counting a filtered copy is quantifying over the collection: len(sub) == 0 is all(not F), len(sub) > 0 is any(F),
    len(sub) == len(whole) is all(F).  One normal form whichever way the code says it."""
    flip = {ast.Lt: ast.Gt, ast.Gt: ast.Lt, ast.LtE: ast.GtE, ast.GtE: ast.LtE, ast.Eq: ast.Eq, ast.NotEq: ast.NotEq}
    if type(op) not in flip:
        return None
    fa, fb = _filtered_sublist(a), _filtered_sublist(b)
    if fa is None and fb is not None:
        a, b, fa, fb, op = b, a, fb, None, flip[type(op)]()
    if fa is None or fb is not None:
        return None
    comp, F = fa
    gens = comp[3]

    def quant(q, elt):
        return T.mk_call(q, [_canon_quantified(q, ("comp", "list", elt, gens, ()))])
    if b == T.ZERO:
        if isinstance(op, (ast.Eq, ast.LtE)):
            return quant("all", T.mk_not(F))
        if isinstance(op, (ast.Gt, ast.NotEq)):
            return quant("any", F)
        return None
    if b == T.ONE and isinstance(op, ast.GtE):
        return quant("any", F)
    if b == T.ONE and isinstance(op, ast.Lt):
        return quant("all", T.mk_not(F))
    it = gens[0][1]
    if b[0] == "call" and b[1] == "len" and len(b[2]) == 1 and canon_iter(T.mk_call(T.mk_attr(b[2][0], "values"), []))[0] == it:
        if isinstance(op, ast.Eq):
            return quant("all", F)
        if isinstance(op, (ast.NotEq, ast.Lt)):
            return T.mk_not(quant("all", F))
    return None


def _canon_quantified(q: str, comp: Term) -> Term:
    """all([P for x in it if F]) == all([not F or P for x in it]): one normal form, whichever way it is written - negated disjuncts are
    filters, the others form the element; any([P for x in it if F]) == any([F and P for x in it]): everything in the element."""
    _, _, elt, gens, conds = comp
    if q == "any":
        return ("comp", "list", T.mk_and(list(conds) + [elt]), gens, ())
    dis = [T.mk_not(c) for c in conds] + (list(elt[1]) if elt[0] == "or" else [elt])
    filt = sorted({d[1] for d in dis if d[0] == "not"}, key=T.skey)
    rest = [d for d in dis if d[0] != "not"]
    return ("comp", "list", T.mk_or(rest) if rest else T.FALSE, gens, tuple(filt))


def _first_param(fn) -> Optional[str]:
    a = fn.args.posonlyargs + fn.args.args
    return a[0].arg if a else None


def _is_simple_property(fn) -> bool:
    body = [s for s in fn.body if not (isinstance(s, ast.Expr) and isinstance(s.value, ast.Constant))]
    if not body or not isinstance(body[-1], ast.Return):
        return False
    # straight-line: local bindings and nested defs before the single return
    for st in body[:-1]:
        if isinstance(st, ast.FunctionDef):
            continue
        if isinstance(st, ast.Assign) and all(isinstance(t, ast.Name) or (isinstance(t, ast.Tuple) and all(isinstance(x, ast.Name) for x in t.elts)) for t in st.targets):
            continue
        if isinstance(st, ast.AnnAssign) and isinstance(st.target, ast.Name):
            continue
        if isinstance(st, (ast.Assert, ast.Pass)) or (isinstance(st, ast.Expr) and isinstance(st.value, ast.Constant)):
            continue
        return False
    return True


def _as_load(node):
    n = ast.parse(ast.unparse(node), mode="eval").body
    ast.copy_location(n, node)
    for x in ast.walk(n):
        ast.copy_location(x, node)
    return n


def _dotted(node) -> Optional[str]:
    parts = []
    while isinstance(node, ast.Attribute):
        parts.append(node.attr)
        node = node.value
    if isinstance(node, ast.Name):
        parts.append(node.id)
        return ".".join(reversed(parts))
    return None


_CANON = {
    "jax.numpy": "jax.numpy", "numpy": "numpy", "jax.random": "jax.random",
}


def _canon_import(target: str) -> str:
    # "jax.numpy" stays, "rex.base" stays; "rex.constants.Clock" stays
    if target.startswith("jax.numpy") or target.startswith("numpy"):
        return target
    return target


class Result:
    def __init__(self, ev: SymEval, frame: Frame):
        self.ev = ev
        self.frame = frame
        self.env = frame.env
        self.heap = dict(ev.heap)
        self.events = ev.events
        self.loops = ev.loops
        self.returns = frame.returns
        self.notes = ev.notes

    @property
    def ret(self) -> Term:
        return merge_returns(self.returns)

    def attr(self, base: str, name: str) -> Term:
        b = T.sym(base)
        return self.heap.get((b, name), T.mk_attr(b, name))

    def calls(self, name: Optional[str] = None, suffix: Optional[str] = None, pred=None) -> List[Event]:
        out = []
        for e in self.events:
            if e.kind != "call":
                continue
            if name is not None and e.name != name:
                continue
            if suffix is not None and not e.name.endswith(suffix):
                continue
            if pred is not None and not pred(e):
                continue
            out.append(e)
        return out

    def stores(self, name: Optional[str] = None) -> List[Event]:
        return [e for e in self.events if e.kind in ("store_attr", "store_sub") and (name is None or e.name == name)]
