"""Self-test of the rule set: seeded variants of the *current* tree.

Each variant is a textual edit (old -> new, must match exactly once) of a file under /repo/rex applied to a
scratch copy in a temporary directory (removed afterwards).  'fire' variants break the property and must be
reported as VIOLATION (exit 1); 'silent' variants preserve behaviour and must leave the verdict at exit 0.
A variant whose 'old' text is not present any more is reported as 'stale' (the tree moved on), not as a failure.

Usage: /venv/bin/python -m rexsa.selftest [PID ...] [--jobs N] [--json out.json] [-v]
The result never influences the exit code of a property check; it is a tool for the maintainer of the rules
and is summarised in the thorough-tier evidence.
"""
from __future__ import annotations

import argparse
import concurrent.futures as cf
import importlib
import importlib.util
import json
import os
import shutil
import subprocess
import sys
import tempfile

VERIF = os.path.dirname(os.path.dirname(os.path.abspath(__file__)))


def load_variants(pids=None):
    out = []
    d = os.path.join(VERIF, "selftest")
    for fn in sorted(os.listdir(d)):
        if not fn.endswith(".py") or fn.startswith("_"):
            continue
        spec = importlib.util.spec_from_file_location(f"selftest_{fn[:-3]}", os.path.join(d, fn))
        mod = importlib.util.module_from_spec(spec)
        spec.loader.exec_module(mod)
        for v in getattr(mod, "VARIANTS", []):
            if pids and v["pid"] not in pids:
                continue
            out.append(v)
    out.extend(patch_variants(pids))
    return out


def claimed_pids():
    try:
        return [c["property_id"] for c in json.load(open(os.path.join(VERIF, "MANIFEST.json")))["checks"]]
    except (OSError, ValueError, KeyError):
        return []


def patch_variants(pids=None):
    """Whole-patch variants: behaviour-preserving refactorings written by independent agents (/verif/refactors/<name>/patch.diff,
    must stay silent for every claimed property) and confirmed property-breaking changes (/verif/seeded/<name>/, must be
    reported by the properties recorded in their meta.json)."""
    out = []
    want = list(pids) if pids else claimed_pids()
    d = os.path.join(VERIF, "refactors")
    if os.path.isdir(d):
        for name in sorted(os.listdir(d)):
            pf = os.path.join(d, name, "patch.diff")
            if os.path.exists(pf):
                # expect.json: {"<pid>": "error"} for a refactoring that is outside the code shapes a rule can read (DESIGN §12): the check
                # must then end as an analysis error (exit 2) without reporting a violation
                ef = os.path.join(d, name, "expect.json")
                special = json.load(open(ef)) if os.path.exists(ef) else {}
                for pid in want:
                    out.append(dict(id=f"{pid}-refactor-{name}", pid=pid, patch=pf, file=name, old="", new="", expect=special.get(pid, "silent"), rule=None))
    for pid in want:  # whole-tree transformations: every local variable (and every nested function) renamed
        out.append(dict(id=f"{pid}-transform-rename-locals", pid=pid, transform="rename_locals", file="rex/**", old="", new="", expect="silent", rule=None))
        out.append(dict(id=f"{pid}-transform-rename-locals-and-nested-defs", pid=pid, transform="rename_locals_defs", file="rex/**", old="", new="", expect="silent", rule=None))
        for tr in ("swap_comparisons", "ifexp_to_if", "de_morgan", "add_noise"):
            out.append(dict(id=f"{pid}-transform-{tr}", pid=pid, transform=tr, file="rex/**", old="", new="", expect="silent", rule=None))
    d = os.path.join(VERIF, "seeded")
    if os.path.isdir(d):
        for name in sorted(os.listdir(d)):
            pf, mf = os.path.join(d, name, "patch.diff"), os.path.join(d, name, "meta.json")
            if os.path.exists(pf) and os.path.exists(mf):
                rep = json.load(open(mf)).get("reported_by", {})
                for pid, rules in rep.items():
                    if pid in want:
                        out.append(dict(id=f"{pid}-seed-{name}", pid=pid, patch=pf, file=name, old="", new="", expect="fire", rule=(rules or [None])[0]))
    return out


def run_variant(v, repo="/repo"):
    tmp = tempfile.mkdtemp(prefix="rexsa_st_")
    try:
        shutil.copytree(os.path.join(repo, "rex"), os.path.join(tmp, "rex"),
                        ignore=shutil.ignore_patterns("__pycache__", "*.pyc"))
        if v.get("patch"):
            p = subprocess.run(["patch", "-p1", "-s", "-f", "-d", tmp, "-i", v["patch"]], capture_output=True, text=True)
            if p.returncode != 0:
                return dict(v=v["id"], status="stale", detail="patch does not apply to this tree")
        if v.get("transform"):
            from . import transforms
            if v["transform"].startswith("rename_locals"):
                transforms.rename_locals(tmp, defs=v["transform"].endswith("_defs"))
            else:
                getattr(transforms, v["transform"])(tmp)
        edits = [] if (v.get("patch") or v.get("transform")) else (v.get("edits") or [(v["file"], v["old"], v["new"])])
        for file, old, new in edits:
            path = os.path.join(tmp, file)
            src = open(path).read()
            n = src.count(old)
            if n == 0:
                return dict(v=v["id"], status="stale", detail=f"text not found in {file}")
            if n > 1 and not v.get("all"):
                return dict(v=v["id"], status="stale", detail=f"text matches {n} times in {file}")
            src = src.replace(old, new)
            try:
                compile(src, path, "exec")
            except SyntaxError as e:
                return dict(v=v["id"], status="bad-variant", detail=f"does not compile: {e}")
            open(path, "w").write(src)
        env = dict(os.environ, REXSA_REPO=tmp, REXSA_EVIDENCE_DIR=os.path.join(tmp, "evidence"))
        p = subprocess.run([sys.executable, "-m", "rexsa.check", v["pid"], "--tier", "quick"], cwd=VERIF, env=env,
                           capture_output=True, text=True, timeout=600)
        out = p.stdout
        viol = [l for l in out.splitlines() if "  " in l and not l.startswith(("VIOLATION", "ANALYSIS", "[", "KNOWN"))]
        expect = v["expect"]
        if expect == "fire":
            ok = p.returncode == 1
            if ok and v.get("rule"):
                ok = any(v["rule"] in l for l in out.splitlines())
        elif expect == "error":
            ok = p.returncode == 2 and not any(l.startswith("VIOLATION") for l in out.splitlines())
        else:
            ok = p.returncode == 0
        return dict(v=v["id"], status="ok" if ok else "FAIL", expect=expect, exit=p.returncode,
                    lines=[l[:300] for l in out.splitlines() if not l.startswith("[")][:8], stderr=p.stderr[-400:] if not ok else "")
    finally:
        shutil.rmtree(tmp, ignore_errors=True)


def main(argv=None):
    ap = argparse.ArgumentParser()
    ap.add_argument("pids", nargs="*")
    ap.add_argument("--jobs", type=int, default=16)
    ap.add_argument("--json", default=None)
    ap.add_argument("-v", action="store_true")
    ap.add_argument("--only", default=None)
    args = ap.parse_args(argv)
    vs = load_variants([p.upper() for p in args.pids] or None)
    if args.only:
        vs = [v for v in vs if args.only in v["id"]]
    res = []
    with cf.ThreadPoolExecutor(max_workers=args.jobs) as ex:
        for r in ex.map(run_variant, vs):
            res.append(r)
            if args.v or r["status"] != "ok":
                print(r["status"], r["v"], r.get("expect"), r.get("exit"), r.get("detail", ""))
                for l in r.get("lines", []):
                    print("    ", l)
                if r.get("stderr"):
                    print("    STDERR", r["stderr"])
    n_ok = sum(1 for r in res if r["status"] == "ok")
    print(f"selftest: {n_ok}/{len(res)} ok; " + ", ".join(f"{k}={sum(1 for r in res if r['status']==k)}" for k in ("FAIL", "stale", "bad-variant")))
    if args.json:
        json.dump(res, open(args.json, "w"), indent=1)
    return 0 if n_ok == len(res) else 1


if __name__ == "__main__":
    sys.exit(main())
