"""Ordering abstraction (A6): a predicate that only *compares* timestamps / sequence numbers is evaluated over the
finite quotient {lt, eq, gt} x boolean flags.  Each ordering class is represented by one rational valuation of
the compared atoms; because the predicate is built from comparisons and boolean connectives only, its value is
constant on each class, so the resulting truth table is exact for all real values.
"""
from __future__ import annotations

import itertools
from fractions import Fraction as F
from typing import Any, Callable, Dict, Iterable, List, Optional, Sequence, Tuple

from . import terms as T

REL = {"lt": (F(0), F(1)), "eq": (F(1), F(1)), "gt": (F(2), F(1))}  # (x, y) representatives for x REL y


class NotComparisonOnly(Exception):
    pass


def table(pred: T.Term, cases: Iterable[Tuple[Any, Dict[T.Term, Any]]]) -> Dict[Any, Optional[bool]]:
    """Evaluate `pred` for each (label, valuation). A valuation must give a value to every atom the predicate
    depends on; a missing one raises NotComparisonOnly (the obligation is UNKNOWN, never satisfied)."""
    out = {}
    for label, val in cases:
        try:
            out[label] = bool(T.evaluate(pred, val))
        except T.NoValue as e:
            raise NotComparisonOnly(str(e))
    return out


def pair_cases(x: T.Term, y: T.Term, flags: Sequence[T.Term] = (), extra: Optional[Dict[T.Term, Any]] = None):
    """Cases for one compared pair (x vs y) and boolean flags."""
    for rel, (vx, vy) in REL.items():
        for bits in itertools.product((False, True), repeat=len(flags)):
            val = {x: vx, y: vy}
            val.update(dict(zip(flags, bits)))
            if extra:
                val.update(extra)
            yield (rel,) + bits, val


def show_table(tb: Dict[Any, Optional[bool]]) -> str:
    return "{" + ", ".join(f"{k}: {int(v) if v is not None else '?'}" for k, v in tb.items()) + "}"
