"""Whole-tree behaviour-preserving source transformations used by the self-test / thorough tier (never applied to /repo itself)."""
from __future__ import annotations

import ast
import os


def rename_locals(root: str, defs: bool = False) -> int:
    """Rename every local variable (suffix _r) in all modules under <root>/rex, in place; with defs=True also nested function
    names.  Names that are parameters, module-level names, class attributes, globals/nonlocals or methods are left alone, so
    the program's behaviour and its public surface are unchanged.  Returns the number of renamed occurrences."""
    n_names = 0
    for dirpath, _, files in os.walk(os.path.join(root, "rex")):
        for f in files:
            if not f.endswith(".py"):
                continue
            p = os.path.join(dirpath, f)
            tree = ast.parse(open(p).read())
            stores, banned = set(), set()
            for n in tree.body:
                for x in ast.walk(n) if isinstance(n, (ast.Assign, ast.AnnAssign, ast.AugAssign, ast.Import, ast.ImportFrom)) else []:
                    if isinstance(x, ast.Name):
                        banned.add(x.id)
                    if isinstance(x, ast.alias):
                        banned.add((x.asname or x.name).split(".")[0])
            nested_defs = set()
            for fn in ast.walk(tree):
                if isinstance(fn, (ast.FunctionDef, ast.AsyncFunctionDef, ast.Lambda)):
                    a = fn.args
                    for arg in a.posonlyargs + a.args + a.kwonlyargs + ([a.vararg] if a.vararg else []) + ([a.kwarg] if a.kwarg else []):
                        banned.add(arg.arg)
                if isinstance(fn, (ast.FunctionDef, ast.AsyncFunctionDef, ast.ClassDef)):
                    banned.add(fn.name)
                    if isinstance(fn, ast.FunctionDef):
                        for sub in ast.walk(fn):
                            if isinstance(sub, ast.FunctionDef) and sub is not fn:
                                nested_defs.add(sub.name)
                if isinstance(fn, (ast.Global, ast.Nonlocal)):
                    banned.update(fn.names)
                if isinstance(fn, ast.ClassDef):
                    for st in fn.body:
                        for x in ast.walk(st) if isinstance(st, (ast.Assign, ast.AnnAssign)) else []:
                            if isinstance(x, ast.Name):
                                banned.add(x.id)
            for fn in ast.walk(tree):
                if isinstance(fn, (ast.FunctionDef, ast.AsyncFunctionDef)):
                    for x in ast.walk(fn):
                        if isinstance(x, ast.Name) and isinstance(x.ctx, ast.Store):
                            stores.add(x.id)
            ren_defs = set()
            if defs:
                top = {n.name for n in tree.body if isinstance(n, (ast.FunctionDef, ast.ClassDef))} | \
                    {m.name for c in ast.walk(tree) if isinstance(c, ast.ClassDef) for m in c.body if isinstance(m, ast.FunctionDef)}
                ren_defs = {d for d in nested_defs if not d.startswith("__")} - top
                banned -= ren_defs
            local = {s for s in stores if s not in banned and not s.startswith("__") and s != "_"}
            for x in ast.walk(tree):
                if isinstance(x, ast.Name) and (x.id in local or x.id in ren_defs):
                    x.id = x.id + "_r"
                    n_names += 1
                if isinstance(x, ast.FunctionDef) and x.name in ren_defs:
                    x.name = x.name + "_r"
            out = ast.unparse(tree)
            compile(out, p, "exec")
            open(p, "w").write(out + "\n")
    return n_names


def _rewrite(root: str, transformer_cls) -> int:
    n = 0
    for dirpath, _, files in os.walk(os.path.join(root, "rex")):
        for f in files:
            if not f.endswith(".py"):
                continue
            p = os.path.join(dirpath, f)
            tree = ast.parse(open(p).read())
            t = transformer_cls()
            tree = ast.fix_missing_locations(t.visit(tree))
            n += t.count
            out = ast.unparse(tree)
            compile(out, p, "exec")
            open(p, "w").write(out + "\n")
    return n


class _SwapCompare(ast.NodeTransformer):
    """a < b -> b > a (single-operator comparisons of side-effect-free operands only)."""
    MIRROR = {ast.Lt: ast.Gt, ast.Gt: ast.Lt, ast.LtE: ast.GtE, ast.GtE: ast.LtE, ast.Eq: ast.Eq, ast.NotEq: ast.NotEq}

    def __init__(self):
        self.count = 0

    def visit_Compare(self, node):
        self.generic_visit(node)
        if len(node.ops) == 1 and type(node.ops[0]) in self.MIRROR and not any(isinstance(x, (ast.Call, ast.Await, ast.NamedExpr)) for s in (node.left, node.comparators[0]) for x in ast.walk(s)):
            self.count += 1
            return ast.Compare(left=node.comparators[0], ops=[self.MIRROR[type(node.ops[0])]()], comparators=[node.left])
        return node


class _IfExpToIf(ast.NodeTransformer):
    """x = a if c else b  ->  if c: x = a / else: x = b   (and the same for `return a if c else b`)."""

    def __init__(self):
        self.count = 0

    def visit_Assign(self, node):
        if isinstance(node.value, ast.IfExp) and len(node.targets) == 1 and isinstance(node.targets[0], ast.Name):
            self.count += 1
            v = node.value
            return ast.If(test=v.test, body=[ast.Assign(targets=node.targets, value=v.body, lineno=node.lineno)], orelse=[ast.Assign(targets=node.targets, value=v.orelse, lineno=node.lineno)])
        return node

    def visit_Return(self, node):
        if isinstance(node.value, ast.IfExp):
            self.count += 1
            v = node.value
            return ast.If(test=v.test, body=[ast.Return(value=v.body)], orelse=[ast.Return(value=v.orelse)])
        return node

    def visit_Lambda(self, node):
        return node  # no statements inside lambdas


class _DeMorgan(ast.NodeTransformer):
    """a and b -> not (not a or not b); a or b -> not (not a and not b)   (same evaluation order and short-circuiting)."""

    def __init__(self):
        self.count = 0

    def visit_If(self, node):
        self.generic_visit(node)
        t = node.test
        if isinstance(t, ast.BoolOp) and len(t.values) == 2:
            self.count += 1
            other = ast.Or() if isinstance(t.op, ast.And) else ast.And()
            node.test = ast.UnaryOp(op=ast.Not(), operand=ast.BoolOp(op=other, values=[ast.UnaryOp(op=ast.Not(), operand=v) for v in t.values]))
        return node


def swap_comparisons(root: str) -> int:
    return _rewrite(root, _SwapCompare)


def ifexp_to_if(root: str) -> int:
    return _rewrite(root, _IfExpToIf)


def de_morgan(root: str) -> int:
    return _rewrite(root, _DeMorgan)


class _AddNoise(ast.NodeTransformer):
    """Behaviour-neutral additions: an unused local and a trivially true assert at the top of every function, a docstring-like
    expression statement at the end of every loop body."""

    def __init__(self):
        self.count = 0

    def visit_FunctionDef(self, node):
        self.generic_visit(node)
        first = 1 if node.body and isinstance(node.body[0], ast.Expr) and isinstance(node.body[0].value, ast.Constant) else 0
        extra = [ast.Assign(targets=[ast.Name(id="_unused_local_", ctx=ast.Store())], value=ast.Constant(value=0), lineno=node.lineno),
                 ast.Assert(test=ast.Constant(value=True), msg=None)]
        node.body[first:first] = extra
        self.count += 1
        return node

    def visit_For(self, node):
        self.generic_visit(node)
        node.body.append(ast.Expr(value=ast.Constant(value="end of loop body")))
        return node


def add_noise(root: str) -> int:
    return _rewrite(root, _AddNoise)
