"""CLI: /venv/bin/python -m rexsa.check <property id> --tier quick|thorough [--replay path]

exit 0: every obligation discharged (KNOWN-FINDING lines allowed)
exit 1: at least one VIOLATION line
exit 2: ANALYSIS-ERROR (anchor vanished / construct outside the analysed algebra / floor not met / crash)
"""
from __future__ import annotations

import argparse
import importlib
import os
import sys
import traceback


def main(argv=None) -> int:
    ap = argparse.ArgumentParser()
    ap.add_argument("pid")
    ap.add_argument("--tier", default=os.environ.get("VERIF_TIER", "quick"), choices=["quick", "thorough"])
    ap.add_argument("--replay", default=None)
    ap.add_argument("--repo", default=None)
    args = ap.parse_args(argv)
    if args.repo:
        os.environ["REXSA_REPO"] = args.repo
    pid = args.pid.upper()
    from .model import AnchorMissing, Model
    from .report import AnalysisError, Check

    try:
        model = Model()
        chk = Check(pid, args.tier, model, replay=args.replay)
        mod = importlib.import_module(f"rexsa.props.{pid.lower()}")
        try:
            mod.run(chk, model)
        except (AnchorMissing, AnalysisError) as e:
            chk.unknown("ANCHOR", type(e).__name__, str(e))
        if args.tier == "thorough" and hasattr(mod, "run_thorough"):
            try:
                mod.run_thorough(chk, model)
            except (AnchorMissing, AnalysisError) as e:
                chk.unknown("ANCHOR", type(e).__name__ + ":thorough", str(e))
        return chk.finish()
    except Exception as e:  # never let a traceback look like a violation
        traceback.print_exc()
        print(f"ANALYSIS-ERROR property={pid} crash {type(e).__name__}: {e}")
        return 2


if __name__ == "__main__":
    sys.exit(main())
