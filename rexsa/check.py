"""CLI: /venv/bin/python -m rexsa.check <property id> --tier quick|thorough [--replay path]

exit 0: every obligation discharged (KNOWN-FINDING lines allowed)
exit 1: at least one VIOLATION line
exit 2: ANALYSIS-ERROR (anchor vanished / construct outside the analysed algebra / floor not met / crash)
"""
from __future__ import annotations

import argparse
import importlib
import os
import sys
import traceback


def _sensitivity(chk, pid):
    """Thorough tier: re-run the quick rules on every registered single-edit variant of the *current* tree (scratch copies
    of /repo/rex in temporary directories, nothing executed) and record which edits the rules notice.  This measures that
    the rules are not vacuous on today's tree; it never changes the verdict of the property."""
    import concurrent.futures as cf

    from . import selftest

    vs = selftest.load_variants([pid])
    repo = os.environ.get("REXSA_REPO") or "/repo"
    if os.path.basename(os.path.normpath(repo)) == "rex" and not os.path.isdir(os.path.join(repo, "rex")):
        repo = os.path.dirname(os.path.normpath(repo))
    res = []
    with cf.ThreadPoolExecutor(max_workers=int(os.environ.get("REXSA_JOBS", "16"))) as ex:
        res = list(ex.map(lambda v: selftest.run_variant(v, repo=repo), vs))
    by = {}
    for v, r in zip(vs, res):
        by.setdefault((v["expect"], r["status"]), []).append(v["id"])
    fire_ok = len(by.get(("fire", "ok"), []))
    silent_ok = len(by.get(("silent", "ok"), []))
    gaps = by.get(("fire", "FAIL"), [])
    noisy = by.get(("silent", "FAIL"), [])
    stale = [i for (e, st), ids in by.items() if st in ("stale", "bad-variant") for i in ids]
    unsupported = by.get(("error", "ok"), [])  # preserving edits outside the readable code shapes: analysis error, no violation (DESIGN §12)
    noisy = noisy + by.get(("error", "FAIL"), [])
    chk.extra_cov["sensitivity"] = {
        "what": "single-edit variants of the current tree re-analysed with the quick rules: 'fire' edits break the property and must be "
                "reported, 'silent' edits preserve behaviour and must not be",
        "variants": len(vs), "breaking_detected": fire_ok, "breaking_missed": gaps, "preserving_silent": silent_ok,
        "preserving_reported": noisy, "preserving_unreadable_analysis_error": unsupported, "stale_on_this_tree": stale,
        "samples": [{"id": v["id"], "file": v["file"], "expect": v["expect"], "rule": v.get("rule"), "status": r["status"],
                     "edit": (v["old"][:80] + " => " + v["new"][:80])} for v, r in list(zip(vs, res))[:12]],
    }
    print(f"[{pid}/thorough] sensitivity: {fire_ok} breaking edits reported, {len(gaps)} missed, {silent_ok} preserving edits silent, "
          f"{len(noisy)} reported, {len(stale)} stale")
    for g in gaps:
        print(f"SENSITIVITY-GAP property={pid} variant={g} (rule set did not notice this edit; verdict unaffected)")
    for g in noisy:
        print(f"SENSITIVITY-NOISE property={pid} variant={g} (rule set reported a behaviour-preserving edit; verdict unaffected)")


def main(argv=None) -> int:
    ap = argparse.ArgumentParser()
    ap.add_argument("pid")
    ap.add_argument("--tier", default=os.environ.get("VERIF_TIER", "quick"), choices=["quick", "thorough"])
    ap.add_argument("--replay", default=None)
    ap.add_argument("--repo", default=None)
    args = ap.parse_args(argv)
    if args.repo:
        os.environ["REXSA_REPO"] = args.repo
    pid = args.pid.upper()
    from .model import AnchorMissing, Model
    from .report import AnalysisError, Check

    try:
        model = Model()
        chk = Check(pid, args.tier, model, replay=args.replay)
        mod = importlib.import_module(f"rexsa.props.{pid.lower()}")
        try:
            mod.run(chk, model)
            from .props.mirrors import MIRRORS
            from .report import Remap
            for home, mapping, skip in MIRRORS.get(pid, ()):
                importlib.import_module(f"rexsa.props.{home}").run(Remap(chk, mapping, skip), model)
        except (AnchorMissing, AnalysisError) as e:
            chk.unknown("ANCHOR", type(e).__name__, str(e))
        if args.tier == "thorough" and hasattr(mod, "run_thorough"):
            try:
                mod.run_thorough(chk, model)
            except (AnchorMissing, AnalysisError) as e:
                chk.unknown("ANCHOR", type(e).__name__ + ":thorough", str(e))
        if args.tier == "thorough" and not args.replay and not os.environ.get("REXSA_NO_SENSITIVITY"):
            _sensitivity(chk, pid)
        return chk.finish()
    except Exception as e:  # never let a traceback look like a violation
        traceback.print_exc()
        print(f"ANALYSIS-ERROR property={pid} crash {type(e).__name__}: {e}")
        return 2


if __name__ == "__main__":
    sys.exit(main())
