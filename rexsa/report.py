"""Obligation bookkeeping, evidence files, known findings, exit codes."""
from __future__ import annotations

import hashlib
import json
import os
import time
from dataclasses import dataclass, field
from typing import Any, Dict, List, Optional

VERIF = os.path.dirname(os.path.dirname(os.path.abspath(__file__)))
EVIDENCE_DIR = os.environ.get("REXSA_EVIDENCE_DIR") or os.path.join(VERIF, "evidence")
REPLAY_DIR = os.path.join(EVIDENCE_DIR, "replay")
KNOWN_FINDINGS = os.path.join(VERIF, "known_findings.json")

ASSUMPTIONS = [
    "H1 CPython semantics with the GIL: attribute reads/writes and deque.append/popleft are atomic; "
    "ThreadPoolExecutor(max_workers=1) runs submitted tasks one at a time in submission order",
    "H2 assert statements do not fail (treated as guards, not raising edges); library calls terminate",
    "H3 no monkey-patching of rex from outside rex/; user step functions obey the documented contract",
    "H4 jnp.clip/maximum/where/argsort/roll/take, deque, Future have their documented semantics; "
    "round(x, 6) and dtype casts are transparent for the term algebra",
    "H5 external libraries (supergraph, evosax, distrax, flax, equinox) are not analysed",
]


class AnalysisError(Exception):
    pass


@dataclass
class Obligation:
    rule: str
    instance: str
    status: str  # holds | violation | unknown
    detail: str
    loc: str = ""
    extra: Dict[str, Any] = field(default_factory=dict)

    @property
    def key(self) -> str:
        return f"{self.rule}::{self.instance}"


def _load_known() -> List[Dict[str, Any]]:
    if not os.path.exists(KNOWN_FINDINGS):
        return []
    with open(KNOWN_FINDINGS) as f:
        return json.load(f).get("entries", [])


class Check:
    def __init__(self, pid: str, tier: str, model=None, replay: Optional[str] = None):
        self.pid = pid
        self.tier = tier
        self.model = model
        self.t0 = time.time()
        self.obls: List[Obligation] = []
        self.rules: Dict[str, str] = {}
        self.counts: Dict[str, int] = {}
        self.analysed_functions: List[str] = []
        self.notes: List[str] = []
        self.extra_cov: Dict[str, Any] = {}
        self.replay_filter: Optional[str] = None
        if replay:
            with open(replay) as f:
                self.replay_filter = json.load(f).get("key")

    # ------------------------------------------------------------------ recording
    def rule(self, rule_id: str, text: str):
        self.rules[rule_id] = text

    def loc(self, fi_or_path, node=None) -> str:
        path = getattr(fi_or_path, "path", fi_or_path)
        rel = os.path.relpath(path, self.model.root) if self.model else path
        line = getattr(node, "lineno", None) or getattr(fi_or_path, "lineno", None)
        return f"{rel}:{line}" if line else rel

    def used(self, *qualnames: str):
        for q in qualnames:
            if q not in self.analysed_functions:
                self.analysed_functions.append(q)

    def add(self, rule: str, instance: str, ok: Optional[bool], detail: str, loc: str = "", **extra) -> Obligation:
        status = "holds" if ok is True else ("violation" if ok is False else "unknown")
        o = Obligation(rule, instance, status, detail, loc, extra)
        self.obls.append(o)
        return o

    def holds(self, rule, instance, detail, loc="", **extra):
        return self.add(rule, instance, True, detail, loc, **extra)

    def violation(self, rule, instance, detail, loc="", **extra):
        return self.add(rule, instance, False, detail, loc, **extra)

    def unknown(self, rule, instance, detail, loc="", **extra):
        return self.add(rule, instance, None, detail, loc, **extra)

    def floor(self, rule: str, what: str, count: int, minimum: int):
        """Fail closed: a rule that matches fewer instances than confirmed by hand decides nothing."""
        self.counts[f"{rule}:{what}"] = count
        if count < minimum:
            self.unknown(rule, f"floor:{what}", f"only {count} instance(s) of '{what}' found, expected at least {minimum}: "
                         "the anchored construct moved outside what the rule recognises")

    # ------------------------------------------------------------------ finishing
    def finish(self) -> int:
        known = [k for k in _load_known() if k.get("property") == self.pid]
        findings = [k for k in known if k.get("kind") == "finding"]
        obls = self.obls
        if self.replay_filter:
            obls = [o for o in obls if o.key == self.replay_filter]
        viols = [o for o in obls if o.status == "violation"]
        unknowns = [o for o in obls if o.status == "unknown"]
        reported, known_hit = [], []
        for o in viols:
            hit = None
            for k in findings:
                if k.get("rule") == o.rule and k.get("instance") == o.instance:
                    hit = k
                    break
            (known_hit if hit else reported).append((o, hit))
        os.makedirs(REPLAY_DIR, exist_ok=True)
        for o, k in known_hit:
            print(f"KNOWN-FINDING: property={self.pid} {o.rule} {o.instance}: {k.get('what', o.detail)}")
        for o, _ in reported:
            h = hashlib.sha1(o.key.encode()).hexdigest()[:10]
            path = os.path.join(REPLAY_DIR, f"{self.pid}-{o.rule}-{h}.json")
            with open(path, "w") as f:
                json.dump({"property": self.pid, "key": o.key, "rule": o.rule, "instance": o.instance, "loc": o.loc,
                           "detail": o.detail, "extra": _jsonable(o.extra),
                           "replay": f"/venv/bin/python -m rexsa.check {self.pid} --replay {path}"}, f, indent=1)
            print(f"{o.loc or '?'}  {o.rule}  {o.instance} — {o.detail}")
            print(f"VIOLATION property={self.pid} replay={path}")
        for o in unknowns:
            print(f"ANALYSIS-ERROR property={self.pid} {o.rule} {o.instance} ({o.loc}) — {o.detail}")
        wall = time.time() - self.t0
        if not self.replay_filter:
            self._write_evidence(obls, reported, known_hit, unknowns, wall)
        n_ok = sum(1 for o in obls if o.status == "holds")
        print(f"[{self.pid}/{self.tier}] obligations={len(obls)} discharged={n_ok} violations={len(reported)} "
              f"known_findings={len(known_hit)} unknown={len(unknowns)} wall={wall:.2f}s")
        if reported:
            return 1
        if unknowns:
            return 2
        return 0

    def _write_evidence(self, obls, reported, known_hit, unknowns, wall):
        os.makedirs(EVIDENCE_DIR, exist_ok=True)
        n_ok = sum(1 for o in obls if o.status == "holds")
        per_rule: Dict[str, Dict[str, int]] = {}
        for o in obls:
            d = per_rule.setdefault(o.rule, {"holds": 0, "violation": 0, "unknown": 0})
            d[o.status] += 1
        samples = []
        seen_rules = set()
        for o in obls:  # one written-out obligation per rule first, then the rest up to a cap
            if o.rule not in seen_rules:
                seen_rules.add(o.rule)
                samples.append({"rule": o.rule, "instance": o.instance, "status": o.status, "loc": o.loc,
                                "detail": o.detail[:600]})
        for o in obls:
            if len(samples) >= 60:
                break
            s = {"rule": o.rule, "instance": o.instance, "status": o.status, "loc": o.loc, "detail": o.detail[:600]}
            if s not in samples:
                samples.append(s)
        distinct = len({o.key for o in obls})
        ev = {
            "property_id": self.pid,
            "tier": self.tier,
            "seed": int(os.environ.get("VERIF_SEED", "0") or 0),
            "level": "other",
            "coverage": {
                "explanation": "Static analysis of the syntax trees of /repo/rex (nothing imported or executed). Rules applied: "
                               + " | ".join(f"{k}: {v}" for k, v in self.rules.items()),
                "obligations": len(obls),
                "discharged": n_ok,
                "evaluations": len(obls),
                "distinct_nontrivial": distinct,
                "rule": "one obligation per (rule, code instance): a resolved construct in /repo/rex compared with the "
                        "reference table / normal form / automaton; distinct = distinct (rule, instance) keys",
                "samples": samples,
                "per_rule": per_rule,
                "instance_counts": self.counts,
                "functions_analysed": self.analysed_functions,
                "files_parsed": [os.path.relpath(p, self.model.root) for p in self.model.files] if self.model else [],
                "source_digest": self.model.digest() if self.model else None,
                "checker_cmd": f"/venv/bin/python -m rexsa.check {self.pid} --tier {self.tier}",
                "trusted_base": ["python ast module", "rexsa engine (terms, symeval, flow)", "spec tables in rexsa/props and spec/",
                                 "assumptions H1-H5"],
                "known_findings_matched": [o.key for o, _ in known_hit],
                "unknown": [o.key for o in unknowns],
                "notes": self.notes,
                "exhaustive": False,
                **self.extra_cov,
            },
            "assumptions": ASSUMPTIONS,
            "wall_s": round(wall, 3),
            "violations": len(reported),
        }
        with open(os.path.join(EVIDENCE_DIR, f"{self.pid}.json"), "w") as f:
            json.dump(ev, f, indent=1)


class Remap:
    """View of a Check that files selected rules of another property's rule set under rule ids of this property (a property that
    depends on the same code obligation reports it itself instead of relying on the other check being run).  Rules that are not
    in the mapping are evaluated but not recorded; `skip` names (rule, instance) pairs that stay with their home property."""

    def __init__(self, chk: "Check", mapping: Dict[str, str], skip=()):
        self._chk, self._map, self._skip = chk, dict(mapping), set(skip)
        self.model, self.pid, self.tier = chk.model, chk.pid, chk.tier

    def _target(self, rule, instance=None):
        """rule id here (None: not mirrored); a mapping value (rule id, instance prefix) mirrors only the instances with that prefix"""
        tgt = self._map.get(rule)
        if isinstance(tgt, tuple):
            tgt, prefix = tgt
            if instance is not None and not str(instance).startswith(prefix):
                return None
        return tgt

    def rule(self, rule_id, text):
        tgt = self._target(rule_id)
        if tgt is not None and tgt not in self._chk.rules:
            self._chk.rule(tgt, text)

    def loc(self, fi_or_path, node=None):
        return self._chk.loc(fi_or_path, node)

    def used(self, *qualnames):
        self._chk.used(*qualnames)

    def add(self, rule, instance, ok, detail, loc="", **extra):
        tgt = self._target(rule, instance)
        if tgt is not None and (rule, instance) not in self._skip:
            return self._chk.add(tgt, instance, ok, detail, loc, **extra)
        return None

    def holds(self, rule, instance, detail, loc="", **extra):
        return self.add(rule, instance, True, detail, loc, **extra)

    def violation(self, rule, instance, detail, loc="", **extra):
        return self.add(rule, instance, False, detail, loc, **extra)

    def unknown(self, rule, instance, detail, loc="", **extra):
        return self.add(rule, instance, None, detail, loc, **extra)

    def floor(self, rule, what, count, minimum):
        if rule in self._map and not isinstance(self._map[rule], tuple):
            self._chk.floor(self._map[rule], what, count, minimum)


def _jsonable(x):
    try:
        json.dumps(x)
        return x
    except TypeError:
        if isinstance(x, dict):
            return {str(k): _jsonable(v) for k, v in x.items()}
        if isinstance(x, (list, tuple, set)):
            return [_jsonable(v) for v in x]
        return repr(x)
