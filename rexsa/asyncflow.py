"""Shared structural analyses of the threaded runtime (rex/asynchronous.py): thread affinity (A13), event-join
discipline (A14), typestate (A10), wait-for / hand-shake ordering (A15), reset completeness, episode filter,
wall-clock taint (A12).  Used by C02, C03 and C05 with their own rule ids.
"""
from __future__ import annotations

import ast
from typing import Dict, List, Optional, Sequence, Set, Tuple

from . import flow
from . import terms as T
from .asyncrt import CLOCK, CONN, GRAPH, IN_CLOCK, NODE, SIMULATED, SYNC, AsyncRT, mentions, queue_of, queue_ops
from .model import Model
from .report import AnalysisError, Check
from .symeval import Event, Result, SymEval

S = T.sym

NODE_TASKS = ["push_scheduled_ts", "push_phase_shift", "push_step"]
CONN_TASKS = ["push_expected_nonblocking", "push_expected_blocking", "push_ts_max", "push_ts_input", "push_input", "push_zip",
              "push_selection"]
NODE_LIFECYCLE = ["_reset", "_startup", "_start", "_stop"]
CONN_LIFECYCLE = ["reset", "start", "stop"]
ANYWHERE = {"now", "throttle", "log", "async_step", "_submit", "_done_callback", "eps", "phase", "phase_output", "max_records",
            "record_setting", "log_level"}
ASYNC_STATES = ["READY", "STARTING", "READY_TO_START", "RUNNING", "STOPPING", "STOPPED"]
STATE = S("self._state")


def st(name: str) -> T.Term:
    return S(f"rex.constants.Async.{name}")


def _inline_only_helper(model: Model, qualname: str, name: str) -> bool:
    """A method the reference tree does not have and that is only ever *called* (never passed as a value, e.g. to _submit)."""
    from .symeval import _known_api
    known = _known_api()
    al = model.aliases()
    if not known or qualname in known or (qualname in al.values() and qualname not in model.moved.values()):
        return False
    fi = model.func(qualname)
    tree = model.modules[fi.module].tree if hasattr(model.modules[fi.module], "tree") else None
    if tree is None:
        return False
    called = {id(n.func) for n in ast.walk(tree) if isinstance(n, ast.Call)}
    # ... or handed to the executor as the task of a lifecycle function (a task closure turned into a method): analysed as that task
    called |= {id(n.args[0]) for n in ast.walk(tree) if isinstance(n, ast.Call) and ast.unparse(n.func) == "self._submit" and n.args}
    refs = [n for n in ast.walk(tree) if isinstance(n, ast.Attribute) and n.attr == name]
    return bool(refs) and all(id(n) in called for n in refs)


def _ite_leaves(t: T.Term, cond: T.Term = T.TRUE):
    """(path condition, alternative) for a value picked by nested conditions."""
    if t[0] == "ite":
        return _ite_leaves(t[2], T.mk_and([cond, t[1]])) + _ite_leaves(t[3], T.mk_and([cond, T.mk_not(t[1])]))
    return [(cond, t)]


def submitted_task(model: Model, cls: str, t: T.Term):
    """FuncInfo of a bound helper method `self.<m>` handed to _submit (None for anything else)."""
    if t[0] == "sym" and t[1].startswith("self.") and t[1].count(".") == 1:
        name = t[1].split(".", 1)[1]
        q = f"{cls}.{name}"
        if q in model.functions and _inline_only_helper(model, q, name):
            return model.functions[q]
    return None


class AsyncView:
    """Evaluated bodies of all wrapper methods and task closures, with receiver classification."""

    def __new__(cls, model: Model):
        # one view per model and process: the evaluation is the expensive part and several rule sets (a property's own and the
        # mirrored ones) look at the same functions
        cache = model.__dict__.setdefault("_view_cache", {})
        if cls.__name__ not in cache:
            inst = super().__new__(cls)
            inst._built = False
            cache[cls.__name__] = inst
        return cache[cls.__name__]

    def __init__(self, model: Model):
        if self._built:
            return
        self._built = True
        self.model = model
        self.ar = AsyncRT(model)
        self.results: Dict[str, Result] = {}  # key: "node.push_step", "conn.push_zip", "node._stop._stopping", ...
        self.cls_of: Dict[str, str] = {}
        self.fi_of: Dict[str, object] = {}
        self.missing: Set[str] = set()
        for cls, key in ((NODE, "node"), (CONN, "conn")):
            ci = model.cls(cls)
            inherited = [n for c in model.mro(ci)[1:] for n in c.methods if n not in ci.methods and not n.startswith("__")]
            for name in list(ci.methods) + inherited:
                if _inline_only_helper(model, f"{cls}.{name}", name):
                    continue  # analysed at its call sites (see SymEval.is_new_helper), not as a task entry of its own
                r = self.ar.eval(f"{cls}.{name}")
                self.results[f"{key}.{name}"] = r
                self.cls_of[f"{key}.{name}"] = key
        # task closures
        for key, cls, parent, clo in (("node", NODE, "_startup", "_starting"), ("node", NODE, "_stop", "_stopping"),
                                      ("conn", CONN, "stop", "_stopping")):
            fi = model.func(f"{cls}.{parent}")
            ev = SymEval(model, self_types={"self.input_node": NODE, "self.output_node": NODE})
            r = ev.run_function(fi)
            # the task closure is the one handed to self._submit, whatever it is called (logical key keeps the reference name)
            subm = [e for e in r.events if e.kind == "call" and e.name == "self._submit" and e.args and e.func == fi.qualname
                    and (e.args[0][0] == "closure" or submitted_task(model, cls, e.args[0]) is not None)]
            c = subm[0].args[0] if len(subm) == 1 else r.env.get(clo)
            meth = submitted_task(model, cls, c) if c is not None else None
            if meth is not None:
                # the task is a method of the wrapper, submitted with its arguments: same logical task
                self.fi_of[f"{key}.{parent}.{clo}"] = meth
                n0 = len(ev.events)
                ev.live, ev.loop_stack = T.TRUE, ()
                ev.inline_call(meth, list(subm[0].args[1:]), [kv for kv in subm[0].kwargs if kv[0] != "stopping"], S("self"), subm[0].node, r.frame)
                sub = Result(ev, r.frame)
                sub.events = ev.events[n0:]
                self.results[f"{key}.{parent}.{clo}"] = sub
                self.cls_of[f"{key}.{parent}.{clo}"] = key
                self.task_methods = getattr(self, "task_methods", set()) | {c}
                continue
            if c is None or c[0] != "closure":
                # the lifecycle function no longer hands a task to the executor: analysed as an empty task; the typestate and
                # flip-submit rules report it (C05), the other properties have nothing to say about a task that does not exist
                sub = Result(ev, r.frame)
                sub.events = []
                self.results[f"{key}.{parent}.{clo}"] = sub
                self.cls_of[f"{key}.{parent}.{clo}"] = key
                self.fi_of[f"{key}.{parent}.{clo}"] = fi
                self.missing.add(f"{key}.{parent}.{clo}")
                continue
            cq = ev.closures[c[1]].qualname if c[1] in ev.closures else None
            if cq and cq in model.functions:
                self.fi_of[f"{key}.{parent}.{clo}"] = model.functions[cq]
            n0 = len(ev.events)
            ev.invoke(c, [], r.frame)
            sub = Result(ev, r.frame)
            sub.events = ev.events[n0:]
            self.results[f"{key}.{parent}.{clo}"] = sub
            self.cls_of[f"{key}.{parent}.{clo}"] = key
        self.method_names = {"node": set(model.cls(NODE).methods) | set(model.cls(NODE).properties),
                             "conn": set(model.cls(CONN).methods) | set(model.cls(CONN).properties)}

    def fi(self, key: str):
        if key in self.fi_of:
            return self.fi_of[key]
        k, rest = key.split(".", 1)
        return self.model.func(f"{NODE if k == 'node' else CONN}.{rest}")

    # receiver classification ------------------------------------------------------------------
    def recv_class(self, key: str, recv: Optional[T.Term]) -> Optional[str]:
        """'self' | 'node' | 'conn' | None for the receiver term of a call/store in function `key`."""
        if recv is None:
            return None
        me = self.cls_of[key]
        if recv == S("self"):
            return "self"
        if me == "conn" and recv in (S("self.input_node"), S("self.output_node")):
            return "node"
        if me == "node":
            el = [x for x in T.walk(recv) if x[0] == "elem"]
            for e in el:
                if mentions(e[1], "self.inputs") or mentions(e[1], "self.outputs"):
                    return "conn"
        return None

    def base_of_queue_event(self, e: Event) -> Optional[T.Term]:
        """receiver object of '<obj>.q_x.<op>' (the deque's owner)."""
        r = e.recv
        if r is None:
            return None
        if r[0] == "sym" and "." in r[1]:
            return S(r[1].rsplit(".", 1)[0])
        if r[0] == "attr":
            return r[1]
        return None


def _queue_events(r: Result, func_only: Optional[str] = None) -> List[Event]:
    return [e for e in r.events if e.kind == "call" and queue_of(e) is not None and not queue_of(e).startswith("_q_task")
            and (func_only is None or e.func == func_only)]


def thread_classes(view: AsyncView) -> Dict[str, Set[str]]:
    """Thread class(es) of every wrapper function: 'N' (node executor), 'C' (connection executor), 'U' (user thread)."""
    classes: Dict[str, Set[str]] = {k: set() for k in view.results}
    edges: Dict[str, Set[str]] = {k: set() for k in view.results}

    def resolve(key: str, e: Event) -> Optional[str]:
        m = e.name.split(".")[-1]
        rc = view.recv_class(key, e.recv)
        if rc == "self":
            tgt = f"{view.cls_of[key]}.{m}"
        elif rc in ("node", "conn"):
            tgt = f"{rc}.{m}"
        else:
            return None
        return tgt if tgt in view.results else None

    for key, r in view.results.items():
        owner_func = view.fi(key.rsplit(".", 1)[0] if key.count(".") == 2 else key).qualname if key.count(".") < 2 else None
        for e in r.events:
            if e.kind != "call":
                continue
            m = e.name.split(".")[-1]
            if m == "_submit" and e.args:
                rc = view.recv_class(key, e.recv)
                owner = view.cls_of[key] if rc == "self" else rc
                if owner is None:
                    continue
                f = e.args[0]
                tname = None
                if f[0] == "attr":
                    tname = f[2]
                elif f[0] == "sym":
                    tname = f[1].split(".")[-1]
                elif f[0] == "closure":
                    # closure defined in this function
                    for k2 in view.results:
                        if k2.startswith(key + "."):
                            tname = k2.split(".", 1)[1]
                if tname and f"{owner}.{tname}" in view.results:
                    classes[f"{owner}.{tname}"].add("N" if owner == "node" else "C")
            else:
                tgt = resolve(key, e)
                if tgt is not None and m not in ANYWHERE:
                    edges[key].add(tgt)
    # user-thread roots: what AsyncGraph and the lifecycle functions call directly
    for q in [f for f in view.model.functions if f.startswith(GRAPH + ".")]:
        r = view.ar.eval(q)
        for e in r.events:
            if e.kind == "call":
                m = e.name.split(".")[-1]
                if f"node.{m}" in view.results and mentions(e.recv or T.NONE, "_async_nodes") and m not in ANYWHERE:
                    classes[f"node.{m}"].add("U")
    # propagate along direct calls
    changed = True
    while changed:
        changed = False
        for k, tgts in edges.items():
            for t in tgts:
                before = len(classes[t])
                classes[t] |= classes[k]
                changed |= len(classes[t]) != before
    return classes


# ================================================================================================
# rules
# ================================================================================================
def rule_thread_affinity(chk: Check, view: AsyncView, rid: str):
    chk.rule(rid, "executor confinement (A13): every state-touching wrapper function has one thread class; _submit passes a bound "
                  "method of the receiving object; task code calls other wrappers only through _submit or the frozen hand-off table")
    classes = thread_classes(view)
    n_tasks = 0
    for key, cl in sorted(classes.items()):
        name = key.split(".")[-1]
        if name in ANYWHERE or name in ("__init__", "warmup", "get_record", "set_record_settings", "wrap_connections", "_set_ts_start"):
            continue
        if not cl:
            continue
        n_tasks += 1
        chk.add(rid, f"class:{key}", len(cl) == 1, f"{key} runs on thread class(es) {sorted(cl)}; a function that touches wrapper state "
                "must be confined to one executor", chk.loc(view.fi(key)))
    chk.floor(rid, "classified functions", n_tasks, 15)
    # expected classes of the task functions (reference table)
    for name in NODE_TASKS:
        cl = classes.get(f"node.{name}", set())
        chk.add(rid, f"expected:N:{name}", cl == {"N"}, f"node.{name} is on {sorted(cl)}, expected the node executor only", chk.loc(view.fi(f"node.{name}")))
    for name in CONN_TASKS:
        cl = classes.get(f"conn.{name}", set())
        chk.add(rid, f"expected:C:{name}", cl == {"C"}, f"conn.{name} is on {sorted(cl)}, expected the connection executor only", chk.loc(view.fi(f"conn.{name}")))
    # (a') an executor is a thread class only while it has a single worker: with more, two tasks of one wrapper run side by side
    n_ex = 0
    for key in ("node.__init__", "conn.__init__"):
        r = view.results.get(key)
        for e in (r.events if r is not None else ()):
            if e.kind == "store_attr" and e.name.endswith("._executor") and e.recv == S("self"):
                n_ex += 1
                t = e.term
                ok = t[0] == "call" and T.call_name(t).endswith("ThreadPoolExecutor")
                if ok:
                    mw = dict(t[3]).get("max_workers", t[2][0] if t[2] else None)
                    ok = mw == T.const(1)
                chk.add(rid, f"single-worker:{key}", bool(ok), f"{key} builds its executor as {T.show(t)[:90]}: the tasks of one wrapper are serialised only by a "
                        "one-worker pool", chk.loc(view.fi(key), e.node))
    chk.floor(rid, "executors built", n_ex, 2)
    # (b) _submit passes a bound method of the same object
    n_sub = 0
    for key, r in view.results.items():
        for e in r.events:
            if e.kind == "call" and e.name.endswith("._submit") and e.args and e.func == view.fi(key).qualname or (
                    e.kind == "call" and e.name.endswith("._submit") and e.args and key.count(".") == 2):
                n_sub += 1
                f = e.args[0]
                if f[0] == "closure":
                    ok = e.recv == S("self")
                    why = "closure submitted to another object's executor"
                else:
                    # (one of two methods picked by a condition: both must be the receiver's own)
                    ok = all(lf[0] in ("attr", "sym") and lf == T.mk_attr(e.recv, lf[2] if lf[0] == "attr" else lf[1].rsplit(".", 1)[-1]) for _, lf in _ite_leaves(f))
                    why = f"{T.show(e.recv)}._submit is given {T.show(f)[:100]}: the task would run on the wrong executor"
                chk.add(rid, f"submit:{key}:{T.show(f)[:60].split('.')[-1]}:{_recv_tag(e.recv)}", ok, why if not ok else "bound method of the receiver", chk.loc(view.fi(key), e.node))
    chk.floor(rid, "_submit sites", n_sub, 12)
    # (c) direct cross-object calls / writes from task code
    allowed_calls = {"_submit", "throttle", "now", "log"}
    for key, r in view.results.items():
        cl = classes.get(key, set())
        if not (cl & {"N", "C"}):
            continue
        for e in r.events:
            rc = view.recv_class(key, e.recv) if e.kind in ("call", "store_attr") else None
            if e.kind == "call" and rc in ("node", "conn"):
                m = e.name.split(".")[-1]
                if m in view.method_names[rc] and m not in allowed_calls:
                    lifecycle = key.endswith("._stopping") and m == "stop"
                    chk.add(rid, f"direct-call:{key}:{m}", lifecycle,
                            f"{key} (thread {sorted(cl)}) calls {T.show(e.recv)[:60]}.{m}() directly instead of through _submit", chk.loc(view.fi(key), e.node))
            if e.kind == "store_attr" and rc in ("node", "conn"):
                chk.violation(rid, f"cross-write:{key}:{e.name.split('.')[-1]}", f"{key} writes {e.name} of another wrapper object from thread {sorted(cl)}",
                              chk.loc(view.fi(key), e.node))
    # (d) task code does not read the private, task-mutated state of *another* wrapper object either (`self.output_node._phase_scheduled` in a
    # connection task): what it would see depends on how far the other thread has got
    mutated = {}  # wrapper kind -> private attributes its own task code assigns
    for key, r in view.results.items():
        if not (classes.get(key, set()) & {"N", "C"}):
            continue
        kind = view.cls_of.get(key)
        for e in r.events:
            if e.kind == "store_attr" and e.recv == S("self") and e.name.split(".")[-1].startswith("_"):
                mutated.setdefault(kind, set()).add(e.name.split(".")[-1])
    other_of = {"conn": ("node", ("output_node", "input_node")), "node": ("conn", ())}
    for key, r in view.results.items():
        cl = classes.get(key, set())
        if not (cl & {"N", "C"}) or key.count(".") > 1:
            continue
        kind = view.cls_of.get(key)
        okind, via = other_of.get(kind, (None, ()))
        for n in ast.walk(view.fi(key).node):
            if isinstance(n, ast.Attribute) and isinstance(n.ctx, ast.Load) and n.attr in mutated.get(okind, ()) and isinstance(n.value, ast.Attribute) \
                    and isinstance(n.value.value, ast.Name) and n.value.value.id == "self" and n.value.attr in via:
                chk.violation(rid, f"cross-read:{key}:{n.attr}", f"{key} (thread {sorted(cl)}) reads self.{n.value.attr}.{n.attr}, which the other wrapper's own tasks assign: the value "
                              "seen depends on the interleaving of the two threads", chk.loc(view.fi(key), n))


def _recv_tag(recv) -> str:
    if recv == S("self"):
        return "self"
    if recv is not None and recv[0] == "sym":
        return recv[1]
    return "elem"


HANDOFF = {  # cross-object queue operations that are part of the design (frozen table, one reason each)
    ("node", "q_ts_next_step", "append"): "node tells the connection the time of its next step, then submits the connection's selector",
    ("node", "q_ts_max", "popleft"): "node consumes the blocking arrival times computed by the connection",
    ("node", "q_grouped", "popleft"): "node consumes the message groups prepared by the connection",
}
HANDOFF_CONSUMER = {"q_ts_next_step": ("push_expected_blocking", "push_expected_nonblocking"), "q_ts_max": ("push_phase_shift",),
                    "q_grouped": ("push_step",)}


def rule_queue_discipline(chk: Check, view: AsyncView, rid: str):
    chk.rule(rid, "event-join discipline (A14): queues are FIFO-only; cross-object queue access only via the hand-off table; a hand-off "
                  "append precedes the _submit of its consumer; every popleft is dominated by a guard on that queue's length")
    model = view.model
    mi = model.module("asynchronous")
    # FIFO-only, by syntax: any attribute op on .q_* must be append/extend/popleft
    n_ops = 0
    for q, fi in model.functions.items():
        if fi.module != "asynchronous":
            continue
        for n in ast.walk(fi.node):
            if isinstance(n, ast.Attribute) and isinstance(n.value, ast.Attribute) and n.value.attr.startswith("q_") and isinstance(n.ctx, ast.Load):
                if fi.qualname.split(".")[-1] in ("__init__",):
                    continue
                n_ops += 1
                ok = n.attr in ("append", "extend", "popleft")
                chk.add(rid, f"fifo:{fi.qualname.split('asynchronous.')[-1]}:{n.value.attr}.{n.attr}", ok,
                        f"{ast.unparse(n)} — event queues may only be used with append/extend/popleft", chk.loc(fi, n))
            if isinstance(n, ast.Subscript) and isinstance(n.value, ast.Attribute) and n.value.attr.startswith("q_"):
                idx = ast.unparse(n.slice)
                chk.add(rid, f"peek:{fi.qualname.split('asynchronous.')[-1]}:{n.value.attr}[{idx}]", idx == "0",
                        f"{ast.unparse(n)} — only the head element [0] of an event queue may be inspected", chk.loc(fi, n))
    chk.floor(rid, "queue operations", n_ops, 30)
    # cross-object access + hand-off order
    n_cross = 0
    for key, r in view.results.items():
        me = view.cls_of[key]
        fq = view.fi(key).qualname
        for e in _queue_events(r):
            base = view.base_of_queue_event(e)
            rc = view.recv_class(key, base)
            if rc == "self" or base is None:
                continue
            qn, op = queue_of(e), e.name.split(".")[-1]
            n_cross += 1
            ok = (me, qn, op) in HANDOFF and rc is not None
            chk.add(rid, f"cross:{key}:{qn}.{op}", ok, (f"hand-off: {HANDOFF.get((me, qn, op))}" if ok else
                    f"{key} performs {qn}.{op} on another object's queue ({T.show(base)[:60]}); not in the hand-off table"), chk.loc(view.fi(key), e.node))
    chk.floor(rid, "cross-object queue operations", n_cross, 4)
    # hand-off append precedes the submit of the consumer (same function)
    for key, r in view.results.items():
        for e in _queue_events(r):
            qn, op = queue_of(e), e.name.split(".")[-1]
            if op not in ("append", "extend") or qn not in HANDOFF_CONSUMER:
                continue
            base = view.base_of_queue_event(e)
            subs = [s for s in r.events if s.kind == "call" and s.name.endswith("._submit") and s.args
                    and any(mentions(s.args[0], c) for c in HANDOFF_CONSUMER[qn])]
            subs_obj = [s for s in subs if (qn == "q_ts_next_step" and s.recv == base) or (qn != "q_ts_next_step")]
            ok = any(flow.precedes(e, s) for s in subs_obj)
            chk.add(rid, f"handoff-order:{key}:{qn}", ok, f"{qn}.append in {key} is not followed on every path by the _submit of "
                    f"{'/'.join(HANDOFF_CONSUMER[qn])} (the consumer could run before the element exists and is never re-triggered)",
                    chk.loc(view.fi(key), e.node))
    # guard => pop
    n_pop = 0
    for key, r in view.results.items():
        for e in _queue_events(r):
            if e.name.split(".")[-1] != "popleft":
                continue
            qn = queue_of(e)
            if qn == "q_sample":
                continue  # self-contained refill-then-pop (checked by the sampler rule)
            n_pop += 1
            ok, why = _pop_guarded(e, r)
            chk.add(rid, f"guarded-pop:{key}:{qn}", ok, why, chk.loc(view.fi(key), e.node))
    chk.floor(rid, "popleft sites", n_pop, 12)


def _len_of(qterm: T.Term) -> T.Term:
    return T.mk_call("len", [qterm])


def _queue_term(e: Event) -> T.Term:
    return e.recv


def _pop_guarded(e: Event, r: Result) -> Tuple[bool, str]:
    q = _queue_term(e)
    nonempty = T.lt(T.ZERO, _len_of(q))
    if not e.loops:
        if flow.implies(e.guard, nonempty):
            return True, "guard implies len(q) > 0"
        return False, f"popleft on {T.show(q)[:60]} is not dominated by a test of len(q) > 0 (an empty-queue pop kills the worker task)"
    # pops inside a loop / comprehension
    lp = r.loops.get(e.loops[-1])
    it = lp.iter if lp else None
    # (a) for _ in range(n): n bounded by len(q)
    if it is not None and it[0] == "call" and it[1] == "range" and len(it[2]) == 1:
        n = it[2][0]
        bound = T.le(n, _len_of(q))
        if flow.implies(e.guard, bound):
            return True, "loop bound n with guard n <= len(q)"
        # n taken from the head of another queue that the guard compared with len(q):  q2[0] <= len(q)  /  len(q) >= q2[0][1]
        for atom in flow.bool_atoms(e.guard, []):
            if atom[0] in ("lt0", "le0") and _len_of(q) in set(T.walk(atom)):
                peeks = [x for x in T.walk(atom) if x[0] == "index"]
                pops = [x for x in T.walk(n) if x[0] == "call" and T.call_name(x).endswith(".popleft")]
                if peeks and pops:
                    # the popped head element is what the guard peeked at
                    if any(_same_queue_head(pk, pp, n) for pk in peeks for pp in pops):
                        return True, "loop bound is the head of a queue whose value the guard compared with len(q)"
        # n counted by iterating over the same queue
        syms = [x for x in T.walk(n) if x[0] == "sym" and x[1].startswith("loopout")]
        if syms:
            ok = True
            for s in syms:
                lid = int(s[1][len("loopout"):].split(":")[0])
                l2 = r.loops.get(lid)
                if l2 is None or l2.iter != q:
                    ok = False
            if ok:
                return True, "loop bound counted by iterating over the same queue"
        return False, f"pop loop bound {T.show(n)[:80]} is not bounded by len({T.show(q)[:40]})"
    # (b) per-object comprehension guarded by all(len(obj.q) > 0 for the same objects)
    el = [x for x in T.walk(q) if x[0] == "elem"]
    if el:
        obj_pop = _loop_object(el[0])
        for x in T.walk(e.guard):
            if x[0] == "call" and x[1] == "all" and len(x[2]) == 1 and x[2][0][0] == "comp":
                comp = x[2][0]
                elt = comp[2]
                el2 = [y for y in T.walk(elt) if y[0] == "elem"]
                if not el2:
                    continue
                obj_guard = _loop_object(el2[0])
                renamed = T.subst(q, {obj_pop: obj_guard})
                same_domain = _iter_domain(el[0]) == _iter_domain(el2[0])
                conds_pop = {T.subst(c, {obj_pop: obj_guard}) for c in flow.bool_atoms(e.guard, []) if el[0] in set(T.walk(c))}
                if elt == T.lt(T.ZERO, _len_of(renamed)) and same_domain and set(comp[4]) == conds_pop:
                    return True, "guarded by all(len(obj.q) > 0) over the same objects and filter"
    return False, f"popleft on {T.show(q)[:60]} inside a loop without a recognised length guard"


def _loop_object(el: T.Term) -> T.Term:
    it = el[1]
    if it[0] == "call" and isinstance(it[1], str) and it[1].endswith(".items"):
        return T.mk_index(el, T.const(1))
    return el


def _iter_domain(el: T.Term) -> T.Term:
    """self.inputs.values() and self.inputs.items() range over the same objects."""
    it = el[1]
    if it[0] == "call" and isinstance(it[1], str):
        base = it[1].rsplit(".", 1)[0]
        return S(base)
    return it


def _same_queue_head(peek: T.Term, pop: T.Term, n: T.Term) -> bool:
    # peek: q2[0] or q2[0][1];  pop: q2.popleft(); n == pop or pop[1]
    base = peek
    path = []
    while base[0] == "index":
        path.append(base[2])
        base = base[1]
    path.reverse()
    if not path or T.const_value(path[0]) != 0:
        return False
    qname = T.call_name(pop)[: -len(".popleft")]
    if not (base[0] == "sym" and base[1] == qname):
        return False
    want = pop
    for p in path[1:]:
        want = T.mk_index(want, p)
    return n == want


def consumers_of_queues(view: AsyncView) -> Dict[Tuple[str, str], Set[str]]:
    """(owner class, queue) -> functions (keys) that pop it (directly)."""
    out: Dict[Tuple[str, str], Set[str]] = {}
    for key, r in view.results.items():
        fq = view.fi(key).qualname
        for e in _queue_events(r):
            if e.name.split(".")[-1] != "popleft" or (e.func != fq and key.count(".") < 2):
                continue
            base = view.base_of_queue_event(e)
            rc = view.recv_class(key, base)
            owner = view.cls_of[key] if rc == "self" else rc
            if owner:
                out.setdefault((owner, queue_of(e)), set()).add(key)
    return out


def _direct_callees(view: AsyncView, key: str) -> Set[str]:
    out = set()
    r = view.results[key]
    fq = view.fi(key).qualname
    for e in r.events:
        if e.kind == "call" and view.recv_class(key, e.recv) == "self" and (e.func == fq or key.count(".") == 2):
            m = e.name.split(".")[-1]
            if f"{view.cls_of[key]}.{m}" in view.results:
                out.add(f"{view.cls_of[key]}.{m}")
    return out


def rule_enqueue_trigger(chk: Check, view: AsyncView, rid: str):
    chk.rule(rid, "liveness of the event joins (A14): after every append/extend on a queue that an action's guard reads, the same "
                  "path reaches a call or _submit of an action that (transitively, by direct calls) pops that queue")
    cons = consumers_of_queues(view)
    # reach[f] = functions f calls directly, transitively (same object)
    reach: Dict[str, Set[str]] = {}
    for key in view.results:
        seen, todo = set(), [key]
        while todo:
            k = todo.pop()
            if k in seen:
                continue
            seen.add(k)
            todo.extend(_direct_callees(view, k))
        reach[key] = seen
    n = 0
    for key, r in view.results.items():
        fq = view.fi(key).qualname
        me = view.cls_of[key]
        for e in _queue_events(r):
            op = e.name.split(".")[-1]
            if op not in ("append", "extend") or (e.func != fq and key.count(".") < 2):
                continue
            qn = queue_of(e)
            if qn == "q_sample":
                continue
            base = view.base_of_queue_event(e)
            rc = view.recv_class(key, base)
            owner = me if rc == "self" else rc
            poppers = cons.get((owner, qn), set())
            n += 1
            if not poppers:
                chk.violation(rid, f"trigger:{key}:{qn}", f"{qn} is filled in {key} but nothing pops it", chk.loc(view.fi(key), e.node))
                continue
            trig_guards = []
            for t in r.events:
                if t.kind != "call" or t.idx <= e.idx:
                    continue
                m = t.name.split(".")[-1]
                tgt = None
                if m == "_submit" and t.args and t.args[0][0] == "ite":
                    # the submitted method picked by a condition: each alternative triggers on its side of the condition
                    trc = view.recv_class(key, t.recv)
                    towner = me if trc == "self" else trc
                    for cnd, lf in _ite_leaves(t.args[0]):
                        tname = lf[2] if lf[0] == "attr" else (lf[1].split(".")[-1] if lf[0] == "sym" else None)
                        tg = f"{towner}.{tname}" if towner and tname else None
                        if tg in reach and (reach[tg] & poppers) and not (e.loops and t.loops and t.loops[: len(e.loops)] != e.loops):
                            trig_guards.append(T.assume(T.mk_and([t.guard, cnd]), T.eq(STATE, st("RUNNING"), numeric=False), True))
                    continue
                if m == "_submit" and t.args:
                    f = t.args[0]
                    trc = view.recv_class(key, t.recv)
                    towner = me if trc == "self" else trc
                    tname = f[2] if f[0] == "attr" else (f[1].split(".")[-1] if f[0] == "sym" else None)
                    if towner and tname:
                        tgt = f"{towner}.{tname}"
                elif view.recv_class(key, t.recv) == "self" and f"{me}.{m}" in view.results:
                    tgt = f"{me}.{m}"
                if tgt is None or tgt not in reach:
                    continue
                if not (reach[tgt] & poppers):
                    continue
                if e.loops and t.loops and t.loops[: len(e.loops)] != e.loops:
                    continue
                # the re-arm under 'still RUNNING' is exempt by its state guard
                trig_guards.append(T.assume(t.guard, T.eq(STATE, st("RUNNING"), numeric=False), True))
            # on every path on which the append happened some trigger follows
            ok = bool(trig_guards) and flow.implies(e.guard, T.mk_or(trig_guards))
            chk.add(rid, f"trigger:{key}:{qn}", ok, f"after {qn}.{op} in {key} no path-dominating call/_submit of a function that pops {qn} "
                    f"({sorted(poppers)}) follows: the element may never be consumed", chk.loc(view.fi(key), e.node))
    chk.floor(rid, "append/extend sites", n, 15)


# ------------------------------------------------------------------------------------------------
# typestate
# ------------------------------------------------------------------------------------------------
REF_AUTOMATON = {
    # function key -> (allowed predecessor states, target state)
    "node._reset": ({"STOPPED", "READY"}, "READY"),
    "node._startup": ({"READY"}, "STARTING"),
    "node._startup._starting": (None, "READY_TO_START"),
    "node._start": ({"READY_TO_START"}, "RUNNING"),
    "node._stop": ({"RUNNING"}, "STOPPING"),
    "node._stop._stopping": (None, "STOPPED"),
    "conn.reset": ({"STOPPED", "READY"}, "READY"),
    "conn.start": ({"READY"}, "RUNNING"),
    "conn.stop": ({"RUNNING"}, "STOPPING"),
    "conn.stop._stopping": (None, "STOPPED"),
}
REF_GATES = {"node._submit": {"READY", "STARTING", "READY_TO_START", "RUNNING"}, "conn._submit": {"READY", "RUNNING"}}


def state_set(cond: T.Term, extra: Optional[Dict[T.Term, T.Term]] = None) -> Optional[Set[str]]:
    """States s for which cond is satisfiable when self._state == s (other branch atoms existentially projected)."""
    out = set()
    for s in ASYNC_STATES:
        m = {STATE: st(s)}
        if extra:
            m.update(extra)
        v = T.subst(cond, m)
        if v == T.FALSE:
            continue
        atoms = flow.bool_atoms(v, [])
        if any(mentions(a, "self._state") for a in atoms):
            return None
        try:
            if any(flow.bool_eval(v, val) for val in flow.valuations(atoms)):
                out.add(s)
        except ValueError:
            return None
    return out


def rule_gates(chk: Check, view: AsyncView, rid: str):
    """_submit accepts a task in exactly the reference states (a gate that is too narrow silently drops tasks that were submitted
    while the receiver was being started: what is recorded then depends on the race between the threads)."""
    for key, ref in REF_GATES.items():
        r = view.results[key]
        sub = [e for e in r.events if e.kind == "call" and e.name == "self._executor.submit"]
        if len(sub) != 1:
            chk.unknown(rid, f"gate:{key}", f"expected one executor.submit in {key}, found {len(sub)}", chk.loc(view.fi(key)))
            continue
        g = sub[0].guard
        got = state_set(g, {S("stopping"): T.FALSE})
        chk.add(rid, f"gate:{key}", got == ref, f"{key} accepts tasks in states {sorted(got) if got is not None else '?'}, expected exactly {sorted(ref)}",
                chk.loc(view.fi(key), sub[0].node))
        got2 = state_set(g, {S("stopping"): T.TRUE})
        chk.add(rid, f"gate-stopping:{key}", got2 == set(ASYNC_STATES), f"with stopping=True {key} must accept in every state", chk.loc(view.fi(key), sub[0].node))
        chk.add(rid, f"gate-lock:{key}", "self._lock" in sub[0].ctx, f"the gate test and executor.submit in {key} are not inside `with self._lock`", chk.loc(view.fi(key), sub[0].node))
        # a rejected task yields a cancelled future (callers never block on it)
        canc = [e for e in r.events if e.kind == "call" and e.name.endswith(".cancel")]
        chk.add(rid, f"gate-reject:{key}", len(canc) == 1 and flow.equivalent(canc[0].guard, T.mk_not(g)), f"a rejected task in {key} must return a cancelled Future",
                chk.loc(view.fi(key)))


def rule_inner_gates(chk: Check, view: AsyncView, rid: str):
    """A task function that tests the state once more at its top (push_ts_input / push_input of a connection) goes on in exactly the states
    in which the connection's _submit accepts tasks: a narrower test drops what _submit has just let through (a producer started before the
    consumer pushes its first messages into a connection that is still READY)."""
    n = 0
    for key, r in view.results.items():
        if key.count(".") != 1 or view.cls_of.get(key) != "conn":
            continue
        fq = view.fi(key).qualname
        # (the test may sit in a helper together with the episode filter: what matters is in which states the function can go on)
        rets = [e for e in r.events if e.kind == "return" and e.func == fq and e.term == T.NONE and e.guard != T.TRUE and mentions(e.guard, "self._state")]
        if not rets:
            continue
        first = min(rets, key=lambda e: e.idx)
        if any(e.kind == "store_attr" and e.idx < first.idx and e.func == fq for e in r.events):
            continue  # (not a gate at the top of the function)
        n += 1
        goes_on = state_set(T.mk_not(first.guard), {})
        ref = REF_GATES.get("conn._submit")
        chk.add(rid, f"inner-gate:{key}", goes_on == ref, f"{key} goes on in states {sorted(goes_on) if goes_on is not None else '?'}, but conn._submit accepts tasks in {sorted(ref)}: "
                "a task accepted in a state the function then refuses is dropped silently", chk.loc(view.fi(key), first.node))
    chk.floor(rid, "task functions with a state test of their own", n, 2)


def rule_typestate(chk: Check, view: AsyncView, rid: str):
    chk.rule(rid, "typestate (A10): every assignment to _state happens under a guard that restricts the predecessor state to the "
                  "reference automaton; _submit gates accept exactly the running states (or stopping=True); the STOPPING flip and the "
                  "submission of the stopping task are in one lock region")
    seen = set()
    for key, r in view.results.items():
        fq = view.fi(key).qualname
        stores = [e for e in r.events if e.kind == "store_attr" and e.name == "self._state" and (key.count(".") == 2 or e.func == fq)]
        name = key.split(".")[-1]
        if name == "__init__":
            for e in stores:
                chk.add(rid, f"init:{key}", e.term == st("STOPPED"), f"{key} initialises _state to {T.show(e.term)}, expected STOPPED", chk.loc(view.fi(key), e.node))
            continue
        for e in stores:
            ref = REF_AUTOMATON.get(key)
            tgt = e.term[1].split(".")[-1] if e.term[0] == "sym" else T.show(e.term)
            if ref is None:
                chk.violation(rid, f"transition:{key}->{tgt}", f"{key} assigns _state = {tgt}: not a transition of the reference automaton", chk.loc(view.fi(key), e.node))
                continue
            seen.add(key)
            pred_ref, tgt_ref = ref
            chk.add(rid, f"target:{key}", tgt == tgt_ref, f"{key} moves to {tgt}, reference automaton says {tgt_ref}", chk.loc(view.fi(key), e.node))
            if pred_ref is not None:
                asserts = [a for a in r.events if a.kind == "assert" and a.idx < e.idx and mentions(a.term, "self._state") and flow.implies(e.guard, a.guard)]
                cond = T.mk_and([e.guard] + [a.term for a in asserts])
                got = state_set(cond)
                chk.add(rid, f"pred:{key}", got == pred_ref, f"{key} may run from states {sorted(got) if got is not None else '?'}, "
                        f"reference automaton allows exactly {sorted(pred_ref)}", chk.loc(view.fi(key), e.node))
    for key in REF_AUTOMATON:
        if key not in seen:
            chk.violation(rid, f"transition-missing:{key}", f"{key} no longer sets _state (reference transition -> {REF_AUTOMATON[key][1]})",
                          chk.loc(view.fi(key)))
    rule_gates(chk, view, rid)
    rule_inner_gates(chk, view, rid)
    # the lifecycle tasks end in their target state on every path (a stopping task that can return early leaves the wrapper in
    # STOPPING for ever: no new episode can be started)
    for key in ("node._stop._stopping", "conn.stop._stopping", "node._startup._starting"):
        if key in view.missing:
            continue
        r = view.results[key]
        sts = [e for e in r.events if e.kind == "store_attr" and e.name == "self._state"]
        if sts:
            chk.add(rid, f"terminal:{key}", all(e.guard == T.TRUE for e in sts), f"{key} reaches {REF_AUTOMATON[key][1]} only under {T.show(sts[0].guard)[:100]}: the task must "
                    "complete its transition on every path (whatever the user's stop() / startup() hook returns)", chk.loc(view.fi(key), sts[0].node))
    # flip + submit under one lock
    for key, clo, flag in (("node._stop", "_stopping", True), ("conn.stop", "_stopping", True), ("node._startup", "_starting", False)):
        r = view.results[key]
        fq = view.fi(key).qualname
        flips = [e for e in r.events if e.kind == "store_attr" and e.name == "self._state" and e.func == fq]
        subs = [e for e in r.events if e.kind == "call" and e.name == "self._submit" and e.func == fq]
        ok = len(flips) == 1 and len(subs) == 1 and "self._lock" in flips[0].ctx and "self._lock" in subs[0].ctx and flips[0].idx < subs[0].idx \
            and subs[0].args and (subs[0].args[0][0] == "closure" or subs[0].args[0] in getattr(view, "task_methods", ()))
        if ok and flag:
            ok = dict(subs[0].kwargs).get("stopping") == T.TRUE
        chk.add(rid, f"flip-submit:{key}", ok, f"{key}: the state flip and the submission of {clo}" + (" with stopping=True" if flag else "") +
                " must happen in this order inside one `with self._lock` region", chk.loc(view.fi(key)))
        # the future handed back is the task's future
        # (a return under the submission's own condition, or one exit for all paths whose value under that condition is the task's future)
        rets = [e for e in r.events if e.kind == "return" and e.func == fq and subs and T.mk_and([e.guard, subs[0].guard]) != T.FALSE]
        okr = bool(subs) and bool(rets) and all(T.assume(e.term, subs[0].guard, True) == subs[0].term for e in rets)
        chk.add(rid, f"future:{key}", okr, f"{key} must return the future of the submitted {clo} task (callers wait on it)", chk.loc(view.fi(key)))
    # _stop when not running: completed future
    r = view.results["node._stop"]
    sets = [e for e in r.events if e.kind == "call" and e.name.endswith(".set_result")]
    rets = [e for e in r.events if e.kind == "return" and e.func == view.fi("node._stop").qualname]
    notrun = T.mk_not(T.eq(STATE, st("RUNNING"), numeric=False))
    ok = any(flow.equivalent(s.guard, notrun) and any(T.assume(x.term, notrun, True) == s.recv and T.mk_and([x.guard, notrun]) != T.FALSE for x in rets)
             and all(T.assume(x.term, notrun, True) == s.recv for x in rets if T.mk_and([x.guard, notrun]) != T.FALSE) for s in sets)
    chk.add(rid, "noop-stop:node._stop", ok, "_stop on a node that is not running must return an already completed future", chk.loc(view.fi("node._stop")))


# ------------------------------------------------------------------------------------------------
# reset completeness
# ------------------------------------------------------------------------------------------------
RESET_VALUES = {  # attribute -> required value after reset (None: any fresh value)
    "node": {"_tick": T.ZERO, "_phase_scheduled": T.ZERO, "_record": T.NONE, "_record_steps": T.NONE, "_discarded": T.ZERO},
    "conn": {"_tick": T.ZERO, "_prev_recv_sc": T.ZERO, "_record": T.NONE, "_record_messages": T.NONE},
}


def _mutated_attrs(view: AsyncView, keys: Sequence[str]) -> Dict[str, List[Tuple[str, Event]]]:
    out: Dict[str, List[Tuple[str, Event]]] = {}
    for key in keys:
        r = view.results[key]
        for e in r.events:
            if e.kind == "store_attr" and e.recv == S("self"):
                out.setdefault(e.name.split(".", 1)[1], []).append((key, e))
            elif e.kind == "call" and queue_of(e) and view.recv_class(key, view.base_of_queue_event(e)) == "self":
                if e.name.split(".")[-1] in ("append", "extend", "popleft"):
                    out.setdefault(queue_of(e), []).append((key, e))
            elif e.kind == "call" and e.name.startswith("self._") and e.name.split(".")[-1] in ("append", "extend", "pop", "clear", "increment"):
                out.setdefault(e.name.split(".")[1], []).append((key, e))
    return out


# hand-off topology of the reference tree: (owner class, queue) -> (functions that append / extend, functions that pop)
REF_TOPOLOGY = {
    ("conn", "q_expected_select"): ({"conn.push_expected_blocking", "conn.push_expected_nonblocking"}, {"conn.push_selection"}),
    ("conn", "q_expected_ts_max"): ({"conn.push_expected_blocking"}, {"conn.push_ts_max"}),
    ("conn", "q_grouped"): ({"conn.push_selection"}, {"node.push_step"}),
    ("conn", "q_msgs"): ({"conn.push_zip"}, {"conn.push_selection"}),
    ("conn", "q_sample"): ({"conn.push_ts_input"}, {"conn.push_ts_input"}),
    ("conn", "q_ts_input"): ({"conn.push_ts_input"}, {"conn.push_expected_nonblocking", "conn.push_ts_max"}),
    ("conn", "q_ts_max"): ({"conn.push_ts_max"}, {"node.push_phase_shift"}),
    ("conn", "q_ts_next_step"): ({"node.push_phase_shift", "node.push_scheduled_ts"}, {"conn.push_expected_blocking", "conn.push_expected_nonblocking"}),
    ("conn", "q_zip_delay"): ({"conn.push_ts_input"}, {"conn.push_zip"}),
    ("conn", "q_zip_msgs"): ({"conn.push_input"}, {"conn.push_zip"}),
    ("node", "q_sample"): ({"node.push_phase_shift"}, {"node.push_phase_shift"}),
    ("node", "q_tick"): ({"node._start", "node.push_step"}, {"node.push_scheduled_ts"}),
    ("node", "q_ts_end_prev"): ({"node._start", "node.push_phase_shift", "node.push_step"}, {"node.push_phase_shift"}),
    ("node", "q_ts_scheduled"): ({"node.push_scheduled_ts"}, {"node.push_phase_shift"}),
    ("node", "q_ts_start"): ({"node.push_phase_shift"}, {"node.push_step"}),
}


def rule_handoff_topology(chk: Check, view: AsyncView, rid: str):
    """Every event queue is filled and drained by exactly the functions of the reference hand-off topology (a second producer lets
    entries overtake each other, a second consumer steals them), and is an unbounded deque() (a bounded one drops entries silently)."""
    prod: Dict[Tuple[str, str], Set[str]] = {}
    cons: Dict[Tuple[str, str], Set[str]] = {}
    for key, r in view.results.items():
        for e in r.events:
            if e.kind == "call" and queue_of(e):
                op = e.name.split(".")[-1]
                rc = view.recv_class(key, view.base_of_queue_event(e))
                owner = view.cls_of[key] if rc == "self" else rc
                q = (owner, queue_of(e))
                if op in ("append", "extend", "appendleft", "extendleft", "insert"):
                    prod.setdefault(q, set()).add(key)
                if op in ("popleft", "pop", "clear", "remove"):
                    cons.setdefault(q, set()).add(key)
    n = 0
    for q, (rp, rc_) in sorted(REF_TOPOLOGY.items()):
        n += 1
        gp, gc = prod.get(q, set()), cons.get(q, set())
        fi0 = view.fi(sorted(gp | gc | rp)[0]) if (gp | gc | rp) else None
        chk.add(rid, f"producers:{q[0]}.{q[1]}", gp == rp, f"{q[1]} is filled by {sorted(gp)}, reference: {sorted(rp)}", chk.loc(view.fi(sorted(gp - rp)[0])) if gp - rp else (chk.loc(fi0) if fi0 else ""))
        chk.add(rid, f"consumers:{q[0]}.{q[1]}", gc == rc_, f"{q[1]} is drained by {sorted(gc)}, reference: {sorted(rc_)}", chk.loc(view.fi(sorted(gc - rc_)[0])) if gc - rc_ else (chk.loc(fi0) if fi0 else ""))
    for q in sorted(set(prod) | set(cons)):
        if q not in REF_TOPOLOGY and not q[1].startswith("_q_task"):
            chk.violation(rid, f"unknown-queue:{q[0]}.{q[1]}", f"event queue {q[1]} is not part of the reference hand-off topology (filled by {sorted(prod.get(q, []))}, drained by {sorted(cons.get(q, []))})", "")
    chk.floor(rid, "event queues of the hand-off topology", n, 15)
    # unbounded construction
    for key in ("node._reset", "conn.reset", "node.__init__", "conn.__init__"):
        r = view.results.get(key)
        if r is None:
            continue
        for e in r.events:
            if e.kind == "store_attr" and e.recv == S("self") and e.name.split(".")[-1].startswith("q_") and e.term is not None and e.term != T.NONE:
                t = e.term
                ok = t[0] == "call" and T.call_name(t) in ("collections.deque", "deque") and not t[2] and not t[3]
                chk.add(rid, f"unbounded:{key}:{e.name.split('.')[-1]}", ok, f"{e.name} = {T.show(t)[:80]}: event queues must be plain deque() (a maxlen / pre-filled deque drops or invents entries)",
                        chk.loc(view.fi(key), e.node))


def rule_task_private_state(chk: Check, view: AsyncView, rid: str):
    """Values travel between task functions only through the event queues: a scalar attribute that one task function mutates is
    neither read nor written by any other task function (how often the writer has run by the time another task looks is decided
    by the thread schedule)."""
    n = 0
    for cls, tasks in (("node", [f"node.{t}" for t in NODE_TASKS]), ("conn", [f"conn.{t}" for t in CONN_TASKS])):
        mut = _mutated_attrs(view, tasks)
        owners = {a: {k for k, _ in sites} for a, sites in mut.items() if not a.startswith("q_")}
        for a, ks in sorted(owners.items()):
            n += 1
            chk.add(rid, f"single-writer:{cls}.{a}", len(ks) == 1, f"self.{a} is mutated by several task functions: {sorted(ks)}", chk.loc(view.fi(sorted(ks)[0])))
        for k in tasks:
            r = view.results[k]
            for e in r.events:
                for t in [e.term, e.guard] + list(e.args or ()) + [x for _, x in (e.kwargs or ())]:
                    if t is None:
                        continue
                    for x in T.walk(t):
                        if x[0] == "sym" and x[1].startswith("self.") and x[1].split(".")[1] in owners and k not in owners[x[1].split(".")[1]]:
                            a = x[1].split(".")[1]
                            chk.violation(rid, f"cross-task-read:{k}:{a}", f"{k} reads self.{a}, which is advanced by {sorted(owners[a])}: its value at this point depends on how "
                                          "far the other task has run; values must be handed over through the event queues", chk.loc(view.fi(k), e.node))
    chk.floor(rid, "task-private scalar attributes", n, 8)


def rule_reset_complete(chk: Check, view: AsyncView, rid: str):
    chk.rule(rid, "reset completeness: every attribute mutated by task code is unconditionally re-initialised on the start() path "
                  "(fresh deque() for queues; counters, drift and FIFO clamp to 0); the episode counter is advanced before the inputs are reset")
    for cls, tasks, reset_key, start_key in (("node", [f"node.{t}" for t in NODE_TASKS] + ["node._stop._stopping", "node._startup._starting"], "node._reset", "node._start"),
                                             ("conn", [f"conn.{t}" for t in CONN_TASKS] + ["conn.stop._stopping"], "conn.reset", "conn.start")):
        mut = _mutated_attrs(view, tasks)
        r = view.results[reset_key]
        rs = view.results[start_key]
        fq = view.fi(reset_key).qualname
        final = [e for e in r.events if e.kind == "store_attr" and e.name == "self._state" and e.func == fq]
        if len(final) != 1:
            chk.unknown(rid, f"{reset_key}:end", "cannot find the READY flip that ends the reset", chk.loc(view.fi(reset_key)))
            continue
        g_end = final[0].guard
        stores = {}
        for e in r.events:
            if e.kind == "store_attr" and e.recv == S("self") and e.func == fq:
                stores[e.name.split(".", 1)[1]] = e
        sstores = {e.name.split(".", 1)[1]: e for e in rs.events if e.kind == "store_attr" and e.recv == S("self")}
        n = 0
        for attr, sites in sorted(mut.items()):
            if attr in ("_state",):
                continue
            n += 1
            e = stores.get(attr)
            where = f"{[k for k, _ in sites][:3]}"
            if e is None:
                ok = attr in sstores and sstores[attr].guard == T.TRUE and attr in ("_record", "_record_steps", "_record_messages")
                chk.add(rid, f"{cls}.{attr}", ok, f"self.{attr} is mutated by task code {where} but not re-initialised in {reset_key}: "
                        "state of the previous episode leaks into the next", chk.loc(view.fi(reset_key)))
                continue
            ok = flow.equivalent(e.guard, g_end)
            detail = f"self.{attr} is re-initialised only conditionally in {reset_key} (guard {T.show(e.guard)[:120]})"
            if ok and attr.startswith("q_"):
                ok = e.term[0] == "call" and e.term[1] == "collections.deque" and not e.term[2] and not e.term[3]
                detail = f"self.{attr} must be rebound to a fresh empty deque() in {reset_key}, got {T.show(e.term)[:100]}"
            if ok and attr in RESET_VALUES[cls]:
                ok = e.term == RESET_VALUES[cls][attr]
                detail = f"self.{attr} is reset to {T.show(e.term)[:80]}, expected {T.show(RESET_VALUES[cls][attr])}"
            chk.add(rid, f"{cls}.{attr}", ok, detail, chk.loc(view.fi(reset_key), e.node))
        chk.floor(rid, f"{cls} mutated attributes", n, 8)
    # attributes of the *wrapped node* that task code clears at the end of an episode must be set again on the start path
    cleared = {}
    for key in [k for k in view.results if k.startswith("node.")]:
        for e in view.results[key].events:
            if e.kind == "store_attr" and e.recv == S("self.node"):
                cleared.setdefault(e.name.split(".")[-1], []).append((key, e))
    start_side = ("node.__init__", "node._reset", "node._start", "node._set_ts_start", "node._startup", "node.warmup")
    for attr, sites in sorted(cleared.items()):
        task_sites = [(k, e) for k, e in sites if k not in start_side]
        if not task_sites:
            continue
        per_episode = [(k, e) for k, e in sites if k in ("node._reset", "node._start", "node._set_ts_start") and e.guard == T.TRUE]
        reached = any(k != "node._set_ts_start" for k, _ in per_episode) or (
            any(k == "node._set_ts_start" for k, _ in per_episode) and any(e.kind == "call" and e.name == "self._set_ts_start" and e.guard == T.TRUE for e in view.results["node._start"].events))
        chk.add(rid, f"node.node.{attr}", reached, f"self.node.{attr} is changed by {[k for k, _ in task_sites][:2]} at the end of an episode but set again only in "
                f"{sorted({k for k, _ in sites if k in start_side})}: every episode start (_reset / _start) must restore it", chk.loc(view.fi(task_sites[0][0]), task_sites[0][1].node))
    # node: eps advanced before the inputs are reset and before READY; sampler seeded from the step rng
    r = view.results["node._reset"]
    fq = view.fi("node._reset").qualname
    eps = [e for e in r.events if e.kind == "store_attr" and e.name == "self._eps" and e.func == fq]
    resets = [e for e in r.events if e.kind == "call" and e.name.endswith(".reset") and view.recv_class("node._reset", e.recv) == "conn"]
    ready = [e for e in r.events if e.kind == "store_attr" and e.name == "self._state" and e.func == fq]
    ok = len(eps) == 1 and eps[0].term == T.add(S("self._eps"), T.ONE) and resets and all(eps[0].idx < x.idx for x in resets + ready)
    chk.add(rid, "node._eps", ok, "_reset must advance self._eps by exactly 1 before resetting its inputs and before the READY flip", chk.loc(view.fi("node._reset")))
    ok = bool(resets) and all(x.loops for x in resets)
    chk.add(rid, "node.inputs reset", ok, "_reset must reset every input connection", chk.loc(view.fi("node._reset")))
    # _start: q_ts_end_prev primed with 0.0 and tokens queued before the first submit
    rs = view.results["node._start"]
    sub = [e for e in rs.events if e.kind == "call" and e.name == "self._submit"]
    prime = [e for e in queue_ops(rs, "q_ts_end_prev", "append")]
    toks = [e for e in queue_ops(rs, "q_tick", "extend")]
    ok = len(sub) == 1 and len(prime) == 1 and T.const_value(prime[0].args[0]) == 0 and len(toks) == 1 and prime[0].idx < sub[0].idx and toks[0].idx < sub[0].idx \
        and mentions(sub[0].args[0], "push_scheduled_ts")
    chk.add(rid, "node._start priming", ok, "_start must queue ts_end_prev = 0.0 and the tick tokens before submitting push_scheduled_ts", chk.loc(view.fi("node._start")))
    starts = [e for e in rs.events if e.kind == "call" and e.name.endswith(".start") and view.recv_class("node._start", e.recv) == "conn"]
    chk.add(rid, "node._start inputs", bool(starts) and all(s.idx < sub[0].idx for s in starts) if sub else False, "_start must start every input before the first task is submitted",
            chk.loc(view.fi("node._start")))
    # synchronizer
    ar = view.ar
    r = ar.eval(f"{SYNC}.reset")
    a = ar.eval(f"{SYNC}._async_step")
    mutated = {e.name.split(".", 1)[1] for e in a.events if e.kind == "store_attr" and e.recv == S("self")}
    mutated |= {e.name.split(".")[1] for e in a.events if e.kind == "call" and e.name.startswith("self._") and e.name.split(".")[-1] in ("append", "popleft", "increment")}
    stores = {e.name.split(".", 1)[1]: e for e in r.events if e.kind == "store_attr" and e.recv == S("self")}
    fi = view.model.func(f"{SYNC}.reset")
    for attr in sorted(mutated - {"_f_act"}):
        e = stores.get(attr)
        ok = e is not None and e.guard == T.TRUE
        detail = f"_Synchronizer.{attr} is mutated per step but not re-initialised in reset()"
        if ok and attr == "_must_reset":
            ok = e.term == T.FALSE
            detail = f"_must_reset is reset to {T.show(e.term)}, expected False"
        if ok and attr in ("_q_act", "_q_obs"):
            # a fresh deque(), or - for the observation queue - one created with its first element, the fresh observation future
            seeded = attr == "_q_obs" and e.term[0] == "call" and e.term[1] == "collections.deque" and len(e.term[2]) == 1 and e.term[2][0][0] in ("tuple", "list") \
                and tuple(e.term[2][0][1]) == (r.attr("self", "_f_obs"),)
            ok = e.term[0] == "call" and e.term[1] == "collections.deque" and (not e.term[2] or seeded)
            detail = f"{attr} must be a fresh deque()"
        chk.add(rid, f"sync.{attr}", ok, detail, chk.loc(fi))
    app = [e for e in r.events if e.kind == "call" and e.name.endswith(".append") and e.recv == r.attr("self", "_q_obs")]
    fresh_f = r.attr("self", "_f_obs")[0] == "call" and "Future" in str(r.attr("self", "_f_obs")[1])
    qo = r.attr("self", "_q_obs")
    ok = (len(app) == 1 and app[0].args == (r.attr("self", "_f_obs"),) and fresh_f) or \
        (not app and fresh_f and qo[0] == "call" and len(qo[2]) == 1 and qo[2][0][0] in ("tuple", "list") and tuple(qo[2][0][1]) == (r.attr("self", "_f_obs"),))
    chk.add(rid, "sync.first observation future", ok, "reset() must create a fresh observation Future and queue it (run_until_supervisor pops it)", chk.loc(fi))


# ------------------------------------------------------------------------------------------------
# episode filter
# ------------------------------------------------------------------------------------------------
def rule_eps_filter(chk: Check, view: AsyncView, rid: str):
    chk.rule(rid, "episode filter (A3): in the connection entries that receive a Header from another thread, the comparison of the "
                  "header's episode with the receiver's episode and the state test dominate every mutation of the connection")
    for name, hdr in (("push_ts_input", "header"), ("push_input", "header_sent")):
        key = f"conn.{name}"
        r = view.results[key]
        fq = view.fi(key).qualname
        eps_ok = T.eq(S(f"{hdr}.eps"), S("self.input_node._eps"), numeric=False)
        state_ok = T.mk_or([T.eq(STATE, st("READY"), numeric=False), T.eq(STATE, st("RUNNING"), numeric=False)])
        need = T.mk_and([eps_ok, state_ok])
        n = 0
        for e in r.events:
            if e.func != fq:
                continue
            mut = e.kind == "store_attr" or (e.kind == "call" and (queue_of(e) or (e.name.startswith("self.push_")) or e.name.endswith("._submit")
                                                                  or e.name == "self._jit_sample"))
            if not mut:
                continue
            n += 1
            ok = flow.implies(e.guard, need)
            chk.add(rid, f"{name}:{e.name.split('.')[-2] if queue_of(e) else ''}{e.name.split('.')[-1]}", ok,
                    f"{e.name} in {name} can run for a message of another episode or while not READY/RUNNING (guard {T.show(e.guard)[:140]})",
                    chk.loc(view.fi(key), e.node))
        chk.floor(rid, f"{name} mutations", n, 3)
    # the header carries the sender's episode
    for key in ("node.push_phase_shift", "node.push_step"):
        r = view.results[key]
        fq = view.fi(key).qualname
        hs = [e for e in r.events if e.kind == "call" and e.name == "new:Header" and e.func == fq]
        for h in hs:
            chk.add(rid, f"header.eps:{key}", dict(h.term[2]).get("eps") == S("self._eps"), f"Header.eps = {T.show(dict(h.term[2]).get('eps', T.NONE))}, expected the sender's self._eps",
                    chk.loc(view.fi(key), h.node))
    # the receiver's episode is read through input_node.eps == _eps
    pf = view.model.lookup_property(view.model.cls(NODE), "eps")
    ok = pf is not None and len([s for s in pf.node.body if isinstance(s, ast.Return)]) == 1 and ast.unparse([s for s in pf.node.body if isinstance(s, ast.Return)][0].value) == "self._eps"
    chk.add(rid, "eps property", ok, "_AsyncNodeWrapper.eps must return self._eps", chk.loc(pf) if pf else "")


# ------------------------------------------------------------------------------------------------
# wall clock taint
# ------------------------------------------------------------------------------------------------
WALL_SOURCES = ("time.time", "time.sleep", "time.perf_counter", "time.monotonic")


def _tainted(t: Optional[T.Term]) -> Optional[str]:
    if t is None:
        return None
    for x in T.walk(t):
        if x[0] == "sym" and ("real_time_factor" in x[1] or x[1].endswith("._ts_start")):
            return x[1]
        if x[0] == "call" and (T.call_name(x) in WALL_SOURCES or T.call_name(x).endswith(".now") or T.call_name(x).endswith("_async_now")):
            return T.call_name(x)
    return None


def rule_wallclock(chk: Check, view: AsyncView, rid: str):
    chk.rule(rid, "no wall-clock influence under the simulated clock (A12): with clock == SIMULATED substituted, no value or guard of a "
                  "queue operation, _submit, state/record/header construction or step call in task code depends on time.time(), now() or the real-time factor")
    sim = {CLOCK: SIMULATED, IN_CLOCK: SIMULATED}
    n = 0
    for key in [f"node.{t}" for t in NODE_TASKS] + [f"conn.{t}" for t in CONN_TASKS] + ["node._start"]:
        r = view.results[key]
        for e in r.events:
            if e.kind == "call":
                last = e.name.split(".")[-1]
                if last in ("throttle", "now", "log", "sleep", "time") or e.name in ("len", "float", "max", "min", "any", "all", "str", "range", "int", "isinstance", "tuple"):
                    continue
                sink = queue_of(e) or last in ("_submit", "_async_step", "_jit_sample", "_jit_update_input_state") or e.name.startswith("new:") or e.name.startswith("self.push_")
                if key == "node._start" and e.name == "new:NodeRecord":
                    continue  # exception table: NodeRecord.ts_start / real_time_factor are the absolute anchor and the header of the record
                if key == "node._start" and last == "_set_ts_start":
                    continue
            elif e.kind == "store_attr":
                sink = key != "node._start" or e.name not in ("self._record",)
            else:
                continue
            if not sink:
                continue
            g = T.subst(e.guard, sim)
            if g == T.FALSE:
                continue
            n += 1
            src = _tainted(g) or _tainted(T.subst(e.term, sim) if e.term is not None else None)
            for a in e.args:
                src = src or _tainted(T.subst(a, sim))
            chk.add(rid, f"{key}:{e.name.split('.')[-2] + '.' if queue_of(e) else ''}{e.name.split('.')[-1]}@{_ordinal(r, e)}", src is None,
                    f"under the simulated clock {e.name} in {key} depends on the wall clock / real-time factor via {src}", chk.loc(view.fi(key), e.node))
    chk.floor(rid, "sinks examined", n, 40)
    # positive control: the wall-clock branch of push_step must be seen as tainted (otherwise the rule is blind)
    r = view.results["node.push_step"]
    wall = {CLOCK: S("rex.constants.Clock.WALL_CLOCK")}
    hit = any(_tainted(T.subst(a, wall)) for e in r.events if e.kind == "call" and e.name == "new:Header" for _, a in e.term[2])
    if not hit:
        chk.unknown(rid, "fixture", "the wall-clock branch of push_step is not recognised as wall-clock dependent: the taint rule is blind")
    # readers of the real-time factor
    readers = set()
    for q, fi in view.model.functions.items():
        if fi.module != "asynchronous":
            continue
        for nnode in ast.walk(fi.node):
            if isinstance(nnode, ast.Attribute) and nnode.attr == "_real_time_factor" and isinstance(nnode.ctx, ast.Load):
                readers.add(q.split("asynchronous.")[-1])
    allowed = {"_AsyncNodeWrapper.now", "_AsyncNodeWrapper.throttle", "_AsyncNodeWrapper._start"}
    chk.add(rid, "readers of _real_time_factor", readers <= allowed, f"_real_time_factor is read in {sorted(readers - allowed)}; only now/throttle/_start (record header) may read it",
            "rex/asynchronous.py")


def _ordinal(r: Result, e: Event) -> int:
    same = [x for x in r.events if x.kind == e.kind and x.name == e.name]
    return same.index(e)
