"""Program model: parses every *.py under <repo>/rex and indexes modules, classes, functions.

Nothing under the repository is imported or executed.
"""
from __future__ import annotations

import ast
import json
import hashlib
import os
from dataclasses import dataclass, field
from typing import Dict, List, Optional


def fingerprint(fn: ast.AST) -> List[str]:
    """Name-independent sketch of a function body: the attribute names and string constants it mentions (locals excluded)."""
    out = set()
    for n in ast.walk(fn):
        if isinstance(n, ast.Attribute):
            out.add("." + n.attr)
        elif isinstance(n, ast.Constant) and isinstance(n.value, str) and len(n.value) < 40 and n is not getattr(getattr(fn, "body", [None])[0], "value", None):
            out.add("'" + n.value)
        elif isinstance(n, ast.keyword) and n.arg:
            out.add("=" + n.arg)
    return sorted(out)


class AnchorMissing(Exception):
    """An anchored construct (module / class / function) is not present: the analysis is broken,
    the verdict is UNKNOWN (exit 2), never a silent pass and never a VIOLATION."""


def repo_root() -> str:
    return os.environ.get("REXSA_REPO", "/repo")


@dataclass
class FuncInfo:
    qualname: str  # e.g. "asynchronous._AsyncNodeWrapper.push_step" or "...._stop._stopping"
    module: str
    cls: Optional[str]
    node: ast.AST
    parent: Optional[str]  # enclosing function qualname
    path: str

    @property
    def name(self) -> str:
        return self.node.name

    @property
    def lineno(self) -> int:
        return self.node.lineno


@dataclass
class ClassInfo:
    qualname: str
    module: str
    node: ast.ClassDef
    bases: List[str]
    methods: Dict[str, FuncInfo] = field(default_factory=dict)
    fields: List[str] = field(default_factory=list)  # annotated class-level fields in order (dataclass order)
    is_dataclass: bool = False
    properties: Dict[str, FuncInfo] = field(default_factory=dict)
    is_namedtuple: bool = False


@dataclass
class ModuleInfo:
    name: str
    path: str
    src: str
    tree: ast.Module
    imports: Dict[str, str] = field(default_factory=dict)  # local alias -> dotted target


def _dotted(node) -> Optional[str]:
    parts = []
    while isinstance(node, ast.Attribute):
        parts.append(node.attr)
        node = node.value
    if isinstance(node, ast.Name):
        parts.append(node.id)
        return ".".join(reversed(parts))
    return None


class Model:
    _aliases = None
    moved: Dict[str, str] = None

    def __init__(self, root: Optional[str] = None):
        self.root = root or repo_root()
        self.pkg = os.path.join(self.root, "rex")
        self.modules: Dict[str, ModuleInfo] = {}
        self.classes: Dict[str, ClassInfo] = {}
        self.functions: Dict[str, FuncInfo] = {}
        self.files: List[str] = []
        self._load()
        # names that are methods of some in-repo class (and properties of none): `x.replace(a=v).m` is the bound method of the *changed* object
        props = {n for c in self.classes.values() for n in c.properties}
        fields = {f for c in self.classes.values() for f in c.fields}
        from . import terms as _T
        _T.METHOD_NAMES = {fi.name for fi in self.functions.values() if fi.cls and fi.parent is None} - props - fields

    # ------------------------------------------------------------------ loading
    def _load(self):
        if not os.path.isdir(self.pkg):
            raise AnchorMissing(f"package directory {self.pkg} not found")
        for dirpath, _dirs, files in sorted(os.walk(self.pkg)):
            for fn in sorted(files):
                if not fn.endswith(".py"):
                    continue
                path = os.path.join(dirpath, fn)
                rel = os.path.relpath(path, self.pkg)[:-3].replace(os.sep, ".")
                if rel.endswith("__init__"):
                    rel = rel[: -len("__init__")].rstrip(".") or "__init__"
                src = open(path, encoding="utf-8").read()
                try:
                    tree = ast.parse(src, filename=path)
                except SyntaxError as e:
                    raise AnchorMissing(f"cannot parse {path}: {e}")
                mi = ModuleInfo(rel, path, src, tree)
                self.modules[rel] = mi
                self.files.append(path)
                self._index_module(mi)

    def _index_module(self, mi: ModuleInfo):
        for node in mi.tree.body:
            if isinstance(node, ast.Import):
                for a in node.names:
                    mi.imports[a.asname or a.name.split(".")[0]] = a.name if a.asname else a.name.split(".")[0]
            elif isinstance(node, ast.ImportFrom):
                mod = node.module or ""
                for a in node.names:
                    mi.imports[a.asname or a.name] = f"{mod}.{a.name}" if mod else a.name
        self._index_body(mi, mi.tree.body, prefix=mi.name, cls=None, parent=None)

    def _index_body(self, mi, body, prefix, cls, parent):
        for node in body:
            if isinstance(node, ast.ClassDef):
                q = f"{prefix}.{node.name}"
                ci = ClassInfo(q, mi.name, node, [(_dotted(b) or "?") for b in node.bases])
                ci.is_dataclass = any((_dotted(d) or _dotted(getattr(d, "func", None)) or "").endswith("dataclass")
                                      for d in node.decorator_list)
                ci.is_namedtuple = any((_dotted(b) or "").split(".")[-1] == "NamedTuple" for b in node.bases)
                ci.is_dataclass = ci.is_dataclass or ci.is_namedtuple  # (a typing.NamedTuple is constructed and read like a frozen dataclass)
                for st in node.body:
                    if isinstance(st, ast.AnnAssign) and isinstance(st.target, ast.Name):
                        ci.fields.append(st.target.id)
                self.classes[q] = ci
                self._index_body(mi, node.body, prefix=q, cls=q, parent=parent)
                # name = property(getter) / property(fget=getter): the decorator spelled out
                for st in node.body:
                    if isinstance(st, ast.Assign) and len(st.targets) == 1 and isinstance(st.targets[0], ast.Name) and isinstance(st.value, ast.Call) \
                            and (_dotted(st.value.func) or "") == "property":
                        g = st.value.args[0] if st.value.args else next((k.value for k in st.value.keywords if k.arg == "fget"), None)
                        if isinstance(g, ast.Name) and f"{q}.{g.id}" in self.functions:
                            fi = self.functions[f"{q}.{g.id}"]
                            ci.properties.setdefault(st.targets[0].id, fi)
                            ci.methods.pop(g.id, None)
                            self.functions.setdefault(f"{q}.{st.targets[0].id}", fi)
            elif isinstance(node, (ast.FunctionDef, ast.AsyncFunctionDef)):
                q = f"{prefix}.{node.name}"
                fi = FuncInfo(q, mi.name, cls, node, parent, mi.path)
                # property setters etc. share a name: keep the first (getter)
                if q not in self.functions:
                    self.functions[q] = fi
                if cls is not None and parent is None and cls in self.classes:
                    ci = self.classes[cls]
                    decos = [(_dotted(d) or "") for d in node.decorator_list]
                    if "property" in decos:
                        ci.properties.setdefault(node.name, fi)
                    else:
                        ci.methods.setdefault(node.name, fi)
                self._index_nested(mi, node, q, cls)
            elif isinstance(node, (ast.If, ast.Try, ast.With, ast.For, ast.While)):
                # definitions under a conditional at module/class level
                for sub in ast.iter_child_nodes(node):
                    if isinstance(sub, list):
                        continue
                subs = []
                for f in ("body", "orelse", "finalbody"):
                    subs.extend(getattr(node, f, []) or [])
                for h in getattr(node, "handlers", []) or []:
                    subs.extend(h.body)
                self._index_body(mi, subs, prefix, cls, parent)

    def _index_nested(self, mi, fnode, fq, cls):
        """Index nested defs (closures) anywhere inside a function body."""
        def visit(stmts):
            for st in stmts:
                if isinstance(st, (ast.FunctionDef, ast.AsyncFunctionDef)):
                    q = f"{fq}.{st.name}"
                    if q not in self.functions:
                        self.functions[q] = FuncInfo(q, mi.name, cls, st, fq, mi.path)
                    self._index_nested(mi, st, q, cls)
                elif isinstance(st, ast.ClassDef):
                    q = f"{fq}.{st.name}"
                    ci = ClassInfo(q, mi.name, st, [(_dotted(b) or "?") for b in st.bases])
                    ci.is_dataclass = True
                    for s2 in st.body:
                        if isinstance(s2, ast.AnnAssign) and isinstance(s2.target, ast.Name):
                            ci.fields.append(s2.target.id)
                    self.classes[q] = ci
                    self._index_body(mi, st.body, prefix=q, cls=q, parent=fq)
                else:
                    for f in ("body", "orelse", "finalbody"):
                        sub = getattr(st, f, None)
                        if isinstance(sub, list):
                            visit(sub)
                    for h in getattr(st, "handlers", []) or []:
                        visit(h.body)
        visit(fnode.body)

    # ------------------------------------------------------------------ lookup
    def module(self, name: str) -> ModuleInfo:
        if name not in self.modules:
            raise AnchorMissing(f"module rex/{name}.py not found")
        return self.modules[name]

    def func(self, qualname: str) -> FuncInfo:
        if qualname not in self.functions:
            q2 = self.aliases().get(qualname)
            if q2 is not None:
                return self.functions[q2]
            inh = self.inherited(qualname)
            if inh is not None:
                return inh
            raise AnchorMissing(f"function {qualname} not found")
        return self.functions[qualname]

    def queue_entry_classes(self) -> Dict[str, ClassInfo]:
        """queue attribute name -> NamedTuple class of its entries, where the code appends `Cls(...)` instances to `<x>.<queue>` (the entry
        type of a hand-off queue; every append to that queue must use the same class)."""
        if getattr(self, "_queue_entries", None) is None:
            found: Dict[str, set] = {}
            for mi in self.modules.values():
                for n in ast.walk(mi.tree):
                    if isinstance(n, ast.Call) and isinstance(n.func, ast.Attribute) and n.func.attr in ("append", "appendleft") and isinstance(n.func.value, ast.Attribute) \
                            and len(n.args) == 1:
                        a = n.args[0]
                        cname = (_dotted(a.func) or "").split(".")[-1] if isinstance(a, ast.Call) else None
                        ci = self.find_class(cname) if cname else None
                        found.setdefault(n.func.value.attr, set()).add(ci.qualname if ci is not None and ci.is_namedtuple else None)
            self._queue_entries = {q: self.classes[next(iter(cs))] for q, cs in found.items() if len(cs) == 1 and None not in cs}
        return self._queue_entries

    def inherited(self, qualname: str) -> Optional[FuncInfo]:
        """A method of the reference tree that was pulled up into an in-repo base class (found along the class's bases)."""
        if "." not in qualname:
            return None
        cq, name = qualname.rsplit(".", 1)
        ci = self.classes.get(cq)
        if ci is None:
            return None
        for c in self.mro(ci)[1:]:
            if name in c.methods:
                return c.methods[name]
            if name in c.properties:
                return c.properties[name]
        return None

    def has_func(self, qualname: str) -> bool:
        return qualname in self.functions or qualname in self.aliases() or self.inherited(qualname) is not None

    def current(self, qualname: str) -> str:
        """Today's qualified name of a function of the reference tree (renamed nested functions are followed)."""
        return qualname if qualname in self.functions else self.aliases().get(qualname, qualname)

    def reference(self, qualname: str) -> str:
        """Reference-tree name of a current function (inverse of `current`)."""
        for old, new in self.aliases().items():
            if new == qualname:
                return old
        return qualname

    def home_functions(self, qualname: str, _depth: int = 0) -> List[str]:
        """Where a who-may-call table should look a call site up: the function itself (under its reference name) if the
        reference tree has it; for a helper introduced later, the reference functions that call the helper (transitively)."""
        ref = self.reference(qualname)
        known = self._known_functions()
        if not known or ref in known or _depth > 3:
            return [ref]
        fi = self.functions.get(qualname)
        if fi is None:
            return [ref]
        name = fi.node.name
        out: List[str] = []
        for q, other in self.functions.items():
            if q == qualname or other.module != fi.module:
                continue
            own = [n for n in ast.walk(other.node)]
            nested = {id(x) for d in ast.walk(other.node) if isinstance(d, (ast.FunctionDef, ast.Lambda)) and d is not other.node for x in ast.walk(d)}
            for n in own:
                if id(n) in nested:
                    continue
                # called, or handed on as a value (functools.partial(helper, ...), lax.cond(p, helper, ...), _submit(self.helper))
                if (isinstance(n, ast.Name) and n.id == name and isinstance(n.ctx, ast.Load)) or (isinstance(n, ast.Attribute) and n.attr == name and isinstance(n.ctx, ast.Load)):
                    out.extend(self.home_functions(q, _depth + 1))
                    break
        return sorted(set(out)) or [ref]

    def _known_functions(self):
        if getattr(self, "_known", None) is None:
            p = os.path.join(os.path.dirname(os.path.abspath(__file__)), "known_api.json")
            try:
                self._known = set(json.load(open(p)).get("functions", []))
            except (OSError, ValueError):
                self._known = set()
        return self._known

    def local_name(self, qualname: str) -> str:
        return self.current(qualname).rsplit(".", 1)[-1]

    def bind_call(self, qualname: str, args, kwargs, drop_self: bool = True) -> Dict[str, object]:
        """Parameter name -> argument term for a call of the in-repo function `qualname`, whichever way the arguments were passed
        (positionally or by keyword); parameters that were not given are absent."""
        fi = self.func(qualname)
        a = fi.node.args
        params = [p.arg for p in a.posonlyargs + a.args]
        if drop_self and params and params[0] in ("self", "cls") and fi.cls:
            params = params[1:]
        out = {}
        for p_, v in zip(params, args):
            out[p_] = v
        for k, v in kwargs:
            out[k] = v
        return out

    def aliases(self) -> Dict[str, str]:
        """reference qualname -> current qualname for nested functions that were only renamed: a function of the frozen API
        table that is missing today is matched with the one function of the same (current) parent that the table does not know
        and that has the same parameter list."""
        if self._aliases is not None:
            return self._aliases
        self._aliases = {}
        self.moved = {}
        p = os.path.join(os.path.dirname(os.path.abspath(__file__)), "known_api.json")
        try:
            known = json.load(open(p))
        except (OSError, ValueError):
            return self._aliases
        kparams = known.get("params", {})
        kset = set(known.get("functions", []))
        new = [q for q in self.functions if q not in kset]

        def params(fi):
            a = fi.node.args
            return [x.arg for x in a.posonlyargs + a.args + a.kwonlyargs] + (["*" + a.vararg.arg] if a.vararg else []) + (["**" + a.kwarg.arg] if a.kwarg else [])
        for q in sorted((q for q in kset if q not in self.functions), key=lambda x: x.count(".")):
            if "." not in q or q not in kparams:
                continue
            parent, _ = q.rsplit(".", 1)
            parent_now = self._aliases.get(parent, parent)
            nested_cls = parent_now not in self.functions and any(parent_now.startswith(f + ".") for f in kset if f in kparams and f.count(".") < parent_now.count("."))
            if parent_now not in self.functions and not nested_cls:
                continue  # only nested functions / classes are followed; methods / module functions are API
            cands = [] if nested_cls and parent_now not in self.classes else [n for n in new if n.rsplit(".", 1)[0] == parent_now and params(self.functions[n]) == kparams[q] and n not in self._aliases.values()]
            if len(cands) > 1 and q in known.get("fingerprint", {}):
                # several renamed siblings with the same signature: take the one whose body mentions the same attributes
                ref = set(known["fingerprint"][q])
                scored = sorted(((len(ref & set(fingerprint(self.functions[n].node))) / max(1, len(ref | set(fingerprint(self.functions[n].node)))), n) for n in cands), reverse=True)
                if scored[0][0] >= 0.6 and (len(scored) == 1 or scored[0][0] > scored[1][0]):
                    cands = [scored[0][1]]
            if len(cands) == 1:
                self._aliases[q] = cands[0]
                continue
            if cands:
                continue
            # not renamed in place: a nested function moved out of its parent (to module level or to a method of the enclosing
            # class) with the variables it captured turned into leading parameters
            ref = set(known.get("fingerprint", {}).get(q, []))
            if not ref:
                continue
            top = parent_now.split(".")[0]
            cls_prefix = parent_now.rsplit(".", 1)[0] if parent_now.count(".") >= 2 else None
            moved = []
            hoisted = []
            for n in new:
                fi = self.functions[n]
                if n in self._aliases.values() or fi.module != top:
                    continue
                if fi.parent is not None:
                    # hoisted to an enclosing function (still a closure, one or more levels further out)
                    if not parent_now.startswith(fi.parent + "."):
                        continue
                    ps = [x for x in params(fi)]
                    if kparams[q] and ps[len(ps) - len(kparams[q]):] != kparams[q]:
                        continue
                    fp = set(fingerprint(fi.node))
                    hoisted.append((len(ref & fp) / max(1, len(ref | fp)), n))
                    continue
                new_cls = n.count(".") == 2 and n.rsplit(".", 1)[0] in self.classes and not any(k.startswith(n.rsplit(".", 1)[0] + ".") for k in kset)
                if not (n.count(".") == 1 or (cls_prefix is not None and n.rsplit(".", 1)[0] == cls_prefix) or (nested_cls and n.count(".") == 2) or new_cls):
                    continue  # (new_cls: a method, typically __call__, of a module-level class the reference tree does not have)
                ps = [x for x in params(fi) if x not in ("self", "cls")]
                want_ps = [x for x in kparams[q] if x not in ("self", "cls")]
                if want_ps and ps[len(ps) - len(want_ps):] != want_ps:
                    continue
                if not want_ps and len(ps) > 4:
                    continue
                fp = set(fingerprint(fi.node))
                score = len(ref & fp) / max(1, len(ref | fp))
                moved.append((score, n))
            hoisted.sort(reverse=True)
            if hoisted and hoisted[0][0] >= 0.5 and (len(hoisted) == 1 or hoisted[0][0] > hoisted[1][0]):
                self._aliases[q] = hoisted[0][1]
                continue
            moved.sort(reverse=True)
            if moved and moved[0][0] >= 0.5 and (len(moved) == 1 or moved[0][0] > moved[1][0]):
                self._aliases[q] = moved[0][1]
                self.moved[q] = moved[0][1]
                continue
            # ... or one level deeper: wrapped into a new factory function of the same parent that binds its leading parameters
            # (`make(kind)` returning `run(graph_state, timings)` instead of functools.partial(run, kind))
            want_ps = [x for x in kparams[q] if x not in ("self", "cls")]
            deeper = []
            for n in new:
                fi = self.functions[n]
                if n in self._aliases.values() or not n.startswith(parent_now + ".") or n.count(".") != q.count(".") + 1 or fi.parent in kset:
                    continue
                ps = [x for x in params(fi) if x not in ("self", "cls")]
                if not ps or want_ps[len(want_ps) - len(ps):] != ps:
                    continue
                fp = set(fingerprint(fi.node))
                deeper.append((len(ref & fp) / max(1, len(ref | fp)), n))
            deeper.sort(reverse=True)
            if deeper and deeper[0][0] >= 0.5 and (len(deeper) == 1 or deeper[0][0] > deeper[1][0]):
                self._aliases[q] = deeper[0][1]
        return self._aliases

    def cls(self, qualname: str) -> ClassInfo:
        if qualname not in self.classes:
            raise AnchorMissing(f"class {qualname} not found")
        return self.classes[qualname]

    def find_class(self, simple: str) -> Optional[ClassInfo]:
        cands = [c for q, c in self.classes.items() if q.split(".")[-1] == simple]
        # prefer top-level classes
        cands.sort(key=lambda c: c.qualname.count("."))
        return cands[0] if cands else None

    def mro(self, ci: ClassInfo) -> List[ClassInfo]:
        out, seen, todo = [], set(), [ci]
        while todo:
            c = todo.pop(0)
            if c.qualname in seen:
                continue
            seen.add(c.qualname)
            out.append(c)
            for b in c.bases:
                bc = self.find_class(b.split(".")[-1])
                if bc is not None:
                    todo.append(bc)
        return out

    def dataclass_fields(self, ci: ClassInfo) -> List[str]:
        """Field order as the dataclass machinery sees it: base fields first."""
        fields: List[str] = []
        for c in reversed(self.mro(ci)):
            for f in c.fields:
                if f not in fields:
                    fields.append(f)
        return fields

    def lookup_method(self, ci: ClassInfo, name: str) -> Optional[FuncInfo]:
        for c in self.mro(ci):
            if name in c.methods:
                return c.methods[name]
        return None

    def lookup_property(self, ci: ClassInfo, name: str) -> Optional[FuncInfo]:
        for c in self.mro(ci):
            if name in c.properties:
                return c.properties[name]
        return None

    def functions_in(self, module: str, cls: Optional[str] = None) -> List[FuncInfo]:
        out = []
        for q, f in self.functions.items():
            if f.module != module:
                continue
            if cls is not None and f.cls != f"{module}.{cls}":
                continue
            out.append(f)
        return out

    def digest(self) -> str:
        h = hashlib.sha256()
        for m in sorted(self.modules.values(), key=lambda m: m.name):
            h.update(m.name.encode())
            h.update(m.src.encode())
        return h.hexdigest()[:16]

    def rel(self, path: str) -> str:
        return os.path.relpath(path, self.root)
