"""Shared view of the compiled runtime (rex/partition_runner.py, rex/graph.py): the closures of the partition runner are
evaluated once each with fresh symbolic arguments (value numbering), so that properties can compare what is read,
stepped, written and recorded.
"""
from __future__ import annotations

import ast

from typing import Dict, List, Optional

from . import terms as T
from .model import Model
from .report import AnalysisError
from .symeval import Event, Result, SymEval

S = T.sym
PR = "partition_runner.make_run_partition_excl_supervisor"


class Sub:
    """Events and result of one closure invocation."""

    def __init__(self, ev: SymEval, events: List[Event], ret: T.Term, frame):
        self.ev = ev
        self.events = events
        self.ret = ret
        self.frame = frame
        self.loops = ev.loops

    def calls(self, suffix: str) -> List[Event]:
        return [e for e in self.events if e.kind == "call" and (e.name == suffix or e.name.endswith("." + suffix) or e.name.endswith(suffix))]


class CompiledView:
    def __new__(cls, model: Model):
        # one view per model and process: the evaluation is the expensive part and several rule sets (a property's own and the
        # mirrored ones) look at the same functions
        cache = model.__dict__.setdefault("_view_cache", {})
        if cls.__name__ not in cache:
            inst = super().__new__(cls)
            inst._built = False
            cache[cls.__name__] = inst
        return cache[cls.__name__]

    def __init__(self, model: Model):
        if self._built:
            return
        self._built = True
        self.model = model
        fi = model.func(PR)
        self.ev = SymEval(model, inline=("make_update_inputs",))
        self.outer = self.ev.run_function(fi)
        self.names = {}
        for name, arity in (("_run_node", 3), ("_run_generation", 2), ("_run_S", 1)):
            c = self.outer.env.get(model.local_name(f"{PR}.{name}"))
            if c is not None and c[0] == "closure":
                self.outer.env[name] = c
                self.names[name] = model.local_name(f"{PR}.{name}")
            if c is None or c[0] != "closure":
                # renamed: the runner's closures are told apart by their arity (kind, graph_state, timings) / (graph_state,
                # timings_gen) / (graph_state); the one returned is _run_S
                cands = [(n, v) for n, v in self.outer.env.items() if v[0] == "closure" and v[1] in self.ev.closures and self.ev.closures[v[1]].kind == "def"
                         and len(self.ev.closures[v[1]].node.args.args) == arity and n not in ("_run_node", "_run_generation", "_run_S")]
                if arity == 1 and self.outer.ret[0] == "closure":
                    cands = [(n, v) for n, v in cands if v == self.outer.ret] or cands
                if len(cands) != 1 and arity == 3:
                    # the node runner produced by a factory `make(kind)` -> `run(graph_state, timings_node)` instead of being bound
                    # with functools.partial: read as the three-argument function it stands for
                    facs = []
                    for n, v in self.outer.env.items():
                        c0 = self.ev.closures.get(v[1]) if v[0] == "closure" else None
                        if c0 is None or c0.kind != "def" or len(c0.node.args.args) != 1:
                            continue
                        inner = [st for st in c0.node.body if isinstance(st, ast.FunctionDef) and len(st.args.args) == 2]
                        rets = [st for st in c0.node.body if isinstance(st, ast.Return) and isinstance(st.value, ast.Name)]
                        if len(inner) == 1 and len(rets) == 1 and rets[0].value.id == inner[0].name:
                            facs.append((n, v))
                    if len(facs) == 1:
                        lam = ast.parse("lambda kind, graph_state, timings_node: __factory(kind)(graph_state, timings_node)", mode="eval").body
                        for nd in ast.walk(lam):
                            if hasattr(nd, "lineno"):
                                ast.copy_location(nd, self.ev.closures[facs[0][1][1]].node)
                        u = self.ev.uid()
                        from .symeval import Closure, Frame
                        fr0 = self.outer.frame
                        self.ev.closures[u] = Closure(u, "lambda", lam, Frame(fr0.func, fr0.module, fr0.cls, {"__factory": facs[0][1]}, parent=fr0),
                                                      qualname=self.ev.closures[facs[0][1][1]].qualname)
                        inner_name = [st for st in self.ev.closures[facs[0][1][1]].node.body if isinstance(st, ast.FunctionDef)][0].name
                        cands = [(f"{facs[0][0]}.{inner_name}", ("closure", u))]
                if len(cands) != 1:
                    raise AnalysisError(f"closure {name} not found in make_run_partition_excl_supervisor")
                self.outer.env[name] = cands[0][1]
                self.names[name] = cands[0][0]
        self.run_node = self._invoke("_run_node", [S("kind"), S("graph_state"), S("timings_node")])
        self.run_generation = self._invoke("_run_generation", [S("graph_state"), S("timings_gen")])
        self.run_S = self._invoke("_run_S", [S("graph_state")])
        # make_update_inputs(node)(graph_state, timings_node)
        f2 = model.func("partition_runner.make_update_inputs")
        ev2 = SymEval(model)
        r2 = ev2.run_function(f2)
        if r2.ret[0] not in ("closure", "obj"):
            raise AnalysisError("make_update_inputs does not return a closure")
        n0 = len(ev2.events)
        ret = ev2.invoke(r2.ret, [S("graph_state"), S("timings_node")], r2.frame)
        self.update_inputs = Sub(ev2, ev2.events[n0:], ret, r2.frame)
        # make_update_state(name)(graph_state, timing, step_state, output, output_record)
        f3 = model.func("partition_runner.make_update_state")
        ev3 = SymEval(model, inline=("update_output", "get_buffer_size"))
        r3 = ev3.run_function(f3)
        if r3.ret[0] not in ("closure", "obj"):  # (a closure, or an instance of a small callable class standing in for one)
            raise AnalysisError("make_update_state does not return a closure")
        n0 = len(ev3.events)
        ret = ev3.invoke(r3.ret, [S("graph_state"), S("timing"), S("step_state"), S("output"), S("output_record")], r3.frame)
        self.update_state = Sub(ev3, ev3.events[n0:], ret, r3.frame)
        # update_output
        f4 = model.func("partition_runner.update_output")
        ev4 = SymEval(model, inline=("get_buffer_size",))
        self.update_output = ev4.run_function(f4)
        # Graph.run_supervisor
        f5 = model.func("graph.Graph.run_supervisor")
        ev5 = SymEval(model)
        self.run_supervisor = ev5.run_function(f5)
        # the call of the update-state closure, with its arguments in parameter order however they were passed
        us_params = [p.arg for p in model.func("partition_runner.make_update_state._update_state").node.args.args]
        for e in self.run_supervisor.events:
            if e.kind == "call" and e.kwargs and "make_update_state" in e.name and len(e.args) + len(e.kwargs) == len(us_params) \
                    and [k for k, _ in sorted(e.kwargs, key=lambda kv: us_params.index(kv[0]) if kv[0] in us_params else -1)] == us_params[len(e.args):]:
                kw = dict(e.kwargs)
                e.args = tuple(e.args) + tuple(kw[p_] for p_ in us_params[len(e.args):])
                e.kwargs = ()

    def _invoke(self, name: str, args) -> Sub:
        n0 = len(self.ev.events)
        ret = self.ev.invoke(self.outer.env[name], args, self.outer.frame)
        return Sub(self.ev, self.ev.events[n0:], ret, self.outer.frame)

    def fi(self, name: str):
        return self.model.func(f"{PR}.{self.names.get(name, name)}")


def slot_elem(sub: Sub) -> Optional[T.Term]:
    """The loop element (slot_kind, timings_node) of the per-slot loop of _run_generation."""
    for lid, l in sub.loops.items():
        if l.kind == "for" and l.iter == T.mk_call("timings_gen.items", []):
            return ("elem", l.iter, lid)
    return None


def skip_condition(pred: T.Term) -> T.Term:
    """The 'before the first partition' condition of Graph.run_supervisor's lax.cond, whichever way round the predicate
    and the two branches are written: `cond(step == 0, skip, run)` and `cond(step != 0, run, skip)` give the same atom.
    (The evaluator has already attached each branch to its side of the predicate; rules only need the positive atom.)"""
    while pred[0] == "not":
        pred = pred[1]
    return pred


def input_state_builds(model: Model, events) -> List[tuple]:
    """The places where an InputState is assembled from a window's columns: `InputState.from_outputs(seq, ts_sent, ts_recv,
    outputs, delay_dist, is_data)` or the constructor it ends in written out, `InputState(seq=, ts_sent=, ts_recv=, data=,
    delay_dist=)` (which is from_outputs with is_data=True: the payload is taken as it is).  Returns (event, arguments by
    from_outputs parameter name)."""
    out = []
    for e in events:
        if e.kind != "call":
            continue
        if e.name == "rex.base.InputState.from_outputs":
            out.append((e, model.bind_call("base.InputState.from_outputs", e.args, e.kwargs)))
        elif e.name == "new:InputState" and not e.func.endswith("InputState.from_outputs") and e.term[0] == "obj":
            f = dict(e.term[2])
            b = {k: f[k] for k in ("seq", "ts_sent", "ts_recv", "delay_dist") if k in f}
            if "data" in f:
                b["outputs"] = f["data"]
            b["is_data"] = T.TRUE
            out.append((e, b))
    return out
