"""Term algebra used by the value-numbering analysis (A7), the ordering abstraction (A6) and the
provenance rules (A4/A5).

A term is a nested, hashable tuple in *canonical form*:

  ('sym', name)                        opaque value (parameter, attribute chain, havoc'd loop variable)
  ('const', v)                         str / bool / None / Ellipsis
  ('num', P, Q)                        rational function P/Q over atoms; P, Q canonical polynomials
  ('max', (t1, t2, ...))               max of >=2 numeric terms (sorted, deduplicated, dominated removed)
  ('lt0', n) ('le0', n) ('eq0', n)     comparisons of a numeric term with 0 (ne0 == not eq0)
  ('eq', (a, b))                       equality of non-numeric terms (sorted pair)
  ('not', t) ('and', ts) ('or', ts)    boolean structure (sorted, flattened; negation pushed inwards)
  ('ite', c, a, b)                     value merge of an if / IfExp / lax.cond
  ('call', f, args, kwargs, uid)       uninterpreted call; uid is None for pure functions
  ('attr', base, name) ('index', base, idx) ('slice', base, lo, hi, step)
  ('tuple', items) ('list', items) ('dict', ((k, v), ...))
  ('obj', cls, ((field, t), ...))      dataclass construction
  ('replace', base, ((field, t), ...)) dataclass .replace on an opaque base
  ('comp', kind, elt, ((var, iter), ...), conds)   comprehension
  ('elem', iter, uid)                  element of an iterable (loop variable)
  ('closure', uid)                     lambda / nested def / partial (side table in the evaluator)
  ('unk', what, uid)                   construct outside the interpreted algebra

Polynomials: tuple of (monomial, Fraction) sorted by monomial key; monomial = tuple of (atom, exp).
Everything is deterministic (ordering by a structural key, not by hash).
"""
from __future__ import annotations

from fractions import Fraction
from functools import lru_cache
from typing import Any, Callable, Dict, Iterable, Tuple

F = Fraction
Term = tuple


# ----------------------------------------------------------------------------------------------
# deterministic structural key
# ----------------------------------------------------------------------------------------------
@lru_cache(maxsize=None)
def skey(t) -> str:
    if isinstance(t, tuple):
        return "(" + ",".join(skey(x) for x in t) + ")"
    if isinstance(t, Fraction):
        return f"F{t.numerator}/{t.denominator}"
    if isinstance(t, str):
        return "s" + repr(t)
    return type(t).__name__[0] + repr(t)


def ssorted(xs: Iterable) -> tuple:
    return tuple(sorted(set(xs), key=skey))


# ----------------------------------------------------------------------------------------------
# constructors for the simple kinds
# ----------------------------------------------------------------------------------------------
def sym(name: str) -> Term:
    return ("sym", name)


def const(v) -> Term:
    if isinstance(v, bool) or v is None or isinstance(v, str) or v is Ellipsis:
        return ("const", v)
    if isinstance(v, (int, Fraction)):
        return num_const(F(v))
    if isinstance(v, float):
        return num_const(F(str(v)))
    return ("const", repr(v))


TRUE = ("const", True)
FALSE = ("const", False)
NONE = ("const", None)


def is_const(t, v=...):
    if t[0] != "const":
        return False
    return True if v is ... else (t[1] is v or (t[1] == v and type(t[1]) is type(v)))


# ----------------------------------------------------------------------------------------------
# polynomials over atoms
# ----------------------------------------------------------------------------------------------
Poly = tuple  # ((monomial, coeff), ...)
ONE_M = ()


class _Coef(Fraction):
    """Coefficient as stored inside terms: a Fraction that remembers its hash.  Terms are nested tuples, tuples do not cache
    their hash, and Fraction.__hash__ is a Python-level modular inverse: without this, hashing terms dominates the run time."""
    __slots__ = ("_h",)

    def __new__(cls, v=0, d=None):
        if d is None and type(v) is _Coef:
            return v
        return super().__new__(cls, v, d)

    def __hash__(self):
        try:
            return self._h
        except AttributeError:
            self._h = h = Fraction.__hash__(self)
            return h


def _poly_from_dict(d: Dict[tuple, Fraction]) -> Poly:
    return tuple(sorted(((m, _Coef(c)) for m, c in d.items() if c != 0), key=lambda mc: skey(mc[0])))


def poly_const(c) -> Poly:
    c = _Coef(c)
    return ((ONE_M, c),) if c != 0 else ()


_Q1 = _Coef(1)


def poly_atom(a: Term) -> Poly:
    return ((((a, 1),), _Q1),)


def poly_add(p: Poly, q: Poly) -> Poly:
    d = dict(p)
    for m, c in q:
        d[m] = d.get(m, F(0)) + c
    return _poly_from_dict(d)


def poly_scale(p: Poly, k) -> Poly:
    k = F(k)
    return _poly_from_dict({m: c * k for m, c in p})


def _mono_mul(m1, m2):
    d = dict(m1)
    for a, e in m2:
        d[a] = d.get(a, 0) + e
    return tuple(sorted(((a, e) for a, e in d.items() if e != 0), key=lambda ae: skey(ae[0])))


def poly_mul(p: Poly, q: Poly) -> Poly:
    d: Dict[tuple, Fraction] = {}
    for m1, c1 in p:
        for m2, c2 in q:
            m = _mono_mul(m1, m2)
            d[m] = d.get(m, F(0)) + c1 * c2
    return _poly_from_dict(d)


def poly_is_const(p: Poly):
    if p == ():
        return F(0)
    if len(p) == 1 and p[0][0] == ONE_M:
        return p[0][1]
    return None


POLY_ONE = poly_const(1)


def _normalise_ratio(P: Poly, Q: Poly) -> Tuple[Poly, Poly]:
    if Q == ():
        raise ZeroDivisionError("division by the zero polynomial")
    if P == ():
        return (), POLY_ONE
    qc = poly_is_const(Q)
    if qc is not None:
        return poly_scale(P, 1 / qc), POLY_ONE
    # P == k * Q ?
    if len(P) == len(Q) and all(mp == mq for (mp, _), (mq, _) in zip(P, Q)):
        k = P[0][1] / Q[0][1]
        if all(cp == k * cq for (_, cp), (_, cq) in zip(P, Q)):
            return poly_const(k), POLY_ONE
    # single-monomial denominator: cancel common atom powers and the coefficient
    if len(Q) == 1:
        (mq, cq), = Q
        P = poly_scale(P, 1 / cq)
        mq_d = dict(mq)
        for a, e in list(mq_d.items()):
            common = min([dict(m).get(a, 0) for m, _ in P] + [e])
            if common > 0:
                P = _poly_from_dict({_mono_mul(m, ((a, -common),)): c for m, c in P})
                mq_d[a] = e - common
        mq2 = tuple(sorted(((a, e) for a, e in mq_d.items() if e != 0), key=lambda ae: skey(ae[0])))
        Q = ((mq2, _Q1),)
        if mq2 == ONE_M:
            return P, POLY_ONE
        return P, Q
    # exact multivariate division (e.g. (h*x - l*x) / (h - l) == x)
    quo = poly_exact_div(P, Q)
    if quo is not None:
        return quo, POLY_ONE
    # normalise leading coefficient of Q to 1
    lead = Q[0][1]
    return poly_scale(P, 1 / lead), poly_scale(Q, 1 / lead)


def poly_exact_div(P: Poly, Q: Poly):
    """Quotient if Q divides P exactly (lexicographic leading-term division), else None."""
    atoms = sorted({a for poly in (P, Q) for m, _ in poly for a, _e in m}, key=skey)
    if len(atoms) > 12 or len(P) > 60 or len(Q) > 20:
        return None
    idx = {a: i for i, a in enumerate(atoms)}

    def vec(m):
        v = [0] * len(atoms)
        for a, e in m:
            v[idx[a]] = e
        return tuple(v)

    def mono(v):
        return tuple((atoms[i], e) for i, e in enumerate(v) if e != 0)

    p = {vec(m): c for m, c in P}
    q = {vec(m): c for m, c in Q}
    if any(e < 0 for v in list(p) + list(q) for e in v):
        return None
    lq = max(q)
    quo: Dict[tuple, Fraction] = {}
    steps = 0
    while p:
        steps += 1
        if steps > 400:
            return None
        lp = max(p)
        if any(a < b for a, b in zip(lp, lq)):
            return None  # leading term not divisible: not an exact division
        d = tuple(a - b for a, b in zip(lp, lq))
        c = p[lp] / q[lq]
        quo[d] = quo.get(d, F(0)) + c
        for vq, cq in q.items():
            v = tuple(a + b for a, b in zip(vq, d))
            nv = p.get(v, F(0)) - c * cq
            if nv == 0:
                p.pop(v, None)
            else:
                p[v] = nv
    return _poly_from_dict({mono(v): c for v, c in quo.items()})


def mk_num(P: Poly, Q: Poly = POLY_ONE) -> Term:
    P, Q = _normalise_ratio(P, Q)
    # a bare atom stays an atom (so that non-numeric values flowing through '+0' are not distorted)
    if Q == POLY_ONE and len(P) == 1 and P[0][1] == 1 and len(P[0][0]) == 1 and P[0][0][0][1] == 1:
        return P[0][0][0][0]
    return ("num", P, Q)


def num_const(c) -> Term:
    return ("num", poly_const(c), POLY_ONE)


ZERO = num_const(0)
ONE = num_const(1)


def as_ratio(t: Term) -> Tuple[Poly, Poly]:
    if t[0] == "num":
        return t[1], t[2]
    return poly_atom(t), POLY_ONE


def const_value(t: Term):
    """Fraction value if t is a numeric constant, else None."""
    if t[0] == "num" and t[2] == POLY_ONE:
        return poly_is_const(t[1])
    return None


def is_numeric(t: Term) -> bool:
    return t[0] in ("num", "max")


# ----------------------------------------------------------------------------------------------
# max-plus layer
# ----------------------------------------------------------------------------------------------
def _max_items(t: Term) -> tuple:
    return t[1] if t[0] == "max" else (t,)


def mk_max(items: Iterable[Term]) -> Term:
    items = list(items)
    for i, it in enumerate(items):
        if it[0] == "ite":
            rest = items[:i] + items[i + 1:]
            return mk_ite(it[1], mk_max([it[2]] + rest), mk_max([it[3]] + rest))
    flat = []
    for it in items:
        flat.extend(_max_items(it))
    flat = list(ssorted(flat))
    # remove dominated items: a vs a + c with constant c
    keep = []
    for i, a in enumerate(flat):
        dominated = False
        for j, b in enumerate(flat):
            if i == j:
                continue
            d = const_value(sub(b, a))
            if d is not None and (d > 0 or (d == 0 and j < i)):
                dominated = True
                break
        if not dominated:
            keep.append(a)
    if len(keep) == 1:
        return keep[0]
    return ("max", tuple(keep))


def mk_min(items: Iterable[Term]) -> Term:
    return neg(mk_max([neg(i) for i in items]))


def _lift(a: Term, f) -> Term:
    return mk_ite(a[1], f(a[2]), f(a[3]))


def add(a: Term, b: Term) -> Term:
    if a[0] == "ite":
        return _lift(a, lambda x: add(x, b))
    if b[0] == "ite":
        return _lift(b, lambda y: add(a, y))
    if a[0] == "max" or b[0] == "max":
        return mk_max([add(x, y) for x in _max_items(a) for y in _max_items(b)])
    Pa, Qa = as_ratio(a)
    Pb, Qb = as_ratio(b)
    if Qa == Qb:
        return mk_num(poly_add(Pa, Pb), Qa)
    return mk_num(poly_add(poly_mul(Pa, Qb), poly_mul(Pb, Qa)), poly_mul(Qa, Qb))


def neg(a: Term) -> Term:
    if a[0] == "ite":
        return _lift(a, neg)
    if a[0] == "max":
        return mk_num(poly_scale(poly_atom(a), -1))
    P, Q = as_ratio(a)
    return mk_num(poly_scale(P, -1), Q)


def sub(a: Term, b: Term) -> Term:
    return add(a, neg(b))


def mul(a: Term, b: Term) -> Term:
    if a[0] == "ite":
        return _lift(a, lambda x: mul(x, b))
    if b[0] == "ite":
        return _lift(b, lambda y: mul(a, y))
    ca, cb = const_value(a), const_value(b)
    if a[0] == "max" and cb is not None and cb >= 0:
        return mk_max([mul(x, b) for x in a[1]])
    if b[0] == "max" and ca is not None and ca >= 0:
        return mk_max([mul(a, y) for y in b[1]])
    Pa, Qa = as_ratio(a)
    Pb, Qb = as_ratio(b)
    return mk_num(poly_mul(Pa, Pb), poly_mul(Qa, Qb))


def div(a: Term, b: Term) -> Term:
    if a[0] == "ite":
        return _lift(a, lambda x: div(x, b))
    if b[0] == "ite":
        return _lift(b, lambda y: div(a, y))
    cb = const_value(b)
    if cb is not None and cb != 0:
        return mul(a, num_const(1 / cb))
    Pa, Qa = as_ratio(a)
    Pb, Qb = as_ratio(b)
    if Pb == ():
        return ("unk", "division by zero", None)
    return mk_num(poly_mul(Pa, Qb), poly_mul(Qa, Pb))


def power(a: Term, n: int) -> Term:
    r = ONE
    for _ in range(n):
        r = mul(r, a)
    return r


# ----------------------------------------------------------------------------------------------
# booleans
# ----------------------------------------------------------------------------------------------
def _sign_normalise(n: Term) -> Term:
    """For eq0: make the first coefficient positive."""
    P, Q = as_ratio(n)
    if P and P[0][1] < 0:
        return mk_num(poly_scale(P, -1), Q)
    return n


def _drop_pos_den(n: Term) -> Term:
    return n


def lt(a: Term, b: Term) -> Term:
    d = sub(a, b)
    c = const_value(d)
    if c is not None:
        return TRUE if c < 0 else FALSE
    return ("lt0", d)


def le(a: Term, b: Term) -> Term:
    d = sub(a, b)
    c = const_value(d)
    if c is not None:
        return TRUE if c <= 0 else FALSE
    return ("le0", d)


def _looks_numeric(t: Term) -> bool:
    return t[0] in ("num", "max")


def eq(a: Term, b: Term, numeric: bool = None) -> Term:
    if a == b:
        return TRUE
    if numeric is None:
        numeric = _looks_numeric(a) or _looks_numeric(b)
    if a[0] == "const" and b[0] == "const":
        return TRUE if a == b else FALSE
    # a length is never negative: len(x) == 0 is len(x) <= 0 (and len(x) != 0 is 0 < len(x)): one form for the emptiness test
    for u, k in ((a, b), (b, a)):
        if k == ZERO and u[0] == "call" and u[1] == "len" and len(u[2]) == 1:
            return le(u, ZERO)
    # comparing a conditionally bound value with a constant: `(x if c else None) is None`  ==  `not c or x is None`
    for u, k in ((a, b), (b, a)):
        if u[0] == "ite" and k[0] == "const" and (u[2][0] == "const" or u[3][0] == "const"):
            return mk_ite(u[1], eq(u[2], k, numeric), eq(u[3], k, numeric))
    if a[0] == "sym" and b[0] == "sym" and a != b and _distinct_constants(a[1], b[1]):
        return FALSE
    if (a[0] == "sym" and b[0] == "const" and _is_enum_member(a[1])) or (
            b[0] == "sym" and a[0] == "const" and _is_enum_member(b[1])):
        return FALSE
    if numeric and not (a[0] == "const" or b[0] == "const"):
        d = sub(a, b)
        c = const_value(d)
        if c is not None:
            return TRUE if c == 0 else FALSE
        return ("eq0", _sign_normalise(d))
    ca, cb = const_value(a), const_value(b)
    if ca is not None and cb is not None:
        return TRUE if ca == cb else FALSE
    return ("eq", ssorted([a, b]) if a != b else (a, a))


ENUM_PREFIX = "rex.constants."


def _is_enum_member(name: str) -> bool:
    # rex.constants.<Enum>.<MEMBER>
    return name.startswith(ENUM_PREFIX) and name.count(".") == 3


def _distinct_constants(n1: str, n2: str) -> bool:
    return _is_enum_member(n1) and _is_enum_member(n2)


def mk_not(t: Term) -> Term:
    k = t[0]
    if k == "const":
        if t[1] is True:
            return FALSE
        if t[1] is False:
            return TRUE
        return ("not", t)
    if k == "not":
        return t[1]
    if k == "lt0":
        return ("le0", neg(t[1]))
    if k == "le0":
        return ("lt0", neg(t[1]))
    if k == "and":
        return mk_or([mk_not(x) for x in t[1]])
    if k == "or":
        return mk_and([mk_not(x) for x in t[1]])
    return ("not", t)


def mk_and(items: Iterable[Term]) -> Term:
    out = []
    for it in items:
        if it == TRUE:
            continue
        if it == FALSE:
            return FALSE
        if it[0] == "and":
            out.extend(it[1])
        else:
            out.append(it)
    out = ssorted(out)
    for x in out:
        if mk_not(x) in out:
            return FALSE
    if not out:
        return TRUE
    if len(out) == 1:
        return out[0]
    return ("and", out)


def mk_or(items: Iterable[Term]) -> Term:
    out = []
    for it in items:
        if it == FALSE:
            continue
        if it == TRUE:
            return TRUE
        if it[0] == "or":
            out.extend(it[1])
        else:
            out.append(it)
    out = ssorted(out)
    for x in out:
        if mk_not(x) in out:
            return TRUE
    if not out:
        return FALSE
    if len(out) == 1:
        return out[0]
    return ("or", out)


def mk_ite(c: Term, a: Term, b: Term) -> Term:
    cv = const_value(c)
    if cv is not None:
        return a if cv != 0 else b
    if c == TRUE:
        return a
    if c == FALSE:
        return b
    if a == b:
        return a
    if c[0] in ("lt0", "le0") and not (const_value(a) is not None and const_value(b) is not None) and a[0] not in ("closure", "tuple", "list", "dict", "obj") \
            and b[0] not in ("closure", "tuple", "list", "dict", "obj"):
        # a if a > b else b  is  max(a, b)   (and the three other spellings; ties give equal values)
        for x, y in ((a, b), (b, a)):
            for mk in (lt, le):
                if c == mk(x, y):
                    # c says x < y (x <= y)
                    return mk_max([a, b]) if (a, b) == (y, x) else mk_min([a, b])
    if c[0] == "not":
        return mk_ite(c[1], b, a)
    nc = mk_not(c)
    if nc[0] != "not" and skey(nc) < skey(c):
        return ("ite", nc, b, a)
    if a == TRUE and b == FALSE:
        return c
    if a == FALSE and b == TRUE:
        return mk_not(c)
    if b == TRUE and _is_bool(a):
        return mk_or([mk_not(c), a])
    if b == FALSE and _is_bool(a):
        return mk_and([c, a])
    if a == TRUE and _is_bool(b):
        return mk_or([c, b])
    if a == FALSE and _is_bool(b):
        return mk_and([mk_not(c), b])
    if c[0] == "in" and a == ("index", c[2], c[1]):
        # d[k] if k in d else default  ==  d.get(k, default)
        d = c[2]
        return ("call", d[1] + ".get" if d[0] == "sym" else ("attr", d, "get"), (c[1], b), (), None)
    if _has_cond(a, c) or _has_cond(b, c):
        a2, b2 = assume(a, c, True), assume(b, c, False)
        if (a2, b2) != (a, b):
            return mk_ite(c, a2, b2)
    return ("ite", c, a, b)


def _is_bool(t: Term) -> bool:
    return t[0] in ("eq", "eq0", "lt0", "le0", "not", "and", "or", "in") or t in (TRUE, FALSE)


def _has_cond(t: Term, c: Term) -> bool:
    nc = mk_not(c)
    parts = set(c[1]) if c[0] == "and" else {c}
    for x in walk(t):
        if x[0] == "ite" and (x[1] == c or x[1] == nc or x[1] in parts):
            return True
    return False


# ----------------------------------------------------------------------------------------------
# structure
# ----------------------------------------------------------------------------------------------
METHOD_NAMES: set = set()  # filled by Model: names that are methods (not fields / properties) of in-repo classes


def mk_attr(base: Term, name: str) -> Term:
    if base[0] == "sym":
        return ("sym", base[1] + "." + name)
    if base[0] == "obj":
        for f, v in base[2]:
            if f == name:
                return v
        return ("attr", base, name)
    if base[0] == "replace":
        for f, v in base[2]:
            if f == name:
                return v
        if name in METHOD_NAMES:
            return ("attr", base, name)  # a method of the changed record: not the method of the record it was copied from
        return mk_attr(base[1], name)
    if base[0] == "ite":
        return mk_ite(base[1], mk_attr(base[2], name), mk_attr(base[3], name))
    return ("attr", base, name)


def mk_index(base: Term, idx: Term) -> Term:
    c = const_value(idx)
    if base[0] in ("tuple", "list") and idx[0] == "const" and isinstance(idx[1], bool) and len(base[1]) == 2:
        return base[1][int(idx[1])]  # (a, b)[True] is b
    if base[0] in ("tuple", "list") and c is not None and c.denominator == 1:
        i = int(c)
        if -len(base[1]) <= i < len(base[1]):
            return base[1][i]
    if base[0] == "dict":
        for k, v in base[1]:
            if k == idx:
                return v
    if base[0] == "ite":
        return mk_ite(base[1], mk_index(base[2], idx), mk_index(base[3], idx))
    if idx[0] == "elem" and idx[1] == base and base[0] in ("sym", "attr", "index"):
        # `for k in d: ... d[k]` is the value bound by `for k, v in d.items()` (same loop, component 1)
        items = ("call", base[1] + ".items", (), (), None) if base[0] == "sym" else ("call", ("attr", base, "items"), (), (), None)
        return ("index", ("elem", items, idx[2]), ONE)
    return ("index", base, idx)


def mk_reduce(x: Term, how: str, kwargs=()) -> Term:
    """x.<how>(**kwargs): the normal form of a reduction of an array (jnp.mean(x, axis=0) and x.mean(axis=0) both read like this)."""
    f = (x[1] + "." + how) if x[0] == "sym" else ("attr", x, how)
    return ("call", f, (), tuple(kwargs), None)


def mk_replace(base: Term, updates: Tuple[Tuple[str, Term], ...]) -> Term:
    updates = tuple(updates)
    if base[0] == "obj":
        d = dict(base[2])
        order = [f for f, _ in base[2]]
        for f, v in updates:
            if f not in d:
                order.append(f)
            d[f] = v
        return ("obj", base[1], tuple((f, d[f]) for f in order))
    if base[0] == "replace":
        d = dict(base[2])
        for f, v in updates:
            d[f] = v
        return ("replace", base[1], tuple(sorted(d.items())))
    return ("replace", base, tuple(sorted(dict(updates).items())))


def call_name(t: Term) -> str:
    """Dotted callee name of a call term: 'self.q.popleft' or '<receiver>.method' for non-symbolic receivers."""
    if t[0] != "call":
        return ""
    f = t[1]
    if isinstance(f, str):
        return f
    parts = []
    while f[0] == "attr":
        parts.append(f[2])
        f = f[1]
    base = f[1] if f[0] == "sym" else "<" + show(f) + ">"
    return ".".join([base] + list(reversed(parts)))


def mk_call(f, args=(), kwargs=(), uid=None) -> Term:
    if isinstance(f, tuple) and f[0] == "sym":
        f = f[1]
    return ("call", f, tuple(args), tuple(sorted(kwargs)), uid)


# ----------------------------------------------------------------------------------------------
# traversal / substitution
# ----------------------------------------------------------------------------------------------
def children(t: Term) -> Iterable[Term]:
    k = t[0]
    if k in ("sym", "const", "closure", "unk"):
        return ()
    if k == "num":
        out = []
        for poly in (t[1], t[2]):
            for m, _ in poly:
                for a, _e in m:
                    out.append(a)
        return out
    if k in ("max", "and", "or", "tuple", "list"):
        return t[1]
    if k in ("lt0", "le0", "eq0", "not"):
        return (t[1],)
    if k == "eq":
        return t[1]
    if k == "ite":
        return t[1:]
    if k == "call":
        out = list(t[2]) + [v for _, v in t[3]]
        if isinstance(t[1], tuple):
            out.append(t[1])
        return out
    if k == "attr":
        return (t[1],)
    if k == "index":
        return (t[1], t[2])
    if k == "slice":
        return tuple(x for x in t[1:] if isinstance(x, tuple))
    if k == "dict":
        return [x for kv in t[1] for x in kv]
    if k in ("obj", "replace"):
        base = [t[1]] if k == "replace" else []
        return base + [v for _, v in t[2]]
    if k == "comp":
        return [t[2]] + [it for _, it in t[3]] + list(t[4])
    if k == "elem":
        return (t[1],)
    if k == "star":
        return (t[1],)
    if k == "accum":
        return [t[1]] + [x for i in t[2] for x in (i[1], i[2]) if isinstance(x, tuple)]
    return [x for x in t[1:] if isinstance(x, tuple)]


def walk(t: Term):
    seen = set()
    stack = [t]
    while stack:
        x = stack.pop()
        if not isinstance(x, tuple) or not x or not isinstance(x[0], str):
            continue
        if x in seen:
            continue
        seen.add(x)
        yield x
        stack.extend(children(x))


def contains(t: Term, pred: Callable[[Term], bool]) -> bool:
    return any(pred(x) for x in walk(t))


def atoms_of(t: Term):
    """Leaf-like subterms (sym / call / elem / index / attr) — used to list what a term depends on."""
    return [x for x in walk(t) if x[0] in ("sym", "call", "elem", "index", "attr", "unk")]


def subst(t: Term, mapping: Dict[Term, Term], _memo=None) -> Term:
    """Replace subterms and re-normalise."""
    if _memo is None:
        # memo by identity (the input term keeps every subterm alive): avoids re-hashing whole subtrees at every node; the
        # mapping itself is only consulted for terms of a kind that occurs among its keys
        _memo = {"__kinds__": {m[0] for m in mapping}}
    if t[0] in _memo["__kinds__"] and t in mapping:
        return mapping[t]
    got = _memo.get(id(t))
    if got is not None:
        return got
    k = t[0]
    r = t
    S = lambda x: subst(x, mapping, _memo)
    if k == "sym":
        r = t
        if "." in t[1]:
            syms = _memo.get("__syms__")
            if syms is None:
                syms = {m[1] for m in mapping if m[0] == "sym"}
                _memo["__syms__"] = syms
            if syms:
                parts = t[1].split(".")
                for i in range(len(parts) - 1, 0, -1):
                    prefix = ".".join(parts[:i])
                    if prefix in syms:
                        r = mapping[("sym", prefix)]
                        for p in parts[i:]:
                            r = mk_attr(r, p)
                        break
    elif k in ("const", "closure", "unk"):
        r = t
    elif k == "num":
        def ev(poly):
            acc = ZERO
            for m, c in poly:
                term = num_const(c)
                for a, e in m:
                    sa = S(a)
                    if e > 0:
                        term = mul(term, power(sa, e))
                    else:
                        term = div(term, power(sa, -e))
                acc = add(acc, term)
            return acc
        r = div(ev(t[1]), ev(t[2])) if t[2] != POLY_ONE else ev(t[1])
    elif k == "max":
        r = mk_max([S(x) for x in t[1]])
    elif k == "lt0":
        r = lt(S(t[1]), ZERO)
    elif k == "le0":
        r = le(S(t[1]), ZERO)
    elif k == "eq0":
        r = eq(S(t[1]), ZERO, numeric=True)
    elif k == "eq":
        r = eq(S(t[1][0]), S(t[1][1]))
    elif k == "not":
        r = mk_not(S(t[1]))
    elif k == "and":
        r = mk_and([S(x) for x in t[1]])
    elif k == "or":
        r = mk_or([S(x) for x in t[1]])
    elif k == "ite":
        r = mk_ite(S(t[1]), S(t[2]), S(t[3]))
    elif k == "call":
        f = t[1]
        if isinstance(f, tuple):
            if f[0] == "attr":
                # callee = method of a receiver: keep replace/ite receivers intact (x.replace(a=1).m() is not x.m())
                rv = S(f[1])
                f = ("attr", rv, f[2]) if rv[0] in ("replace", "ite") else mk_attr(rv, f[2])
            else:
                f = S(f)
        if isinstance(f, tuple) and f[0] == "sym":
            f = f[1]
        r = ("call", f, tuple(S(x) for x in t[2]), tuple((kk, S(v)) for kk, v in t[3]), t[4])
    elif k == "attr":
        r = mk_attr(S(t[1]), t[2])
    elif k == "index":
        r = mk_index(S(t[1]), S(t[2]))
    elif k == "slice":
        r = ("slice",) + tuple(S(x) if isinstance(x, tuple) else x for x in t[1:])
    elif k in ("tuple", "list"):
        r = (k, tuple(S(x) for x in t[1]))
    elif k == "dict":
        r = ("dict", tuple((S(a), S(b)) for a, b in t[1]))
    elif k == "obj":
        r = ("obj", t[1], tuple((f, S(v)) for f, v in t[2]))
    elif k == "replace":
        r = mk_replace(S(t[1]), tuple((f, S(v)) for f, v in t[2]))
    elif k == "comp":
        r = ("comp", t[1], S(t[2]), tuple((v, S(it)) for v, it in t[3]), tuple(S(c) for c in t[4]))
    elif k == "elem":
        r = ("elem", S(t[1]), t[2])
    elif k == "star":
        r = ("star", S(t[1]))
    else:
        r = tuple(S(x) if isinstance(x, tuple) and x and isinstance(x[0], str) else x for x in t)
    _memo[id(t)] = r
    return r


def where_to_ite(t: Term) -> Term:
    """Read every jnp.where(c, a, b) in t as an elementwise ite(c, a, b) (for rules that reason leaf-wise)."""
    for _ in range(6):
        ws = [x for x in walk(t) if x[0] == "call" and x[1] == "jax.numpy.where" and len(x[2]) == 3]
        if not ws:
            return t
        inner = [w for w in ws if not any(y is not w and y[0] == "call" and y[1] == "jax.numpy.where" for y in walk(w))] or ws
        t = subst(t, {w: mk_ite(w[2][0], w[2][1], w[2][2]) for w in inner})
    return t


def assume(t: Term, cond: Term, value: bool = True) -> Term:
    """Specialise t under the assumption that cond is true (false): cond, its conjuncts and their negations
    are replaced by constants wherever they occur (as ite selectors or guards)."""
    mapping: Dict[Term, Term] = {}
    if not value:
        cond = mk_not(cond)
    parts = cond[1] if cond[0] == "and" else (cond,)
    for c in (cond,) + tuple(parts):
        mapping[c] = TRUE
        mapping[mk_not(c)] = FALSE
    return subst(t, mapping)


# ----------------------------------------------------------------------------------------------
# concrete evaluation over a finite valuation (ordering abstraction A6, done∈{0,1} specialisation)
# ----------------------------------------------------------------------------------------------
class NoValue(Exception):
    pass


def evaluate(t: Term, val: Dict[Term, Any]):
    """Evaluate a numeric/boolean term under a valuation of atoms (Fraction / bool). Atoms without a
    value raise NoValue: the caller treats the obligation as UNKNOWN, never as satisfied."""
    if t in val:
        return val[t]
    k = t[0]
    if k == "const":
        return t[1]
    if k == "num":
        def ev(poly):
            acc = F(0)
            for m, c in poly:
                term = c
                for a, e in m:
                    v = evaluate(a, val)
                    if isinstance(v, bool):
                        v = F(int(v))
                    term = term * (F(v) ** e)
                acc += term
            return acc
        q = ev(t[2])
        if q == 0:
            raise NoValue("division by zero")
        return ev(t[1]) / q
    if k == "max":
        return max(evaluate(x, val) for x in t[1])
    if k == "lt0":
        return evaluate(t[1], val) < 0
    if k == "le0":
        return evaluate(t[1], val) <= 0
    if k == "eq0":
        return evaluate(t[1], val) == 0
    if k == "eq":
        return evaluate(t[1][0], val) == evaluate(t[1][1], val)
    if k == "not":
        return not evaluate(t[1], val)
    if k == "and":
        return all(evaluate(x, val) for x in t[1])
    if k == "or":
        return any(evaluate(x, val) for x in t[1])
    if k == "ite":
        return evaluate(t[2], val) if evaluate(t[1], val) else evaluate(t[3], val)
    raise NoValue(show(t))


# ----------------------------------------------------------------------------------------------
# pretty printer
# ----------------------------------------------------------------------------------------------
def _show_poly(p: Poly) -> str:
    if p == ():
        return "0"
    parts = []
    for m, c in p:
        fac = []
        for a, e in m:
            s = show(a)
            if a[0] in ("max", "ite", "num"):
                s = "(" + s + ")"
            fac.append(s if e == 1 else f"{s}^{e}")
        if not fac:
            parts.append(str(c))
        elif c == 1:
            parts.append("*".join(fac))
        elif c == -1:
            parts.append("-" + "*".join(fac))
        else:
            parts.append(f"{c}*" + "*".join(fac))
    return " + ".join(parts).replace("+ -", "- ")


def show(t) -> str:
    if not isinstance(t, tuple) or not t:
        return repr(t)
    k = t[0]
    if k == "sym":
        return t[1]
    if k == "const":
        return repr(t[1])
    if k == "num":
        s = _show_poly(t[1])
        if t[2] != POLY_ONE:
            s = f"({s})/({_show_poly(t[2])})"
        return s
    if k == "max":
        return "max(" + ", ".join(show(x) for x in t[1]) + ")"
    if k == "lt0":
        return f"[{show(t[1])} < 0]"
    if k == "le0":
        return f"[{show(t[1])} <= 0]"
    if k == "eq0":
        return f"[{show(t[1])} == 0]"
    if k == "eq":
        return f"[{show(t[1][0])} == {show(t[1][1])}]"
    if k == "not":
        return "not " + show(t[1])
    if k in ("and", "or"):
        return "(" + f" {k} ".join(show(x) for x in t[1]) + ")"
    if k == "ite":
        return f"ite({show(t[1])}, {show(t[2])}, {show(t[3])})"
    if k == "call":
        f = t[1] if isinstance(t[1], str) else call_name(t)
        a = [show(x) for x in t[2]] + [f"{kk}={show(v)}" for kk, v in t[3]]
        u = f"#{t[4]}" if t[4] is not None else ""
        return f"{f}{u}(" + ", ".join(a) + ")"
    if k == "attr":
        return f"{show(t[1])}.{t[2]}"
    if k == "index":
        return f"{show(t[1])}[{show(t[2])}]"
    if k == "slice":
        return f"{show(t[1])}[{':'.join('' if x is None else show(x) for x in t[2:])}]"
    if k == "tuple":
        return "(" + ", ".join(show(x) for x in t[1]) + ")"
    if k == "list":
        return "[" + ", ".join(show(x) for x in t[1]) + "]"
    if k == "dict":
        return "{" + ", ".join(f"{show(a)}: {show(b)}" for a, b in t[1]) + "}"
    if k == "obj":
        return f"{t[1]}(" + ", ".join(f"{f}={show(v)}" for f, v in t[2]) + ")"
    if k == "replace":
        return f"{show(t[1])}.replace(" + ", ".join(f"{f}={show(v)}" for f, v in t[2]) + ")"
    if k == "comp":
        return f"<{t[1]} {show(t[2])} for " + ", ".join(f"{v} in {show(it)}" for v, it in t[3]) + (
            " if " + " and ".join(show(c) for c in t[4]) if t[4] else "") + ">"
    if k == "elem":
        return f"elem#{t[2]}({show(t[1])})"
    if k == "closure":
        return f"<closure {t[1]}>"
    if k == "unk":
        return f"<?{t[1]}#{t[2]}>"
    if k == "star":
        return "*" + show(t[1])
    if k == "accum":
        return show(t[1]) + " ++ [" + ", ".join(f"{show(i[2])} if {show(i[1])}" + ("*" if i[3] else "") for i in t[2]) + "]"
    return "<" + " ".join(show(x) if isinstance(x, tuple) else repr(x) for x in t) + ">"


def dict_value(x: Term, of: str = None):
    """If x is the value bound by iterating a dict (canonical form index(elem(<d>.items()), 1)), return the `.items()` call
    (optionally only for the dict named `of`), else None."""
    if x[0] == "index" and x[1][0] == "elem" and const_value(x[2]) == 1:
        it = x[1][1]
        if it[0] == "call" and not it[2] and ((isinstance(it[1], str) and it[1].endswith(".items")) or (isinstance(it[1], tuple) and it[1][0] == "attr" and it[1][2] == "items")):
            if of is None or it[1] == of + ".items":
                return it
    return None
