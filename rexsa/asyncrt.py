"""Shared view of the threaded runtime (rex/asynchronous.py) for the async properties.

Evaluates each wrapper method once (value numbering) and offers provenance-based lookups: the term popped
from a queue, the tuple appended to a queue, configuration substitutions.
"""
from __future__ import annotations

from typing import Dict, List, Optional, Tuple

from . import terms as T
from .model import Model
from .report import AnalysisError
from .symeval import Event, Result, SymEval

NODE = "asynchronous._AsyncNodeWrapper"
CONN = "asynchronous._AsyncConnectionWrapper"
SYNC = "asynchronous._Synchronizer"
GRAPH = "asynchronous.AsyncGraph"

SELF_TYPES = {
    "self.input_node": NODE,
    "self.output_node": NODE,
}

CLOCK = T.sym("self._clock")
IN_CLOCK = T.sym("self.input_node._clock")
SIMULATED = T.sym("rex.constants.Clock.SIMULATED")
WALL = T.sym("rex.constants.Clock.WALL_CLOCK")
FREQUENCY = T.sym("rex.constants.Scheduling.FREQUENCY")
PHASE = T.sym("rex.constants.Scheduling.PHASE")
LATEST = T.sym("rex.constants.Jitter.LATEST")
BUFFER = T.sym("rex.constants.Jitter.BUFFER")


class AsyncRT:
    def __init__(self, model: Model):
        self.model = model
        self._cache: Dict[Tuple[str, tuple], Result] = {}

    def eval(self, qual: str, inline: Tuple[str, ...] = ()) -> Result:
        key = (qual, tuple(inline))
        if key not in self._cache:
            fi = self.model.func(qual)
            ev = SymEval(self.model, inline=inline, self_types=SELF_TYPES)
            owner = qual.rsplit(".", 1)[0]
            self._cache[key] = ev.run_function(fi, as_class=owner if owner in self.model.classes and owner != fi.cls and fi.parent is None else None)
        return self._cache[key]

    def node(self, name: str, inline=()) -> Result:
        return self.eval(f"{NODE}.{name}", inline)

    def conn(self, name: str, inline=()) -> Result:
        return self.eval(f"{CONN}.{name}", inline)


# ------------------------------------------------------------------ provenance helpers
def queue_of(ev: Event) -> Optional[str]:
    """'q_x' if the event is a method call on a deque attribute '<recv>.q_x.<op>'."""
    parts = ev.name.replace("<", "").replace(">", "").split(".")
    if len(parts) >= 2 and (parts[-2].startswith("q_") or parts[-2].startswith("_q_")):
        return parts[-2]
    return None


def queue_ops(res: Result, queue: str, op: str, func: Optional[str] = None) -> List[Event]:
    out = []
    for e in res.events:
        if e.kind != "call":
            continue
        if not e.name.endswith(f".{queue}.{op}"):
            continue
        if func is not None and e.func != func:
            continue
        out.append(e)
    return out


def one(events: List[Event], what: str) -> Event:
    if len(events) != 1:
        raise AnalysisError(f"expected exactly one {what}, found {len(events)}")
    return events[0]


def popped(res: Result, queue: str) -> T.Term:
    return one(queue_ops(res, queue, "popleft"), f"popleft on {queue}").term


def appended(res: Result, queue: str, n: int = 1) -> List[Event]:
    evs = queue_ops(res, queue, "append")
    if len(evs) != n:
        raise AnalysisError(f"expected {n} append(s) on {queue}, found {len(evs)}")
    return evs


def config_subst(term: T.Term, mapping: Dict[T.Term, T.Term]) -> T.Term:
    return T.subst(term, mapping)


def mentions(term: T.Term, needle: str) -> bool:
    return any((x[0] == "sym" and needle in x[1]) or (x[0] == "call" and isinstance(x[1], str) and needle in x[1])
               or (x[0] == "attr" and needle == x[2]) for x in T.walk(term))


def ite_conds(term: T.Term) -> List[T.Term]:
    return [x[1] for x in T.walk(term) if x[0] == "ite"]
