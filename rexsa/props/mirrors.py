"""Obligations that belong to more than one property.

A change seeded against property X often lands in code whose obligation was first written down for property Y (the law of step
start times is also what makes recorded episodes causal; the clip of the step counter is also what makes every partition run
once).  Each property's check must report such a change itself, so the rule groups listed here are evaluated a second time and
filed under a rule id of the dependent property.  (home module, {home rule id: rule id here}, instances that stay at home)."""
MIRRORS = {
    # the compiled replay applies a trainable delay to the recorded windows: same arrival predicate, same distribution carried
    # (F1's instance was demonstrated for C10 only and stays there)
    "C01": [("c10", {"C10.arrival": "C01.protocol", "C10.apply": "C01.protocol"}, {("C10.arrival", "skip=True tie")}),
            # the dependency graph the schedule is computed from carries every message of every window; the recorded group is the group the step
            # saw; the per-episode graphs keep the episode order of the windowed graphs
            ("c14", {"C14.convert": ("C01.chain", "WindowedGraph.to_graph")}, ()), ("c03", {"C03.window": "C01.protocol"}, ()),
            ("c07", {"C07.modes": ("C01.chain", "episode order")}, ()),
            # what a replayed step reads is what the producers wrote where the readers look: the ring writers
            ("c08", {"C08.writers": "C01.buffer"}, ()),
            # a default-length rollout stays inside the compiled horizon (a run past it rewrites the last step's output and record)
            ("c09", {"C09.api": ("C01.chain", "rollout:default")}, ())],
    # what a selector takes depends on the queued times only (tie tables), and nothing of an earlier episode survives a reset
    # ... and a lifecycle call returns only after the tasks queued before it have run (the stopping task goes through the executor)
    "C02": [("c03", {"C03.tie": "C02.future"}, ()), ("c05", {"C05.reset": "C02.handoff", "C05.typestate": ("C02.handoff", "flip-submit:")}, ())],
    # a blocking step waits for the arrival of every message it consumes
    # ... and nothing handed to a connection that is ready to receive (READY or RUNNING) is dropped on the way
    "C03": [("c04", {"C04.ts_max": "C03.overlap"}, ()), ("c05", {"C05.typestate": ("C03.counter", "gate:conn")}, ())],
    # ... and for exactly the messages the tiling assigns to it
    # the expected delay that enters the phases is the one given (0.0 included), by default the 0.99-quantile
    # ... and the delays that enter the law are samples of the configured distributions (what warmup binds the samplers to)
    "C04": [("c03", {"C03.tiling": "C04.ts_max"}, ()), ("c15", {"C15.default": "C04.phase"}, ()), ("c16", {"C16.bind": "C04.end"}, ())],
    # generated delays are the clipped samples of the configured distributions
    "C12": [("c15", {"C15.nonneg": ("C12.scan", "StaticDist.sample")}, ()),
            # ... and a trainable connection is generated with its minimal delay (the compiled runtime adds the rest; it can only shift later)
            ("c10", {"C10.generate": "C12.scan"}, ())],
    # the interpolation samples the signal at step start minus the *current* delay: the distribution carried in the input state is the
    # one applied, once per input and step, with the sender's rate and the step's start time
    "C11": [("c10", {"C10.apply": "C11.knots"}, ())],
    # a delay set between episodes is what the next episode simulates: no pre-drawn sample of the old distribution survives a reset
    "C16": [("c05", {"C05.reset": ("C16.phase", "node.q_sample")}, ()),
            # the trainable delay a graph is initialised with is the configured distribution's (not the expected delay used for the phases)
            ("c10", {"C10.saturate": ("C16.bind", "default init_delays")}, ()),
            # ... and the generated simulation graphs use each node's configured computation delay
            ("c12", {"C12.scan": ("C16.bind", "each node is generated")}, ())],
    # every partition is selected once (clip of the step counter) and every generation of it is visited once, in order
    # run() performs both stages on every call: the last partition of the horizon included
    "C06": [("c09", {"C09.clip": "C06.count", "C09.api": ("C06.count", "run")}, ()), ("c07", {"C07.order": "C06.count"}, ())],
    # window length of a trainable connection
    "C07": [("c10", {"C10.window": "C07.window"}, ()),
            # a scheduled vertex runs: the only slots a generation passes over are the supervisor's and those of the kinds the user skips
            ("c06", {"C06.count": ("C07.order", "_run_generation: only")}, ()),
            # the dependency graph carries every message of every window; every partition of the horizon can be selected
            ("c14", {"C14.convert": ("C07.edges", "WindowedGraph.to_graph")}, ()), ("c09", {"C09.clip": "C07.order"}, ()),
            # supervisor step p closes partition p under its own scheduled sequence number (what the windows of later partitions name)
            ("c08", {"C08.writers": ("C07.order", "_update_state writes")}, ())],
    # a window names producers that ran before the reader (the dependency graph has every window entry); a new episode starts from the
    # stored initial state, rings included
    # ... the trainable-delay sub-window is one slice of all four columns of the gathered window
    "C08": [("c14", {"C14.convert": ("C08.order", "WindowedGraph.to_graph")}, ()), ("c19", {"C19.autoreset": ("C08.writers", "graph state")}, ()),
            ("c10", {"C10.window": ("C08.map", "zoh slice")}, ())],
    # the delay given to init() through the params is the one the steps see
    # ... and every step sees the sequence number of its slot, whichever step the episode was started from
    # ... the supervisor's output is filed under the step's scheduled sequence number whoever supplies it; a node's step result is carried on whole
    "C09": [("c10", {"C10.apply": "C09.params"}, ()), ("c06", {"C06.result": ("C09.api", "_run_node: step sees")}, ()),
            ("c08", {"C08.writers": ("C09.api", "_update_state writes")}, ()), ("c13", {"C13.origin": ("C09.api", "compiled state chain")}, ())],
    # recorded times are the times the step used
    "C13": [("c04", {"C04.record": "C13.origin"}, ())],
    # a trainable delay stays inside [min, max] (>= 0)
    "C15": [("c10", {"C10.saturate": "C15.nonneg"}, ())],
    # what the exported policy must reproduce: the action path of training (squash wrapper)
    # ... and the observation normalisation of training: the batch a rollout step returns is normalised with the statistics it stores
    "C20": [("c19", {"C19.squash": "C20.pipeline", "C19.moments": ("C20.pipeline", ("obs step: normalised", "obs step: updated state stored", "reward step: updated state stored"))}, ())],
}
