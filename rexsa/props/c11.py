"""C11 — interpolated delays sample the sender's signal at step time minus delay (partial: argument provenance of the interpolation).

The values `jnp.interp` returns are not decided (numerical). What is decided is *which arrays the interpolation is asked about*, in
both linear modes and for every leaf of the window:

  knots   xp  = the delayed arrival times  ts_sent + d  (d = min + alpha (max - min); dummy entries keep their own receive time) —
                the very array the arrival search of C10 is made on; in `linear_real_only` the dummy entries are moved to a
                constant far in the past instead, so that nothing is interpolated towards them
  query   x   = Q - Q[-1] + ts_start  with Q the window-sized slice of the knots that ends at the newest arrived message: the
                newest query time is exactly the step start
  values  fp  = the leaf itself (seq, ts_sent, delayed ts_recv, data), flat or flattened per trailing axis
  grad        the delay parameter reaches the knots and nothing between it and the interpolation stops the gradient

Each is a necessary condition of the statement: with other knots the sample is not taken at `ts_start - d`, with another query the
newest entry is not the signal at the step start, with another `fp` the entry is not the sender's signal."""
from __future__ import annotations

import ast

from .. import terms as T
from ..report import Check
from ..symeval import SymEval

S = T.sym
B = "base.TrainableDist"
LEAVES = ("seq", "ts_sent", "ts_recv", "data")


def _ones_is_one(t):
    m = {x: T.ONE for x in T.walk(t) if x[0] == "call" and T.call_name(x) == "jax.numpy.ones"}
    return T.subst(t, m) if m else t


def _same(a, b) -> bool:
    if a == b:
        return True
    try:
        return T.sub(a, b) == T.ZERO
    except Exception:
        return False


def _is_where(t):
    return t[0] == "call" and T.call_name(t) in ("jax.numpy.where", "numpy.where") and len(t[2]) == 3


def _norm(t):
    """where(not c, a, b) -> where(c, b, a) for the one condition used here (seq < 0); stop_gradient is looked through for the knot
    comparison (C11.grad reports it)."""
    neg = T.lt(S("input.seq"), T.ZERO)
    m = {}
    for x in T.walk(t):
        if _is_where(x) and x[2][0] == T.mk_not(neg):
            m[x] = ("call", x[1], (neg, x[2][2], x[2][1]), x[3], x[4])
        if x[0] == "call" and T.call_name(x).endswith("stop_gradient") and len(x[2]) == 1:
            m[x] = x[2][0]
    if not m:
        return t
    return _norm(T.subst(t, m))


def _resolve(mi, node):
    """dotted name of an expression with the module's import aliases expanded (jnp.interp -> jax.numpy.interp)"""
    parts = []
    while isinstance(node, ast.Attribute):
        parts.append(node.attr)
        node = node.value
    if not isinstance(node, ast.Name):
        return None
    head = mi.imports.get(node.id, node.id)
    return ".".join([head] + list(reversed(parts)))


def _literal(mi, node):
    """value of a literal, or of a module-level name bound once to a literal; ... (Ellipsis) when it cannot be read"""
    try:
        return ast.literal_eval(node)
    except Exception:
        pass
    if isinstance(node, ast.Name):
        vals = [st.value for st in mi.tree.body if isinstance(st, ast.Assign) and len(st.targets) == 1 and isinstance(st.targets[0], ast.Name) and st.targets[0].id == node.id]
        if len(vals) == 1:
            try:
                return ast.literal_eval(vals[0])
            except Exception:
                pass
    return ...


def rule_axes(chk: Check, model):
    """Batched interpolation: jax.vmap(jnp.interp, in_axes=(None, None, a)) maps the flattened trailing axis `a` of the values; the
    result is reshaped straight back to (window, ...) — that only restores the layout when the mapped axis comes out where it went
    in (out_axes == a; the default 0 puts it first and the reshape then interleaves entries of different messages)."""
    rid = "C11.axes"
    chk.rule(rid, "the batched interpolation keeps the mapped axis in place: jax.vmap(jnp.interp, in_axes=(None, None, a), out_axes=a) before the result is reshaped to "
                  "(window, ...) — otherwise entries of different messages are interleaved for payloads with more than one trailing element")
    mi = next((m for m in model.modules.values() if m.name == "base" or m.path.endswith("rex/base.py")), None)
    if mi is None:
        chk.unknown(rid, "module", "rex/base.py not found")
        return
    parents = {}
    for nd in ast.walk(mi.tree):
        for ch in ast.iter_child_nodes(nd):
            parents[ch] = nd
    n = 0
    for nd in ast.walk(mi.tree):
        if not (isinstance(nd, ast.Call) and _resolve(mi, nd.func) in ("jax.vmap", "equinox.filter_vmap") and nd.args and (_resolve(mi, nd.args[0]) or "").endswith("numpy.interp")):
            continue
        n += 1
        kw = {k.arg: k.value for k in nd.keywords if k.arg}
        in_node = kw.get("in_axes", nd.args[1] if len(nd.args) > 1 else None)
        out_node = kw.get("out_axes", nd.args[2] if len(nd.args) > 2 else None)
        in_axes = _literal(mi, in_node) if in_node is not None else 0
        out_axes = _literal(mi, out_node) if out_node is not None else 0
        loc = f"{mi.path}:{nd.lineno}"
        if in_axes is ... or out_axes is ...:
            chk.unknown(rid, "vmap(interp) axes", "in_axes / out_axes of the batched interpolation are not literals", loc)
            continue
        a = in_axes[2] if isinstance(in_axes, (tuple, list)) and len(in_axes) == 3 else (in_axes if isinstance(in_axes, int) else ...)
        if a is ... or (isinstance(in_axes, (tuple, list)) and (in_axes[0] is not None or in_axes[1] is not None)):
            chk.unknown(rid, "vmap(interp) axes", f"in_axes = {in_axes!r}: expected (None, None, <axis of the values>)", loc)
            continue
        if out_axes == a:
            chk.add(rid, "vmap(interp): mapped axis comes out where it went in", True, "", loc)
            continue
        # the result may still be moved back explicitly before it is reshaped
        st = nd
        while st in parents and not isinstance(st, ast.stmt):
            st = parents[st]
        moved = any((isinstance(x, ast.Attribute) and x.attr in ("T", "transpose", "swapaxes", "moveaxis")) or
                    (isinstance(x, ast.Name) and x.id in ("transpose", "swapaxes", "moveaxis")) for x in ast.walk(st))
        if moved:
            chk.unknown(rid, "vmap(interp) axes", f"in_axes = {in_axes!r}, out_axes = {out_axes!r} with an explicit transposition nearby: not read here", loc)
        else:
            chk.add(rid, "vmap(interp): mapped axis comes out where it went in", False, f"jax.vmap(jnp.interp, in_axes={in_axes!r}, out_axes={out_axes!r}): the values are mapped "
                    f"over axis {a} but the results are stacked along axis {out_axes}, and the following reshape to (window, ...) interleaves entries of different messages "
                    "whenever the payload has more than one trailing element", loc)
    chk.floor(rid, "batched interpolations", n, 1)


def _leafwise(v):
    """interp(x, xp, [l0, l1, ...])[i]  ->  interp(x, xp, l_i): the helper mapped over the flattened list of leaves and the i-th result
    picked (tree_flatten / comprehension / tree_unflatten spelling of the tree_map)."""
    m = {}
    for y in T.walk(v):
        if y[0] != "index":
            continue
        i = T.const_value(y[2])
        if i is None or i != int(i):
            continue
        lists = []
        for c in T.walk(y[1]):
            if c[0] == "call" and T.call_name(c) in ("jax.numpy.interp", "numpy.interp") and len(c[2]) == 3:
                for z in T.walk(c[2][2]):
                    if z[0] in ("list", "tuple") and len(z[1]) == len(LEAVES) and z not in lists:
                        lists.append(z)
        if len(lists) == 1 and 0 <= int(i) < len(lists[0][1]):
            m[y] = T.subst(y[1], {lists[0]: lists[0][1][int(i)]})
    return T.subst(v, m) if m else v


def run(chk: Check, model):
    rule_axes(chk, model)
    chk.rule("C11.knots", "the interpolation knots are the delayed arrival times ts_sent + min + alpha (max - min) (dummy entries: their own receive time), the same array "
                          "the arrival search uses; `linear_real_only` replaces the dummy entries by a constant far in the past, `linear` does not")
    chk.rule("C11.query", "the query times are the window-sized slice of the knots ending at the newest arrived message, shifted so that the newest one is exactly the step "
                          "start: x = Q - Q[-1] + ts_start")
    chk.rule("C11.leaves", "all four leaves of the window (seq, ts_sent, delayed ts_recv, data) are interpolated over the same knots and query times, each from its own values "
                           "(flat, or flattened over its trailing axes and reshaped back)")
    chk.rule("C11.grad", "the delay parameter alpha reaches the knots and no stop_gradient lies between it and the interpolation")
    f_w = model.func(f"{B}.window")
    f_ad = model.func(f"{B}.apply_delay")
    chk.used(f_w.qualname)
    chk.used(f_ad.qualname)
    w = SymEval(model).run_function(f_w).ret
    r = SymEval(model, inline=("window", "sample")).run_function(f_ad)
    body = T.assume(r.ret, T.eq(w, T.ZERO, numeric=True), False)
    loc = chk.loc(f_ad)
    seq_neg = T.lt(S("input.seq"), T.ZERO)
    d_ref = T.add(S("self.min"), T.mul(S("self.alpha"), T.sub(S("self.max"), S("self.min"))))
    arrive_real = T.add(S("input.ts_sent"), d_ref)
    n = T.mk_index(S("input.seq.shape"), T.ZERO)
    size_ref = T.sub(n, w)
    n_calls = 0
    for mode in ("linear", "linear_real_only"):
        t = _ones_is_one(T.subst(body, {S("self.interp"): T.const(mode)}))
        if not (t[0] == "obj" and t[1] == "InputState"):
            chk.unknown("C11.leaves", f"{mode}: result", f"the {mode} branch returns {T.show(t)[:120]}, not an InputState built in place", loc)
            continue
        fields = dict(t[2])
        # the delayed arrival array R: where(seq < 0, input.ts_recv, ts_sent + d)
        def is_R(x):
            x = _norm(x)
            return _is_where(x) and x[2][0] == seq_neg and x[2][1] == S("input.ts_recv") and _same(x[2][2], arrive_real)
        seen_xp, seen_x = set(), set()
        for k in LEAVES:
            v = fields.get(k)
            if v is None:
                chk.add("C11.leaves", f"{mode}: leaf {k} present", False, f"the {mode} branch builds no `{k}` for the delayed InputState", loc)
                continue
            v = _leafwise(v)
            calls = [x for x in T.walk(v) if x[0] == "call" and T.call_name(x) in ("jax.numpy.interp", "numpy.interp")]
            if not calls:
                if any(x[0] == "call" and T.call_name(x).endswith("dynamic_slice") for x in T.walk(v)) or v == S(f"input.{k}"):
                    chk.add("C11.leaves", f"{mode}: leaf {k} interpolated", False, f"`{k}` of the {mode} branch is {T.show(v)[:140]}: not interpolated at all", loc)
                else:
                    chk.unknown("C11.leaves", f"{mode}: leaf {k}", f"no jnp.interp call found in {T.show(v)[:140]}", loc)
                continue
            leaf = S(f"input.{k}")
            for c in calls:
                if len(c[2]) != 3 or c[3]:
                    kw = dict(c[3])
                    if len(c[2]) + len([q for q in ("x", "xp", "fp") if q in kw]) != 3 or set(kw) - {"x", "xp", "fp"}:
                        chk.unknown("C11.leaves", f"{mode}: interp call shape", f"unreadable interp call {T.show(c)[:120]} (left/right/period given?)", loc)
                        continue
                    pos = list(c[2]) + [kw[q] for q in ("x", "xp", "fp")[len(c[2]):]]
                    x, xp, fp = pos
                else:
                    x, xp, fp = c[2]
                n_calls += 1
                seen_xp.add(xp)
                seen_x.add(x)
                # ---- values
                inner = fp
                if inner[0] == "call" and not isinstance(inner[1], str) and inner[1][0] == "attr" and inner[1][2] == "reshape":
                    inner = inner[1][1]
                elif inner[0] == "call" and isinstance(inner[1], str) and inner[1].endswith(".reshape"):
                    inner = S(inner[1][: -len(".reshape")])
                okv = is_R(inner) if k == "ts_recv" else inner == leaf
                chk.add("C11.leaves", f"{mode}: {k} interpolates its own values", bool(okv), f"fp of the `{k}` interpolation is {T.show(fp)[:140]}, expected "
                        + ("the delayed receive times" if k == "ts_recv" else f"input.{k}"), loc)
        if not seen_xp:
            continue
        chk.add("C11.leaves", f"{mode}: one set of knots and query times for all leaves", len(seen_xp) == 1 and len(seen_x) == 1,
                f"{len(seen_xp)} different knot arrays and {len(seen_x)} different query arrays are used across the leaves", loc)
        for xp_raw in sorted(seen_xp, key=repr):
            # ---- knots
            xp = _norm(xp_raw)
            if mode == "linear":
                if is_R(xp):
                    okk = True
                elif _is_where(xp) and is_R(xp[2][2]) and xp[2][0] == seq_neg:
                    okk = False  # masked like linear_real_only
                elif not any(y == S("self.alpha") for y in T.walk(xp)):
                    okk = False  # the delay does not move the knots at all
                elif _is_where(xp) and xp[2][0] == seq_neg:
                    okk = False
                else:
                    okk = None
                msg = f"knots of `linear` are {T.show(xp)[:200]}, expected where(seq < 0, ts_recv, ts_sent + min + alpha (max - min))"
            else:
                cst = T.const_value(xp[2][1]) if _is_where(xp) else None
                if _is_where(xp) and xp[2][0] == seq_neg and is_R(xp[2][2]) and cst is not None and cst <= -10**6:
                    okk = True
                elif is_R(xp):
                    okk = False  # no masking: the mode is `linear` under another name
                elif _is_where(xp) and xp[2][0] == seq_neg and is_R(xp[2][2]) and cst is not None:
                    okk = False  # a mask value inside the range of real times
                elif not any(y == S("self.alpha") for y in T.walk(xp)):
                    okk = False
                elif _is_where(xp) and is_R(xp[2][2]):
                    okk = False  # masked on another condition than "dummy entry"
                else:
                    okk = None
                msg = f"knots of `linear_real_only` are {T.show(xp)[:220]}, expected where(seq < 0, <constant far in the past>, <delayed arrival times>)"
            if okk is None:
                chk.unknown("C11.knots", f"{mode}: knots", msg, loc)
            else:
                chk.add("C11.knots", f"{mode}: knots are the delayed arrival times", okk, msg, loc)
            # ---- gradient path
            stops = [y for y in T.walk(xp_raw) if y[0] == "call" and T.call_name(y).endswith("stop_gradient")]
            chk.add("C11.grad", f"{mode}: alpha reaches the knots", any(y == S("self.alpha") for y in T.walk(xp)) and not stops,
                    f"knots {T.show(xp)[:160]}" + (" pass through stop_gradient" if stops else " do not depend on self.alpha"), loc)
        for x in sorted(seen_x, key=repr):
            stops = [y for y in T.walk(x) if y[0] == "call" and T.call_name(y).endswith("stop_gradient")]
            if stops:
                chk.add("C11.grad", f"{mode}: query times differentiable", False, f"query times {T.show(x)[:160]} pass through stop_gradient", loc)
            x = _norm(x)  # (a stop_gradient is reported above; the forward value is read through it)
            qs = []
            for y in T.walk(x):
                if y[0] == "call" and T.call_name(y) == "jax.lax.dynamic_slice" and len(y[2]) == 3 and y not in qs:
                    qs.append(y)
            if len(qs) != 1:
                chk.unknown("C11.query", f"{mode}: query times", f"query times {T.show(x)[:200]} are not built from one window slice ({len(qs)} slices found)", loc)
                continue
            Q = qs[0]
            oks = len(seen_xp) == 1 and (Q[2][0] == next(iter(seen_xp)) or _norm(Q[2][0]) == _norm(next(iter(seen_xp))))
            chk.add("C11.query", f"{mode}: query slice is cut from the knots", oks, f"the query times are cut from {T.show(Q[2][0])[:160]}, which is not the knot array of the "
                    "interpolation", loc)
            lasts = [T.mk_index(Q, T.const(-1)), T.mk_index(Q, T.sub(size_ref, T.ONE))]
            okq = any(_same(x, T.add(T.sub(Q, l), S("ts_start"))) for l in lasts)
            if okq:
                chk.add("C11.query", f"{mode}: newest query time is the step start", True, "", loc)
            else:
                res = T.subst(T.sub(x, T.add(T.sub(Q, lasts[0]), S("ts_start"))), {Q: S("Q")})
                plain = not any(y[0] == "call" for y in T.walk(res))
                # Q.at[i].set(v): single entries overwritten, the others stay the raw knot times instead of moving with the shift
                plain = plain or any(y[0] == "attr" and y[2] == "at" and y[1] == Q for y in T.walk(x))
                if plain:
                    chk.add("C11.query", f"{mode}: newest query time is the step start", False, f"query times are {T.show(T.subst(x, {Q: S('Q')}))[:200]} (Q = window slice of "
                            "the knots), expected Q - Q[-1] + ts_start", loc)
                else:
                    chk.unknown("C11.query", f"{mode}: newest query time", f"query times {T.show(T.subst(x, {Q: S('Q')}))[:200]} are outside the affine forms read here", loc)
    chk.floor("C11.leaves", "interp calls analysed", n_calls, 16)
