"""C07 — the compiled schedule runs every graph vertex once, in dependency order.

The partitioning itself is computed by the external `supergraph` library (H5); decided is everything rex does around
it: mode exhaustiveness (A8), dependency-edge construction and prune-off attachment (A6/A8), schedule fill (A4/A5),
generation-ordered execution (A2) and window semantics (A6).
"""
from __future__ import annotations

import ast

from .. import flow, order
from .. import terms as T
from ..asyncrt import mentions
from ..compiled import CompiledView
from ..report import AnalysisError, Check
from ..roles import rule_apply_window, rule_connected, rule_networkx, rule_to_timings
from ..symeval import SymEval

S = T.sym


def rule_modes(chk: Check, model, rid: str):
    chk.rule(rid, "mode exhaustiveness (A8): every member of constants.Supergraph has a branch in Graph.__init__ that defines the supergraph, the "
                  "initial mapping and the per-episode monomorphisms; anything else raises; prune=False goes through to_connected_graph; to_timings "
                  "receives the windowed graphs, S, the networkx graphs and the monomorphisms; the supervisor slot is alone in the last generation")
    ci = model.cls("constants.Supergraph")
    members = [st.targets[0].id for st in ci.node.body if isinstance(st, ast.Assign) and isinstance(st.targets[0], ast.Name)]
    chk.floor(rid, "Supergraph members", len(members), 3)
    fi = model.func("graph.Graph.__init__")
    chk.used(fi.qualname)
    ev = SymEval(model)
    r = ev.run_function(fi)
    mode = S("supergraph")
    raises = [e for e in r.events if e.kind == "raise" and mentions(e.guard, "supergraph") and mentions(e.guard, "Supergraph")]
    # isinstance(supergraph, Supergraph) holds for every member and for nothing else
    isinst = {x for e in raises for x in T.walk(e.guard) if x[0] == "call" and T.call_name(x) == "isinstance" and len(x[2]) == 2 and x[2][0] == mode
              and x[2][1][0] == "sym" and x[2][1][1].endswith("constants.Supergraph")}
    for m in members:
        val = {mode: S(f"rex.constants.Supergraph.{m}"), **{x: T.TRUE for x in isinst}}
        ok = True
        miss = []
        for attr in ("_S", "_S_init_to_S", "_Gs_monomorphism"):
            t = T.subst(r.attr("self", attr), val)
            if t[0] in ("ite", "unk", "sym") or t == T.NONE:
                ok = False
                miss.append(attr)
        rz = [e for e in raises if T.subst(e.guard, val) != T.FALSE]
        chk.add(rid, f"mode {m}", ok and not rz, f"supergraph mode {m}: {'undefined ' + str(miss) if miss else ''}{' raises' if rz else ''}", chk.loc(fi))
    other = {mode: S("rex.constants.Supergraph.__OTHER__"), **{x: T.FALSE for x in isinst}}
    ok = any(T.subst(e.guard, other) != T.FALSE and not mentions(T.subst(e.guard, other), "supergraph") for e in raises)
    chk.add(rid, "unknown mode raises", ok, "an unknown supergraph mode must raise instead of falling through", chk.loc(fi))
    # the monomorphisms are evaluated on the same graphs that define S
    gs = None
    for e in r.events:
        if e.kind == "call" and e.name.endswith("grow_supergraph"):
            gs = e.args[0]
    evs = [e for e in r.events if e.kind == "call" and e.name.endswith("evaluate_supergraph")]
    ok = gs is not None and len(evs) >= 1 and all(e.args and e.args[0] == gs for e in evs)  # (one call per baseline mode, or one shared by both)
    bs = [e for e in r.events if e.kind == "call" and e.name.endswith("baselines_S")]
    ok = ok and len(bs) >= 1 and all(e.args and e.args[0] == gs for e in bs)
    chk.add(rid, "same graphs for growing and evaluating", ok, "baseline modes must evaluate the supergraph on the same (pruned / connected) graphs MCS grows on", chk.loc(fi))
    if gs is not None:
        pr = S("prune")
        con = T.assume(gs, pr, False)
        ok = con[0] == "comp" and T.call_name(con[2]) == "rex.utils.to_connected_graph" and con[3][0][1] == r.attr("self", "_Gs") and T.assume(gs, pr, True) == r.attr("self", "_Gs")
        chk.add(rid, "prune=False attaches non-ancestors", ok, f"graphs given to the supergraph search: {T.show(gs)[:200]}, expected [to_connected_graph(G, ...) for G in self._Gs] iff not prune", chk.loc(fi))
    # episode i of the networkx graphs (and of the monomorphisms computed from them) is episode i of the windowed graphs: the list is
    # filled in episode order and never reordered
    gl = r.attr("self", "_Gs")
    app = [e for e in r.events if e.kind == "call" and e.name.endswith(".append") and e.recv == gl and e.func == fi.qualname]
    ok = len(app) == 1 and len(app[0].loops) == 1 and len(app[0].args) == 1 and T.call_name(app[0].args[0]) == "rex.utils.to_networkx_graph"
    if ok:
        l = r.loops[app[0].loops[0]]
        g_ep = app[0].args[0][2][0] if app[0].args[0][2] else T.NONE
        el = ("elem", l.iter, l.uid)
        graphs = r.attr("self", "_graphs")
        ok = (l.iter == graphs and g_ep == el) or (l.iter == T.mk_call("range", [T.mk_call("len", [graphs])]) and g_ep == T.mk_index(graphs, el))
    if not app and gl[0] == "comp" and gl[1] == "list" and len(gl[3]) == 1 and not gl[4] and T.call_name(gl[2]) == "rex.utils.to_networkx_graph" and gl[2][2]:
        # ... or built in one expression, [to_networkx_graph(g, ...) for g in <the graphs, in order>] (possibly through map / a generator)
        graphs = r.attr("self", "_graphs")
        g_ep, it_ = gl[2][2][0], gl[3][0][1]
        els = [x for x in T.walk(g_ep) if x[0] == "elem" and x[1] == it_]
        for _ in range(3):
            if it_[0] == "comp" and it_[1] in ("gen", "list") and len(it_[3]) == 1 and not it_[4] and els:
                g_ep = T.subst(g_ep, {els[0]: it_[2]})
                it_ = it_[3][0][1]
                els = [x for x in T.walk(g_ep) if x[0] == "elem" and x[1] == it_]
        ok = bool(els) and ((it_ == graphs and g_ep == els[0]) or (it_ == T.mk_call("range", [T.mk_call("len", [graphs])]) and g_ep == T.mk_index(graphs, els[0])))
        app = [None]
    reorder = [e for e in r.events if e.kind == "call" and e.func == fi.qualname and (
        (e.recv == gl and e.name.rsplit(".", 1)[-1] in ("sort", "reverse", "insert", "pop", "remove", "clear", "extend")) or
        (e.name.rsplit(".", 1)[-1] in ("shuffle",) and gl in e.args))]
    chk.add(rid, "episode order: the networkx graphs are built per episode, in order, and not reordered", bool(ok) and not reorder,
            f"self._Gs is filled by {len(app)} append(s){' and then changed by ' + reorder[0].name if reorder else ''}: to_timings pairs entry i with episode i of the windowed graphs", chk.loc(fi, reorder[0].node if reorder else None))
    tt = [e for e in r.events if e.kind == "call" and e.name == "rex.utils.to_timings"]
    bt = model.bind_call("utils.to_timings", tt[0].args, tt[0].kwargs) if len(tt) == 1 else {}  # (arguments by parameter, however they were passed)
    ok = len(tt) == 1 and len(bt) == 5 and bt.get("graphs") == r.attr("self", "_windowed_graphs") and bt.get("Gs") == r.attr("self", "_Gs") and bt.get("supervisor") == S("supervisor.name")
    if ok:
        for m in members:
            val = {mode: S(f"rex.constants.Supergraph.{m}")}
            ok = ok and T.subst(bt["S"], val) == T.subst(r.attr("self", "_S"), val) and T.subst(bt["Gs_monomorphism"], val) == T.subst(r.attr("self", "_Gs_monomorphism"), val)
    chk.add(rid, "to_timings inputs", ok, "to_timings must get (windowed graphs, S, Gs, Gs_monomorphism, supervisor name) of the chosen mode", chk.loc(fi))
    aw = [e for e in r.events if e.kind == "call" and e.name == "rex.utils.apply_window"]
    nx = [e for e in r.events if e.kind == "call" and e.name == "rex.utils.to_networkx_graph"]
    ok = len(aw) == 1 and aw[0].args[0] == S("nodes") and len(nx) == 1 and mentions(nx[0].args[0], "_graphs") is not None
    chk.add(rid, "windowed graphs feed the networkx graphs", ok and r.attr("self", "_graphs") == T.mk_call(T.mk_attr(r.attr("self", "_windowed_graphs"), "to_graph"), []),
            "self._graphs must be self._windowed_graphs.to_graph() and the networkx graphs must be built from it", chk.loc(fi))
    mk = [e for e in r.events if e.kind == "call" and e.name == "rex.partition_runner.make_run_partition_excl_supervisor"]
    asserts = [e for e in r.events if e.kind == "assert" and tt and mk and tt[0].idx < e.idx < mk[0].idx]
    ok = len(asserts) >= 3 and len(mk) == 1
    chk.add(rid, "supervisor slot alone in the last generation (asserted)", ok, f"{len(asserts)} of the 3 supervisor-slot assertions found before the partition runner is built", chk.loc(fi))


def rule_exec_order(chk: Check, model, rid: str, cv: CompiledView):
    chk.rule(rid, "execution order (A2): _run_S visits the generations (all but the last) in ascending index; in uniform supergraphs the slots of a kind "
                  "are stacked in generation order; the supervisor's input update follows all generations; Timings.to_generation is ascending")
    sub = cv.run_S
    fi = cv.fi("_run_S")
    chk.used(fi.qualname)
    gens = [e for e in sub.events if e.kind == "call" and e.depth >= 1 and e.func == fi.qualname and e.name.startswith("<closure") is False and False]
    loops = [l for l in sub.loops.values() if l.kind == "for" and l.iter is not None and l.iter[0] == "call" and l.iter[1] == "zip" and l.node is not None and getattr(l.node, "lineno", 0)]
    gl = [l for l in loops if mentions(l.iter, "to_generation")]
    ok = len(gl) == 1
    if ok:
        a0 = gl[0].iter[2][0]
        ok = a0[0] == "slice" and a0[2] is None and a0[3] == T.const(-1) and a0[4] is None and T.call_name(a0[1]).endswith(".to_generation")
        a1 = gl[0].iter[2][1]
        ok = ok and a1[0] == "call" and T.call_name(a1).endswith(".to_generation")
    chk.add(rid, "generations[:-1] in ascending order", bool(ok), "the non-uniform branch must iterate zip(generations[:-1], timings_mcs) without reversal", chk.loc(fi))
    # uniform branch: flattened over timings_mcs[:-1], scanned with _run_generation
    scans = [e for e in sub.events if e.kind == "call" and e.name == "jax.lax.scan" and e.func == fi.qualname]
    ok = len(scans) == 1 and scans[0].args[0] == cv.outer.env[model.local_name("partition_runner.make_run_partition_excl_supervisor._run_generation")]
    chk.add(rid, "uniform supergraph: scan of _run_generation", ok, "the uniform branch must scan _run_generation over the stacked slot timings", chk.loc(fi))
    # ... which is only sound when every generation holds the same kinds with the same counts (slot i of every kind is then one
    # generation): the uniformity test must compare each generation's kind counts with the first generation's
    f_u = model.func("utils.check_generations_uniformity")
    chk.used(f_u.qualname)
    ru = SymEval(model).run_function(f_u)
    gl = [l for l in ru.loops.values() if l.kind == "for" and l.iter == S("generations")]
    rets = [e for e in ru.events if e.kind == "return" and e.func == f_u.qualname]
    oku = len(gl) == 1 and len(rets) == 2
    if oku:
        l = gl[0]
        neg = [e for e in rets if e.term == T.FALSE and e.loops == (l.uid,)]
        pos = [e for e in rets if e.term == T.TRUE and not e.loops and e.guard == T.TRUE]
        oku = len(neg) == 1 and len(pos) == 1 and len(l.env_in) == 1
        if oku:
            (nm, first), = l.env_in.items()
            el = ("elem", l.iter, l.uid)
            neqs = [a for a in flow.bool_atoms(neg[0].guard, []) if a[0] == "eq" and first in a[1] and a != T.eq(first, T.NONE, numeric=False)]
            oku = len(neqs) == 1 and flow.implies(neg[0].guard, T.mk_not(neqs[0])) and flow.implies(neg[0].guard, T.mk_not(T.eq(first, T.NONE, numeric=False)))
            if oku:
                cur = [x for x in neqs[0][1] if x != first][0]
                # the compared value is this generation's own table of kinds (built from this generation only) and becomes `first` once
                # ... as a table keyed by kind (a bare multiset of counts forgets which kind each count belongs to)
                keyed = (cur[0] == "comp" and cur[1] == "dict" and cur[2][0] == "tuple" and any(x[0] == "attr" and x[2] == "kind" for x in T.walk(cur[2][1][0]))) \
                    or (cur[0] == "call" and T.call_name(cur).endswith("Counter"))
                oku = keyed and any(x == el for x in T.walk(cur)) and any(x[0] == "attr" and x[2] == "kind" for x in T.walk(cur)) and l.pre.get(nm) == T.NONE \
                    and l.env_out.get(nm) == T.mk_ite(T.eq(first, T.NONE, numeric=False), cur, first)
    chk.add(rid, "uniform supergraph: every generation has the first generation's kinds and counts", bool(oku), "check_generations_uniformity must return False as soon as one generation's "
            "kind counts differ from the first generation's (equal totals per kind are not enough: stacked slots of a kind would run side by side although they depend on each other)", chk.loc(f_u))
    # sorted by generation (outer function)
    f_out = model.func("partition_runner.make_run_partition_excl_supervisor")
    srt = [e for e in cv.outer.events if e.kind == "call" and e.name == "sorted" and e.func == f_out.qualname]
    ok = len(srt) == 1 and dict(srt[0].kwargs).get("key", T.NONE)[0] == "closure"
    if ok:
        live = cv.ev.live
        val = cv.ev.invoke(dict(srt[0].kwargs)["key"], [S("x")], cv.outer.frame)
        ok = val == T.mk_attr(T.mk_index(S("timings.slots"), S("x")), "generation")
    if len(srt) == 1 and not srt[0].kwargs and len(srt[0].args) == 1 and srt[0].args[0][0] == "comp":
        # decorate - sort - undecorate: the (generation, position) pairs of the list sorted, the slots taken back by position
        d = srt[0].args[0]
        ok = d[1] == "list" and d[2][0] == "tuple" and len(d[2][1]) == 2 and len(d[3]) == 1 and not d[4] and T.call_name(d[3][0][1]) == "enumerate" and len(d[3][0][1][2]) == 1
        if ok:
            value = d[3][0][1][2][0]
            els = [x for x in T.walk(d[2]) if x[0] == "elem" and x[1] == d[3][0][1]]
            ok = bool(els) and d[2][1] == (T.mk_attr(T.mk_index(S("timings.slots"), T.mk_index(els[0], T.ONE)), "generation"), T.mk_index(els[0], T.ZERO))
            st_ = [e for e in cv.outer.events if e.kind == "store_sub" and e.func == f_out.qualname and e.term[0] == "comp" and any(x == srt[0].term for x in T.walk(e.term))]
            ok = ok and len(st_) == 1
            if ok:
                c_ = st_[0].term
                ok = c_[1] == "list" and len(c_[3]) == 1 and not c_[4] and c_[3][0][1] == srt[0].term and c_[2] == T.mk_index(value, T.mk_index(("elem", srt[0].term, c_[2][2][1][2] if c_[2][0] == "index" and c_[2][2][0] == "index" and c_[2][2][1][0] == "elem" else -1), T.ONE))
    chk.add(rid, "slots of a kind ordered by generation", bool(ok), "kinds_to_slots[kind] must be sorted by timings.slots[slot].generation (slot names sort lexicographically: s_10 < s_2)", chk.loc(f_out))
    # supervisor input update after all generations
    calls = [e for e in sub.events if e.func == fi.qualname and e.kind == "call"]
    sup = [e for e in calls if e.name.endswith(".replace_step_states") and e.args and e.args[0][0] == "dict"]
    last_gen = max([e.idx for e in sub.events if e.func == cv.fi("_run_generation").qualname] + [s.idx for s in scans] + [0])
    ok = len(sup) == 1 and sup[0].idx > last_gen
    chk.add(rid, "supervisor input update follows all generations", ok, "the supervisor's step state must be prepared after the last generation has run", chk.loc(fi))
    f_tg = model.func("base.Timings.to_generation")
    rets = [n for n in ast.walk(f_tg.node) if isinstance(n, ast.Return)]
    ok = len(rets) == 1 and isinstance(rets[0].value, ast.ListComp)
    if ok:
        lc = rets[0].value
        g = lc.generators[0]
        ok = isinstance(lc.elt, ast.Subscript) and isinstance(lc.elt.value, ast.Name) and ast.unparse(lc.elt.slice) == ast.unparse(g.target) and not g.ifs \
            and ast.unparse(g.iter).replace(" ", "") == f"range(len({lc.elt.value.id}))"
    chk.add(rid, "Timings.to_generation ascending", bool(ok), "to_generation must return [generations[i] for i in range(len(generations))]", chk.loc(f_tg))
    grp = [n for n in ast.walk(f_tg.node) if isinstance(n, ast.Assign) and isinstance(n.targets[0], ast.Subscript) and isinstance(n.targets[0].value, ast.Subscript)]
    ok = len(grp) == 1 and ast.unparse(grp[0].targets[0].value.slice).endswith(".generation") and ast.unparse(grp[0].value) == ast.unparse(grp[0].targets[0].value.slice).rsplit(".", 1)[0]
    chk.add(rid, "Timings.to_generation groups by slot.generation", bool(ok), "slots must be grouped as generations[s.generation][name] = s", chk.loc(f_tg))
    # each scheduled step carries the vertex's own seq / ts / windows: _update_inputs
    ui = cv.update_inputs.ret
    ok = ui[0] == "replace" and dict(ui[2]).get("seq") == S("timings_node.seq") and dict(ui[2]).get("ts") == S("timings_node.ts_start") and dict(ui[2]).get("eps") == S("graph_state.eps")
    chk.add(rid, "scheduled step carries the slot's seq and start time", ok, f"_update_inputs returns {T.show(ui)[:200]}", chk.loc(model.func("partition_runner.make_update_inputs._update_inputs")))


def run(chk: Check, model):
    cv = CompiledView(model)
    rule_modes(chk, model, "C07.modes")
    chk.rule("C07.edges", "dependency edges (A6/A8): to_networkx_graph skips padded vertices and unsent/unreceived messages, adds kind_(seq-1) -> kind_seq "
                          "for every seq > 0 and sender_seq_out -> receiver_seq_in per message")
    rule_networkx(chk, model, "C07.edges")
    chk.rule("C07.attach", "prune-off attachment (A6): supervisor steps in ts_start order, candidates (non-ancestors of the last supervisor step) in ts_end "
                           "order; a candidate is attached iff its ts_end <= the supervisor step's ts_start")
    rule_connected(chk, model, "C07.attach")
    chk.rule("C07.fill", "schedule fill (A4/A5): every to_timings copy is slot.F[eps, partition] = vertex.F[eps, seq] with the same field on both sides, one "
                         "target index and one source index; entries beyond the horizon are skipped; templates start with run=False, window seq=-1")
    rule_to_timings(chk, model, "C07.fill")
    rule_exec_order(chk, model, "C07.order", cv)
    chk.rule("C07.window", "window semantics (A6/A5): windows are produced by pushing (seq_out, sender ts_end[seq_out], ts_recv) in message order; the window of "
                           "step k is the last one with seq_in <= k, never-received messages excluded; window length = window + delay_dist.window(sender rate)")
    rule_apply_window(chk, model, "C07.window")
