"""C02 — simulated-clock episodes are deterministic across thread schedules and speed.

Thread schedules cannot be enumerated statically; decided are the structural reasons why the schedule cannot
matter: executor confinement (A13), SPSC/FIFO queues with ordered hand-off and guarded joins (A14), no
wall-clock / real-time-factor influence on simulated decisions (A12), schedule-free delay sampling (A4/A16)
and independence of the driving API (A9).
"""
from __future__ import annotations

import ast

from .. import flow
from .. import terms as T
from ..asyncflow import AsyncView, rule_gates, rule_handoff_topology, rule_queue_discipline, rule_task_private_state, rule_thread_affinity, rule_wallclock
from ..asyncrt import CONN, GRAPH, NODE, mentions, queue_ops
from ..report import Check
from .c03 import _sampler, rule_future_guard

S = T.sym


def rule_sampling(chk: Check, view: AsyncView, rid: str):
    chk.rule(rid, "schedule-free delay sampling (A4/A16): delays are popped from the wrapper's own q_sample, refilled only when empty from "
                  "its own distribution state, which is seeded at reset from the step rng (node) / a split of it (connections); no other "
                  "random source exists in the runtime")
    for key, what in (("node.push_phase_shift", "node"), ("conn.push_ts_input", "conn")):
        _sampler(chk, rid, view.results[key], view.fi(key), what)
    # seeding
    r = view.results["node._reset"]
    fi = view.fi("node._reset")
    ds = r.attr("self", "_dist_state")
    rng = T.mk_attr(r.attr("self", "_step_state"), "rng")
    base_ok = ds[0] == "call" and T.call_name(ds) == "self._jit_reset" and len(ds[2]) == 1
    seed = ds[2][0] if base_ok else T.NONE
    # rng may be wrapped by jnp.array(...) when it is a numpy array (transparent)
    seeds = {T.assume(seed, c, v) for c in {x[1] for x in T.walk(seed) if x[0] == "ite"} for v in (True, False)} or {seed}
    chk.add(rid, "node sampler seeded from the step rng", base_ok and seeds == {rng}, f"_dist_state is seeded with {T.show(seed)[:160]}, expected the node's step rng", chk.loc(fi))
    chk.add(rid, "step rng is the given graph state's", mentions(rng, "graph_state") and mentions(rng, "self.node.name"),
            f"the step state used for seeding is {T.show(rng)[:160]}, expected graph_state.step_state[self.node.name]", chk.loc(fi))
    resets = [e for e in r.events if e.kind == "call" and e.name.endswith(".reset") and e.loops]
    ok = len(resets) == 1
    if ok:
        e = resets[0]
        it = r.loops[e.loops[-1]].iter
        ok = it[0] == "call" and it[1] == "zip" and len(it[2]) == 2 and it[2][1] == T.mk_call("self.inputs.values", [])
        sp = it[2][0] if ok else T.NONE
        ok = ok and sp[0] == "call" and sp[1] == "jax.random.split" and set(T.walk(sp[2][0])) & seeds and dict(sp[3]).get("num") == T.mk_call("len", [S("self.inputs")])
        el = ("elem", it, e.loops[-1])
        ok = ok and e.args and e.args[0] == T.mk_index(el, T.ZERO) and e.recv == T.mk_index(el, T.ONE)
    chk.add(rid, "connection samplers seeded from a split of the step rng", bool(ok), "each input must be reset with its own key from rnd.split(step rng, num=len(inputs))", chk.loc(fi))
    rc = view.results["conn.reset"]
    ds = rc.attr("self", "_dist_state")
    chk.add(rid, "connection sampler state", ds == T.mk_call("self._jit_reset", [S("rng")], [], ds[4] if ds[0] == "call" else None),
            f"connection _dist_state is seeded with {T.show(ds)[:120]}, expected self._jit_reset(rng)", chk.loc(view.fi("conn.reset")))
    # step rng is not written back by the runtime
    writers = []
    for key, res in view.results.items():
        for e in res.events:
            if e.kind == "call" and T.call_name(e.term).endswith(".replace") and any(k == "rng" for k, _ in e.kwargs):
                writers.append(key)
    # (replace is interpreted structurally, so look at the stored step states instead)
    for key in ("node.push_step",):
        res = view.results[key]
        for e in res.events:
            if e.kind == "call" and e.name == "self._async_step" and e.args:
                arg = e.args[0]
                ok = arg[0] == "replace" and "rng" not in dict(arg[2]) and arg[1] == S("self._step_state")
                chk.add(rid, "runtime does not touch the step rng", ok, f"the step state handed to the step replaces {sorted(dict(arg[2])) if arg[0] == 'replace' else '?'}; "
                        "rng/state/params must be carried unchanged", chk.loc(view.fi(key), e.node))
    # no other random source in the runtime file
    bad = []
    mi = view.model.module("asynchronous")
    for n in ast.walk(mi.tree):
        if isinstance(n, ast.Call):
            d = ast.unparse(n.func)
            if d.startswith(("onp.random", "np.random", "random.", "numpy.random")) or d in ("rnd.PRNGKey", "jax.random.PRNGKey"):
                if d.endswith("PRNGKey"):
                    if len(n.args) == 1 and isinstance(n.args[0], ast.Constant):
                        continue  # constant warm-up / default key
                bad.append((d, n.lineno))
    chk.add(rid, "no ambient randomness", not bad, f"non-replayable random sources in rex/asynchronous.py: {bad}", "rex/asynchronous.py")


def api_sequence(model, cls_qual: str):
    """Call sequences of the driving API (run / reset / step) in terms of start, run_until_supervisor, run_supervisor."""
    from ..symeval import SymEval
    out = {}
    for name in ("run", "reset", "step"):
        fi = model.func(f"{cls_qual}.{name}")
        ev = SymEval(model)
        r = ev.run_function(fi)
        seq = []
        for e in r.events:
            if e.kind == "call" and e.name in ("self.start", "self.run_until_supervisor", "self.run_supervisor"):
                seq.append((e.name.split(".")[1], e.guard, e.args, e.kwargs, e))
        out[name] = (fi, r, seq)
    return out


def _ss_of(ss, gs) -> bool:
    """the step state handed back is the supervisor's entry of the graph state handed back (not of an earlier stage)"""
    return any(x == T.mk_attr(gs, "step_state") for x in T.walk(ss))


def rule_api(chk: Check, model, rid: str, cls_qual: str, has_start: bool):
    chk.rule(rid, "API composition (A9): run = [start on the first call;] run_until_supervisor ; run_supervisor() — reset = [start ;] "
                  "run_until_supervisor — step = run_supervisor(step_state, output) ; run_until_supervisor, each stage fed with the previous stage's result")
    api = api_sequence(model, cls_qual)
    gs = S("graph_state")
    # run
    fi, r, seq = api["run"]
    names = [s[0] for s in seq]
    want = (["start"] if has_start else []) + ["run_until_supervisor", "run_supervisor"]
    chk.add(rid, "run sequence", names == want, f"run() performs {names}, expected {want}", chk.loc(fi))
    if names == want:
        if has_start:
            st = seq[0]
            chk.add(rid, "run starts only on the first call", flow.equivalent(st[1], S("self._initial_step")), f"start() in run() is guarded by {T.show(st[1])[:80]}, expected self._initial_step", chk.loc(fi, st[4].node))
        ru, rs = seq[-2], seq[-1]
        chk.add(rid, "run: stages unconditional", ru[1] == T.TRUE and rs[1] == T.TRUE, "run_until_supervisor / run_supervisor must run on every call of run()", chk.loc(fi))
        b_ = model.bind_call(f"{cls_qual}.run_supervisor", rs[2], rs[3])
        chk.add(rid, "run: supervisor runs its own step", set(b_) == {"graph_state"} and b_["graph_state"] == ru[4].term, "run() must call run_supervisor(graph_state) without an override, on the result of run_until_supervisor", chk.loc(fi, rs[4].node))
        chk.add(rid, "run returns the supervisor stage's result", r.ret == rs[4].term, f"run() returns {T.show(r.ret)[:100]}", chk.loc(fi))
    # reset
    fi, r, seq = api["reset"]
    names = [s[0] for s in seq]
    want = (["start"] if has_start else []) + ["run_until_supervisor"]
    chk.add(rid, "reset sequence", names == want and all(s[1] == T.TRUE for s in seq), f"reset() performs {names}, expected {want} unconditionally", chk.loc(fi))
    if names == want:
        ru = seq[-1]
        src = seq[0][4].term if has_start else gs
        chk.add(rid, "reset: stage input", ru[2] == (src,), f"run_until_supervisor gets {[T.show(a)[:60] for a in ru[2]]}", chk.loc(fi, ru[4].node))
        ret = r.ret
        ok = ret[0] == "tuple" and len(ret[1]) == 2 and ret[1][0] == ru[4].term and mentions(ret[1][1], "supervisor") and _ss_of(ret[1][1], ret[1][0])
        chk.add(rid, "reset returns (graph state, supervisor step state)", ok, f"reset() returns {T.show(ret)[:160]}", chk.loc(fi))
    # step
    fi, r, seq = api["step"]
    names = [s[0] for s in seq]
    want = ["run_supervisor", "run_until_supervisor"]
    chk.add(rid, "step sequence", names == want and all(s[1] == T.TRUE for s in seq), f"step() performs {names}, expected {want} unconditionally", chk.loc(fi))
    if names == want:
        rs, ru = seq
        b_ = model.bind_call(f"{cls_qual}.run_supervisor", rs[2], rs[3])  # (arguments by parameter, however they were passed)
        chk.add(rid, "step: override forwarded", (b_.get("graph_state"), b_.get("step_state"), b_.get("output")) == (gs, S("step_state"), S("output")) and len(b_) == 3,
                f"run_supervisor gets {[(k, T.show(a)) for k, a in b_.items()]}, expected (graph_state, step_state, output)", chk.loc(fi, rs[4].node))
        chk.add(rid, "step: stage input", ru[2] == (rs[4].term,), "run_until_supervisor must continue from run_supervisor's result", chk.loc(fi, ru[4].node))
        ret = r.ret
        ok = ret[0] == "tuple" and len(ret[1]) == 2 and ret[1][0] == ru[4].term and mentions(ret[1][1], "supervisor") and _ss_of(ret[1][1], ret[1][0])
        chk.add(rid, "step returns (graph state, supervisor step state)", ok, f"step() returns {T.show(ret)[:160]}", chk.loc(fi))


def run(chk: Check, model):
    view = AsyncView(model)
    for k in view.results:
        chk.used(view.fi(k.rsplit(".", 1)[0] if k.count(".") == 2 else k).qualname)
    rule_thread_affinity(chk, view, "C02.affinity")
    rule_queue_discipline(chk, view, "C02.queues")
    chk.rule("C02.handoff", "values travel between task functions only through the event queues: a scalar attribute mutated by one task function is neither read nor "
                            "written by another; _submit accepts a task in exactly the reference states (nothing submitted during start-up is dropped)")
    rule_task_private_state(chk, view, "C02.handoff")
    rule_gates(chk, view, "C02.handoff")
    rule_handoff_topology(chk, view, "C02.handoff")
    # a lifecycle function that changes the wrapper's state and hands work to its executor publishes the state first: the task reads the state
    # (push_phase_shift announces output times only when RUNNING), so with the other order what it sees depends on which thread runs first
    n_pub = 0
    for key, r_ in view.results.items():
        fq = view.fi(key).qualname
        sts = [e for e in r_.events if e.kind == "store_attr" and e.name == "self._state" and e.func == fq]
        subs = [e for e in r_.events if e.kind == "call" and e.name == "self._submit" and e.func == fq]
        if not sts or not subs or key.count(".") > 1:
            continue
        n_pub += 1
        late = [e for e in sts if any(sb.idx < e.idx for sb in subs)]
        chk.add("C02.handoff", f"state published before work is submitted: {key}", not late, f"{key} sets self._state = {T.show(late[0].term)[:60] if late else ''} after it has already "
                "submitted a task to its own executor", chk.loc(view.fi(key), late[0].node if late else None))
    chk.floor("C02.handoff", "lifecycle functions that set the state and submit work", n_pub, 2)
    # the value queued for a blocking step is a function of the popped arrival times only
    from .c04 import _max0_of_pops
    from ..asyncrt import one, popped, queue_ops
    rtm = view.results["conn.push_ts_max"]
    try:
        n_exp = popped(rtm, "q_expected_ts_max")
        ap = one(queue_ops(rtm, "q_ts_max", "append"), "append on q_ts_max")
        chk.add("C02.handoff", "push_ts_max: awaited arrival = max(0, the popped receive times)", _max0_of_pops(ap.args[0], n_exp, rtm, ap.guard),
                f"q_ts_max gets {T.show(ap.args[0])[:200]}, expected the maximum over exactly the receive times popped for this step", chk.loc(view.fi("conn.push_ts_max"), ap.node))
    except Exception as ex:  # noqa: BLE001 - reported, not swallowed
        chk.unknown("C02.handoff", "push_ts_max", str(ex), chk.loc(view.fi("conn.push_ts_max")))
    rule_wallclock(chk, view, "C02.wallclock")
    chk.rule("C02.future", "join guard of the non-blocking selector: it waits until a receive time strictly after the step start is queued, so its "
                           "result depends on queue contents, not on which trigger ran last")
    rule_future_guard(chk, view, "C02.future")
    rule_sampling(chk, view, "C02.sampling")
    rule_api(chk, model, "C02.api", GRAPH, has_start=True)
