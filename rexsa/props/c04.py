"""C04 — step start times obey the rate / phase / delay / scheduling law.

Decided as identities of max-plus normal forms (analysis A7) on the simulated-clock branch of the threaded
runtime, for every configuration valuation (only_blocking x scheduling).  Reference forms (DESIGN A.4):

  ts_sched = tick / rate + phase
  ts_start = max(ts_max, ts_end_prev, ts_sched + drift)        (without the last term when only_blocking)
  drift'   = max(drift, ts_end_prev - ts_sched)  [FREQUENCY]   |  0  [PHASE]
  ts_end   = ts_start + d_comp ;  recv = max(ts_end + d_comm, recv_prev)
  only_blocking = node.advance and all inputs blocking
"""
from __future__ import annotations

from .. import terms as T
from ..asyncrt import (CLOCK, FREQUENCY, IN_CLOCK, NODE, CONN, PHASE, SIMULATED, AsyncRT, appended, mentions, one, popped,
                       queue_ops)
from ..report import AnalysisError, Check

S = T.sym


def _is_all_blocking(t) -> bool:
    """all(<gen elem.connection.blocking for i in self.inputs.values()>) with no filter."""
    if t[0] != "call" or t[1] != "all" or len(t[2]) != 1:
        return False
    c = t[2][0]
    if c[0] != "comp" or c[4]:
        return False
    elt = c[2]
    if not (elt[0] == "attr" and elt[2] == "blocking" and elt[1][0] == "attr" and elt[1][2] == "connection"):
        return False
    return T.dict_value(elt[1][1], "self.inputs") is not None


def _ts_max_candidates(q_start, r=None, region_guard=None):
    """Reference terms for 'latest arrival the blocking inputs wait for, 0 if there are none', built from the
    comprehension L that pops q_ts_max (found by provenance)."""
    Ls = [x for x in T.walk(q_start) if x[0] == "comp" and x[2][0] == "call" and T.call_name(x[2]).endswith(".q_ts_max.popleft")]
    out = []
    for L in Ls:
        if not _blocking_filter(L):
            continue
        it = L[3][0][1]
        if not (it[0] == "call" and it[1] == "self.inputs.items"):
            continue
        mx = T.mk_call("max", [L])
        out.append(T.mk_ite(T.le(T.mk_call("len", [L]), T.ZERO), T.ZERO, mx))
        out.append(T.mk_call("max", [T.mk_call("+", [("list", (T.ZERO,)), L])]))
        out.append(T.mk_call("max", [T.mk_call("+", [L, ("list", (T.ZERO,))])]))
    # the same collection built by an explicit loop: local list, one guarded append per input
    if r is not None:
        for L in [x for x in T.walk(q_start) if x[0] == "accum"]:
            if not (L[1] == ("list", ()) and len(L[2]) == 1):
                continue
            _, g, elt, loops, how = L[2][0]
            if how != "append" or not (elt[0] == "call" and T.call_name(elt).endswith(".q_ts_max.popleft")) or len(loops) != 1 or loops[0] not in r.loops:
                continue
            lp = r.loops[loops[0]]
            if not (lp.iter[0] == "call" and lp.iter[1] == "self.inputs.items"):
                continue
            el = T.mk_index(("elem", lp.iter, lp.uid), T.ONE)
            blocking = T.mk_attr(T.mk_attr(el, "connection"), "blocking")
            recv_ok = isinstance(elt[1], tuple) and any(x == el for x in T.walk(elt[1]))
            if not recv_ok or T.assume(g, blocking, True) != region_guard or T.assume(g, blocking, False) != T.FALSE:
                continue
            mx = T.mk_call("max", [L])
            out.append(T.mk_ite(T.le(T.mk_call("len", [L]), T.ZERO), T.ZERO, mx))
    return out


def _blocking_filter(L) -> bool:
    if L[0] != "comp":
        return False
    conds = L[4]
    if len(conds) != 1:
        return False
    c = conds[0]
    return c[0] == "attr" and c[2] == "blocking" and c[1][0] == "attr" and c[1][2] == "connection"


def _max0_of_pops(v, n, r, guard) -> bool:
    """v == max over {0} and, for each of the n awaited messages, the receive time (component 1) of one q_ts_input.popleft():
    as `[0.0] + [comprehension over range(n)]` or as a local list seeded with 0.0 and appended to in a loop over range(n)."""
    def is_recv(elt):
        return elt[0] == "index" and T.const_value(elt[2]) == 1 and elt[1][0] == "call" and elt[1][1] == "self.q_ts_input.popleft"

    def zero_list(a):
        return a[0] == "list" and len(a[1]) == 1 and T.const_value(a[1][0]) == 0

    if not (v[0] == "call" and v[1] == "max" and not v[3]):
        return False
    if len(v[2]) == 1:
        c = v[2][0]
        if c[0] == "call" and c[1] == "+":
            a, b = c[2]
            if b[0] == "list":
                a, b = b, a
            return zero_list(a) and b[0] == "comp" and not b[4] and is_recv(b[2]) and b[3][0][1] == T.mk_call("range", [n])
        if c[0] == "accum" and zero_list(c[1]) and len(c[2]) == 1:
            _, g, elt, loops, how = c[2][0]
            return how == "append" and is_recv(elt) and g == guard and len(loops) == 1 and loops[0] in r.loops and r.loops[loops[0]].iter == T.mk_call("range", [n])
    if len(v[2]) == 2:  # max(0.0, max(comprehension)) is not used today; max(0.0, *xs) neither: not recognised on purpose
        return False
    return False


def run(chk: Check, model):
    ar = AsyncRT(model)
    chk.rule("C04.sched", "push_scheduled_ts queues (tick, tick/rate + phase) and increments the tick by exactly 1")
    chk.rule("C04.start", "ts_start == max(ts_max, ts_end_prev, ts_sched + drift), last term dropped iff only_blocking")
    chk.rule("C04.only_blocking", "only_blocking == node.advance and all(inputs blocking)")
    chk.rule("C04.drift", "drift' == max(drift, ts_end_prev - ts_sched) under FREQUENCY, == 0 under PHASE; initial drift 0")
    chk.rule("C04.end", "ts_end == ts_start + sampled delay; header.ts, q_ts_end_prev and the consumers all get ts_end")
    chk.rule("C04.recv", "recv == max(sent + sampled delay, prev_recv); prev_recv := recv; (seq, recv) queued")
    chk.rule("C04.ts_max", "push_ts_max queues max(0, recv times of the messages the blocking step waits for)")
    chk.rule("C04.record", "AsyncStepRecord timing fields are fed from the same definitions")
    chk.rule("C04.generator", "the graph generator follows the same law for the settings it supports (FREQUENCY, non-blocking): ts_start(0) = phase, ts_end = ts_start + "
                              "sampled delay, ts_start(k+1) = max(ts_end, ts_start + 1/rate)")
    from .c12 import rule_scan
    rule_scan(chk, model, "C04.generator")
    chk.rule("C04.phase", "the phase of the schedule: BaseNode.phase = max(0, phases of the non-skipped inputs), recomputed on every read; phase_output = phase + delay; "
                          "Connection.phase = sender phase_output + delay")
    from .c16 import rule_phase
    rule_phase(chk, model, "C04.phase")
    # the first step has no predecessor: the primed 'end of previous step' is 0, so that only the schedule / the inputs decide
    rs = ar.node("_start")
    prime = queue_ops(rs, "q_ts_end_prev", "append")
    f_start = model.func(f"{NODE}._start")
    chk.add("C04.start", "first step: end of previous step primed with 0", len(prime) == 1 and T.const_value(prime[0].args[0]) == 0 and prime[0].guard == T.TRUE,
            f"_start primes q_ts_end_prev with {[T.show(e.args[0])[:60] for e in prime]}, expected 0.0 (an advancing node would otherwise be held back)", chk.loc(f_start))

    # ---------------------------------------------------------------- push_scheduled_ts
    fi = model.func(f"{NODE}.push_scheduled_ts")
    chk.used(fi.qualname)
    r = ar.node("push_scheduled_ts")
    ap = one(queue_ops(r, "q_ts_scheduled", "append"), "append on q_ts_scheduled")
    tup = ap.args[0]
    tick0 = S("self._tick")
    spec_sched = T.add(T.div(tick0, S("self.node.rate")), S("self._phase"))
    loc = chk.loc(fi, ap.node)
    if tup[0] != "tuple" or len(tup[1]) != 2:
        chk.unknown("C04.sched", "q_ts_scheduled.append", f"appended value is not a pair: {T.show(tup)}", loc)
    else:
        chk.add("C04.sched", "tick", tup[1][0] == tick0, f"queued tick is {T.show(tup[1][0])}, expected the pre-increment self._tick", loc)
        chk.add("C04.sched", "ts_scheduled", tup[1][1] == spec_sched,
                f"queued scheduled time is {T.show(tup[1][1])}, expected {T.show(spec_sched)}", loc)
    new_tick = T.assume(r.attr("self", "_tick"), ap.guard)
    chk.add("C04.sched", "tick increment", new_tick == T.add(tick0, T.ONE),
            f"self._tick after a scheduled tick is {T.show(new_tick)}, expected self._tick + 1", chk.loc(fi))
    # the phase used is the node's configured phase, captured at reset
    rr = ar.node("_reset")
    chk.used(f"{NODE}._reset")
    ph = rr.attr("self", "_phase")
    chk.add("C04.sched", "phase source", ph == S("self.node.phase"),
            f"_reset stores self._phase = {T.show(ph)}, expected float(self.node.phase)", chk.loc(model.func(f"{NODE}._reset")))
    ps0 = rr.attr("self", "_phase_scheduled")
    chk.add("C04.drift", "initial drift", T.const_value(ps0) == 0,
            f"_reset stores self._phase_scheduled = {T.show(ps0)}, expected 0.0", chk.loc(model.func(f"{NODE}._reset")))
    # blocking inputs are told the scheduled time of the same tick
    for e in queue_ops(r, "q_ts_next_step", "append"):
        chk.add("C04.sched", "blocking inputs get (tick, ts_scheduled)", e.args[0] == tup,
                f"q_ts_next_step gets {T.show(e.args[0])}, expected the same pair as q_ts_scheduled", chk.loc(fi, e.node))

    # ---------------------------------------------------------------- push_phase_shift
    fi = model.func(f"{NODE}.push_phase_shift")
    chk.used(fi.qualname)
    r = ar.node("push_phase_shift")
    sched = popped(r, "q_ts_scheduled")
    TICK, SCH = T.mk_index(sched, T.const(0)), T.mk_index(sched, T.const(1))
    E = popped(r, "q_ts_end_prev")
    PS = S("self._phase_scheduled")
    ap = one(queue_ops(r, "q_ts_start", "append"), "append on q_ts_start")
    loc = chk.loc(fi, ap.node)
    tup = ap.args[0]
    if tup[0] != "tuple" or len(tup[1]) != 4:
        raise AnalysisError(f"q_ts_start.append does not get a 4-tuple: {T.show(tup)}")
    q_tick, q_start, q_delay, q_rec = tup[1]
    chk.add("C04.start", "tick", q_tick == TICK, f"queued tick {T.show(q_tick)} is not the popped scheduled tick", loc)

    # only_blocking selector inside ts_start: found by provenance (the ite condition that depends on node.advance)
    ob_conds = [c for c in {x[1] for x in T.walk(q_start) if x[0] == "ite"} if mentions(c, "self.node.advance")]
    if len(ob_conds) > 1:
        chk.unknown("C04.only_blocking", "condition", f"several advance-dependent selectors in ts_start: {[T.show(c) for c in ob_conds]}", loc)
        return
    if not ob_conds:
        ob = None
        chk.violation("C04.only_blocking", "condition", "ts_start does not depend on node.advance at all: a node with advance=True "
                      "and only blocking inputs must ignore its schedule", loc)
    else:
        ob = ob_conds[0]
        parts = ob[1] if ob[0] == "and" else (ob,)
        good = len(parts) == 2 and S("self.node.advance") in parts and any(_is_all_blocking(p) for p in parts)
        chk.add("C04.only_blocking", "condition", good,
                f"selector is {T.show(ob)}, expected self.node.advance and all(i.connection.blocking for i in inputs)", loc)

    cands = _ts_max_candidates(q_start, r, ap.guard)
    TSMAX = None
    if not cands:
        chk.violation("C04.start", "ts_max", "ts_start does not contain max(0, arrivals popped from q_ts_max of the blocking inputs): "
                      f"{T.show(q_start)[:300]}", loc)
    for only_blocking in (False, True):
        st = T.assume(q_start, ob, only_blocking) if ob is not None else q_start
        inst = f"only_blocking={only_blocking}"
        hit = None
        for tm in cands:
            want = T.mk_max([tm, E] if only_blocking else [tm, E, T.add(SCH, PS)])
            if st == want:
                hit = tm
                break
        if hit is None and cands:
            want = T.mk_max([cands[0], E] if only_blocking else [cands[0], E, T.add(SCH, PS)])
            chk.violation("C04.start", inst, f"ts_start = {T.show(st)[:400]}, expected {T.show(want)[:400]}", loc)
        elif hit is not None:
            TSMAX = hit
            chk.holds("C04.start", inst, f"ts_start = max(ts_max, ts_end_prev{'' if only_blocking else ', ts_sched + drift'})", loc)

    # drift update
    guard = ap.guard
    ps_new = T.assume(r.attr("self", "_phase_scheduled"), guard)
    for sched_mode, want in ((FREQUENCY, T.mk_max([PS, T.sub(E, SCH)])), (PHASE, T.ZERO)):
        got = T.subst(ps_new, {S("self.node.scheduling"): sched_mode})
        chk.add("C04.drift", f"scheduling={sched_mode[1].split('.')[-1]}", got == want,
                f"drift' = {T.show(got)}, expected {T.show(want)}", chk.loc(fi))

    # end time and what is sent ahead (simulated clock)
    sim = {CLOCK: SIMULATED}
    d_pop = popped(r, "q_sample")
    delay = T.subst(q_delay, sim)
    chk.add("C04.end", "delay source", delay == d_pop, f"queued delay is {T.show(delay)}, expected the sampled q_sample entry", loc)
    ts_end = T.add(q_start, d_pop)
    hdrs = [e for e in r.events if e.kind == "call" and e.name == "new:Header"]
    h = one(hdrs, "Header construction in push_phase_shift")
    hd = {k: T.subst(v, sim) for k, v in dict(h.term[2]).items()}
    chk.add("C04.end", "header.ts", hd.get("ts") == ts_end, f"header.ts = {T.show(hd.get('ts'))[:200]}, expected ts_start + delay", chk.loc(fi, h.node))
    chk.add("C04.end", "header.seq", hd.get("seq") == TICK, f"header.seq = {T.show(hd.get('seq'))}, expected the tick", chk.loc(fi, h.node))
    chk.add("C04.end", "header.eps", hd.get("eps") == S("self._eps"), f"header.eps = {T.show(hd.get('eps'))}", chk.loc(fi, h.node))
    ep = one(queue_ops(r, "q_ts_end_prev", "append"), "append on q_ts_end_prev in push_phase_shift")
    chk.add("C04.end", "q_ts_end_prev", T.subst(ep.args[0], sim) == ts_end, f"next ts_end_prev = {T.show(ep.args[0])[:200]}, expected ts_start + delay",
            chk.loc(fi, ep.node))
    subs = [e for e in r.events if e.kind == "call" and e.name.endswith("._submit") and e.args and mentions(e.args[0], "push_ts_input")]
    chk.floor("C04.end", "submit of push_ts_input", len(subs), 1)
    for e in subs:
        ok = len(e.args) == 3 and T.subst(e.args[1], sim) == ts_end and e.args[2] == h.term
        chk.add("C04.end", "consumers get (ts_end, header)", ok,
                f"push_ts_input is submitted with {[T.show(a)[:120] for a in e.args[1:]]}, expected (ts_start + delay, header)", chk.loc(fi, e.node))

    # record fields
    rec = dict(q_rec[2]) if q_rec[0] == "obj" else None
    if rec is None:
        chk.unknown("C04.record", "AsyncStepRecord", f"4th queue element is not a record construction: {T.show(q_rec)[:200]}", loc)
    else:
        want = {"seq": TICK, "ts_scheduled": SCH, "ts_end_prev": E, "ts_start": q_start, "phase_scheduled": PS,
                "phase": T.sub(q_start, SCH), "phase_last": T.sub(E, SCH), "eps": S("self._eps")}
        if TSMAX is not None:
            want["ts_max"] = TSMAX
            want["phase_inputs"] = T.sub(TSMAX, SCH)
        for f, w in want.items():
            chk.add("C04.record", f, rec.get(f) == w, f"record.{f} = {T.show(rec.get(f))[:200]}, expected {T.show(w)[:200]}", loc)

    # ---------------------------------------------------------------- push_step: end time of the executed step
    fi = model.func(f"{NODE}.push_step")
    chk.used(fi.qualname)
    r = ar.node("push_step")
    pop = popped(r, "q_ts_start")
    p_tick, p_start, p_delay = (T.mk_index(pop, T.const(i)) for i in range(3))
    hdrs = [e for e in r.events if e.kind == "call" and e.name == "new:Header" and e.func.endswith("push_step")]
    h = one(hdrs, "Header construction in push_step")
    hd = {k: T.subst(v, sim) for k, v in dict(h.term[2]).items()}
    loc = chk.loc(fi, h.node)
    chk.add("C04.end", "push_step header.ts", hd.get("ts") == T.add(p_start, p_delay),
            f"header.ts = {T.show(hd.get('ts'))[:200]}, expected queued ts_start + queued delay", loc)
    chk.add("C04.end", "push_step header.seq", hd.get("seq") == p_tick, f"header.seq = {T.show(hd.get('seq'))}", loc)
    subs = [e for e in r.events if e.kind == "call" and e.name.endswith("._submit") and e.args and mentions(e.args[0], "push_input")]
    chk.floor("C04.end", "submit of push_input", len(subs), 1)
    for e in subs:
        ok = len(e.args) == 3 and T.subst(e.args[2], sim) == T.subst(h.term, sim)
        chk.add("C04.end", "push_input gets the header", ok, f"push_input submitted with header {T.show(e.args[2])[:160]}", chk.loc(fi, e.node))

    # ---------------------------------------------------------------- push_ts_input: arrival time
    fi = model.func(f"{CONN}.push_ts_input")
    chk.used(fi.qualname)
    r = ar.conn("push_ts_input")
    simc = {IN_CLOCK: SIMULATED}
    d = popped(r, "q_sample")
    prev = S("self._prev_recv_sc")
    want = T.mk_max([T.add(S("header.ts"), d), prev])
    ap = one(queue_ops(r, "q_ts_input", "append"), "append on q_ts_input")
    g = ap.guard
    got_prev = T.assume(T.subst(r.attr("self", "_prev_recv_sc"), simc), T.subst(g, simc))
    loc = chk.loc(fi, ap.node)
    tup = T.subst(ap.args[0], simc)
    ok = tup[0] == "tuple" and len(tup[1]) == 2
    chk.add("C04.recv", "queued (seq, recv)", ok and tup[1][0] == S("header.seq") and tup[1][1] == want,
            f"q_ts_input gets {T.show(tup)[:240]}, expected (header.seq, {T.show(want)})", loc)
    chk.add("C04.recv", "prev_recv := recv", got_prev == want, f"self._prev_recv_sc becomes {T.show(got_prev)[:200]}, expected {T.show(want)}", chk.loc(fi))
    zd = one(queue_ops(r, "q_zip_delay", "append"), "append on q_zip_delay")
    chk.add("C04.recv", "recorded delay = recv - sent", T.subst(zd.args[0], simc) == T.sub(want, S("header.ts")),
            f"q_zip_delay gets {T.show(T.subst(zd.args[0], simc))[:200]}", chk.loc(fi, zd.node))
    rc = ar.conn("reset")
    chk.used(f"{CONN}.reset")
    chk.add("C04.recv", "initial prev_recv", T.const_value(rc.attr("self", "_prev_recv_sc")) == 0,
            f"reset stores _prev_recv_sc = {T.show(rc.attr('self', '_prev_recv_sc'))}", chk.loc(model.func(f"{CONN}.reset")))

    # ---------------------------------------------------------------- push_ts_max
    fi = model.func(f"{CONN}.push_ts_max")
    chk.used(fi.qualname)
    r = ar.conn("push_ts_max")
    n = popped(r, "q_expected_ts_max")
    ap = one(queue_ops(r, "q_ts_max", "append"), "append on q_ts_max")
    v = ap.args[0]
    ok = _max0_of_pops(v, n, r, ap.guard)
    chk.add("C04.ts_max", "value", ok, f"q_ts_max gets {T.show(v)[:240]}, expected max([0.0] + [q_ts_input.popleft()[1] for _ in range(n)])",
            chk.loc(fi, ap.node))
