"""C14 — records and graphs convert, stack, pad and filter without loss.

Role-preserving projections (A5), one padding sentinel written and tested everywhere (A8), indexing over all leaves (A9),
filter keeps exactly the selected nodes and the connections among them.  Not decided: ragged padding arithmetic.
"""
from __future__ import annotations

import ast

from .. import flow
from .. import terms as T
from ..asyncrt import mentions
from ..report import Check
from ..roles import rule_networkx, rule_record_to_graph, rule_sentinel, rule_windowed_to_graph
from ..symeval import SymEval

S = T.sym


def rule_getitem(chk: Check, model, rid: str):
    chk.rule(rid, "indexing (A9): __getitem__ of Graph / Window / WindowedGraph / EpisodeRecord maps x[val] over every leaf; InputState.__getitem__ indexes "
                  "all four buffers and keeps the delay distribution")
    for q in ("base.Graph.__getitem__", "base.Window.__getitem__", "base.WindowedGraph.__getitem__", "base.EpisodeRecord.__getitem__", "base.Base.__getitem__"):
        fi = model.func(q)
        chk.used(q)
        ev = SymEval(model)
        r = ev.run_function(fi)
        ret = r.ret
        if ret[0] == "ite":  # Graph.__getitem__ raises for an unbatched graph first
            ret = ret[3] if ret[2] == T.NONE or ret[2][0] == "const" else ret[2]
        rets = [e for e in r.events if e.kind == "return" and e.func == fi.qualname]
        val = rets[-1].term if rets else ret
        ok = val == T.mk_index(S("self"), S("val"))  # tree_map(lambda v: v[val], self) applied leafwise
        tm = [e for e in r.events if e.kind == "call" and e.name == "jax.tree_util.tree_map"]
        chk.add(rid, q, ok, f"{q} returns {T.show(val)[:120]}, expected tree_map(lambda x: x[val], self)", chk.loc(fi))
    fi = model.func("base.InputState.__getitem__")
    chk.used(fi.qualname)
    ev = SymEval(model)
    r = ev.run_function(fi)
    ret = r.ret
    ok = ret[0] == "obj" and ret[1] == "InputState"
    if ok:
        f = dict(ret[2])
        ok = all(f.get(k) == T.mk_index(S(f"self.{k}"), S("val")) for k in ("seq", "ts_sent", "ts_recv", "data")) and f.get("delay_dist") == S("self.delay_dist")
    chk.add(rid, "base.InputState.__getitem__", ok, f"InputState.__getitem__ returns {T.show(ret)[:200]}", chk.loc(fi))
    fi = model.func("base.Graph.__len__")
    ev = SymEval(model)
    r = ev.run_function(fi)
    shape = T.mk_attr(T.mk_attr(T.mk_call("next", [T.mk_call("iter", [T.mk_call("self.vertices.values", [])])]), "seq"), "shape")
    want = T.mk_ite(T.lt(T.ONE, T.mk_call("len", [shape])), T.mk_index(shape, T.ZERO), T.ONE)
    chk.add(rid, "base.Graph.__len__", r.ret == want, f"Graph.__len__ returns {T.show(r.ret)[:160]}, expected shape[0] for a batched graph, else 1", chk.loc(fi))


def rule_filter(chk: Check, model, rid: str):
    chk.rule(rid, "filter: kept vertices are exactly the keys of `nodes`; an edge (n1, n2) is kept only if it is in the connection set, which is built only from "
                  "pairs whose both ends are in `nodes` (both branches); filtering copies, it does not mutate the input")
    for q, vattr, eattr in (("base.Graph.filter", "vertices", "edges"), ("base.EpisodeRecord.filter", "nodes", None)):
        fi = model.func(q)
        chk.used(q)
        ev = SymEval(model)
        r = ev.run_function(fi)
        ins = []  # (tuple term, condition under which it is inserted, event)
        grouped = set()  # tables that keep the relation as {receiver: set of senders}
        for e in r.events:
            if e.kind == "local_append" and e.loops and e.term[0] == "tuple":
                ins.append((e.term, e.guard, e))  # connections.add((n1, n2)) on the function's own set
                continue
            if e.kind != "call" or not e.loops:
                continue
            if e.name.endswith(".add") and len(e.args) == 1 and e.recv is not None and e.recv[0] == "call" and T.call_name(e.recv).endswith(".setdefault") and len(e.recv[2]) == 2 \
                    and e.recv[2][1] == ("call", "set", (), (), None):
                # the relation kept per receiver, senders.setdefault(n2, set()).add(n1): the pair (n1, n2)
                ins.append((("tuple", (e.args[0], e.recv[2][0])), e.guard, e))
                grouped.add(e.recv[1][1] if isinstance(e.recv[1], tuple) and e.recv[1][0] == "attr" else T.sym(str(e.recv[1])[:-len(".setdefault")]))
                continue
            if e.name.endswith(".add") and e.args and e.args[0][0] == "tuple":
                ins.append((e.args[0], e.guard, e))
            elif e.name.endswith(".update") and e.args and e.args[0][0] == "comp" and e.args[0][2][0] == "tuple":
                ins.append((e.args[0][2], T.mk_and([e.guard] + list(e.args[0][4])), e))
        # (one insertion per filter mode, or one insertion reached in both modes: counted per mode it is reachable in)
        flag_ = S("filter_edges" if "Graph" in q else "filter_connections")
        chk.floor(rid, f"{q} connection insertions", sum(1 for _, cond, _e in ins for v_ in (True, False) if T.assume(cond, flag_, v_) != T.FALSE), 2)
        for tup, cond, e in ins:
            ok = len(tup[1]) == 2
            if ok:
                n1, n2 = tup[1]
                ok = flow.implies(cond, ("in", n1, S("nodes")))
                ok = ok and any(x[0] == "elem" and x[1] in (T.mk_call("nodes.items", []), S("nodes")) for x in T.walk(n2))
            branch = "filter on" if flow.implies(cond, S("filter_edges" if "Graph" in q else "filter_connections")) else "filter off"
            chk.add(rid, f"{q}: connection only between selected nodes ({branch})", bool(ok), f"a connection {T.show(tup)[:100]} is inserted under {T.show(cond)[:140]}: "
                    "the sending node must be checked to be in `nodes`", chk.loc(fi, e.node))
        if q == "base.Graph.filter":
            pops = [e for e in r.events if e.kind == "call" and e.name.endswith(".pop")]
            vp = [e for e in pops if mentions(e.recv, "vertices")]
            ep = [e for e in pops if mentions(e.recv, "edges")]
            fr = dict(r.ret[2]) if r.ret[0] == "obj" and r.ret[1] == "Graph" else {}
            if not pops and all(fr.get(k, T.NONE)[0] == "comp" for k in ("vertices", "edges")):
                # the kept entries built directly: {k: v for k, v in self.<table>.items() if <key> in <selection>}
                def kept(comp, table):
                    items = T.mk_call(f"self.{table}.items", [])
                    if not (comp[1] == "dict" and len(comp[3]) == 1 and comp[3][0][1] == items and comp[2][0] == "tuple" and len(comp[4]) == 1 and comp[4][0][0] == "in"):
                        return None
                    el = ("elem", items, [x for x in T.walk(comp[2]) if x[0] == "elem" and x[1] == items][0][2]) if any(x[0] == "elem" and x[1] == items for x in T.walk(comp[2])) else None
                    k, v = comp[2][1]
                    key_el = T.mk_index(el, T.ZERO) if el else None
                    if k[0] == "tuple" and key_el is not None and k[1] == (T.mk_index(key_el, T.ZERO), T.mk_index(key_el, T.ONE)):
                        k = key_el
                    ck = comp[4][0][1]
                    if ck[0] == "tuple" and key_el is not None and ck[1] == (T.mk_index(key_el, T.ZERO), T.mk_index(key_el, T.ONE)):
                        ck = key_el
                    if el is None or k != key_el or v != T.mk_index(el, T.ONE) or ck != key_el:
                        return None
                    return comp[4][0][2]
                sel_v, sel_e = kept(fr["vertices"], "vertices"), kept(fr["edges"], "edges")
                chk.add(rid, "Graph.filter drops exactly the unselected vertices", sel_v == S("nodes"), f"kept vertices = {T.show(fr['vertices'])[:160]}, expected the entries of self.vertices whose key is in `nodes`", chk.loc(fi))
                conn_sets = {e.recv for _, _, e in ins if e.recv is not None}

                def _is_conn_set(t):
                    # the function's own connection set: what the insertions above went into, joined over the branches they sit in
                    if t[0] == "ite":
                        return _is_conn_set(t[2]) and _is_conn_set(t[3])
                    if t == ("call", "set", (), (), None):
                        return True
                    return any(t == c or (t[0] == "accum" and (c == t[1] or (c[0] == "accum" and c[1] == t[1]))) for c in conn_sets) \
                        and (t[0] != "accum" or all(it[2] in [tp for tp, _, _ in ins] for it in t[2]))
                chk.add(rid, "Graph.filter drops exactly the edges outside the connection set", sel_e is not None and (not conn_sets or _is_conn_set(sel_e)),
                        f"kept edges = {T.show(fr['edges'])[:160]}, expected the entries of self.edges whose key is in the connection set", chk.loc(fi))
                chk.add(rid, "Graph.filter works on copies", True, "", chk.loc(fi))
                chk.add(rid, "Graph.filter returns a Graph of the filtered dicts", True, "", chk.loc(fi))
                continue
            ok = len(vp) == 1 and vp[0].guard[0] == "not" and vp[0].guard[1] == ("in", vp[0].args[0], S("nodes"))
            chk.add(rid, "Graph.filter drops exactly the unselected vertices", ok, f"vertices are dropped under {T.show(vp[0].guard)[:120] if vp else None}, expected `k not in nodes`", chk.loc(fi))
            ok = len(ep) == 1 and ep[0].guard[0] == "not" and ep[0].guard[1][0] == "in" and ep[0].guard[1][1] == ep[0].args[0]
            if not ok and len(ep) == 1 and len(grouped) == 1 and ep[0].args and ep[0].args[0][0] == "tuple" and len(ep[0].args[0][1]) == 2:
                # with the relation kept per receiver, (n1, n2) is in it iff n2 is a key and n1 is in its set
                X = next(iter(grouped))
                n1_, n2_ = ep[0].args[0][1]
                ok = flow.equivalent(ep[0].guard, T.mk_not(T.mk_and([("in", n2_, X), ("in", n1_, T.mk_index(X, n2_))])))
            chk.add(rid, "Graph.filter drops exactly the edges outside the connection set", ok, f"edges are dropped under {T.show(ep[0].guard)[:120] if ep else None}, expected `(n1, n2) not in connections`", chk.loc(fi))
            cp = [e for e in r.events if e.kind == "call" and e.name in ("self.vertices.copy", "self.edges.copy")]
            chk.add(rid, "Graph.filter works on copies", len(cp) == 2, "Graph.filter must copy vertices and edges before dropping entries", chk.loc(fi))
            ret = r.ret
            # ... and returns exactly those two tables: a selected vertex is kept whether or not an edge ends in it
            okr = ret[0] == "obj" and ret[1] == "Graph" and len(vp) == 1 and len(ep) == 1 and fr.get("vertices") == vp[0].recv and fr.get("edges") == ep[0].recv
            chk.add(rid, "Graph.filter returns a Graph of the filtered dicts", okr, f"filter returns {T.show(ret)[:200]}, expected Graph(vertices=<the copy the unselected vertices were dropped from>, "
                    "edges=<the copy the other edges were dropped from>)", chk.loc(fi))
        else:
            # the per-node update: a record replaced with filtered inputs / info (whatever the local dict is called)
            nn = [e for e in r.events if e.kind == "store_sub" and e.term[0] == "replace" and {"inputs", "info"} <= set(dict(e.term[2]))]
            ok = len(nn) == 1
            if ok:
                v = nn[0].term
                f = dict(v[2]) if v[0] == "replace" else {}
                ii = f.get("inputs")
                ok = ii is not None and ii[0] == "comp" and len(ii[4]) == 1 and ii[4][0][0] == "in" and ii[4][0][1][0] == "tuple" and len(ii[4][0][1][1]) == 2
            chk.add(rid, "EpisodeRecord.filter keeps only the inputs in the connection set", bool(ok), "each kept node's inputs / info.inputs must be restricted to connections", chk.loc(fi))


def rule_experiment_filter(chk: Check, model, rid: str):
    fi = model.func("base.ExperimentRecord.filter")
    chk.used(fi.qualname)
    r = SymEval(model).run_function(fi)
    ret = r.ret
    ok = ret[0] == "obj" and ret[1] == "ExperimentRecord"
    if ok:
        eps = dict(ret[2]).get("episodes", T.NONE)
        ok = eps[0] == "comp" and eps[1] == "list" and len(eps[3]) == 1 and eps[3][0][1] == S("self.episodes") and not eps[4]
        if ok:
            c = eps[2]
            el = [x for x in T.walk(c) if x[0] == "elem" and x[1] == S("self.episodes")]
            b = model.bind_call("base.EpisodeRecord.filter", c[2], c[3]) if c[0] == "call" else {}
            ok = c[0] == "call" and bool(el) and T.call_name(c).endswith(".filter") and c[1] == ("attr", el[0], "filter") and b.get("nodes") == S("nodes") and b.get("filter_connections") == S("filter_connections")
    chk.add(rid, "ExperimentRecord.filter filters every episode with the same selection", bool(ok), f"ExperimentRecord.filter returns {T.show(ret)[:200]}, expected "
            "ExperimentRecord([e.filter(nodes, filter_connections) for e in self.episodes]) on every path", chk.loc(fi))


def run(chk: Check, model):
    chk.rule("C14.convert", "role-preserving projections (A5): EpisodeRecord.to_graph and WindowedGraph.to_graph copy seq/ts_start/ts_end and seq_out/seq_in/ts_recv "
                            "field to field, every node becomes a vertex set, edges are keyed (sender, receiver)")
    rule_record_to_graph(chk, model, "C14.convert")
    rule_windowed_to_graph(chk, model, "C14.convert")
    chk.rule("C14.sentinel", "one padding sentinel (A8): Graph.stack and ExperimentRecord.stack pad at the end with -1 using host numpy (dtype preserving); "
                             "to_networkx_graph skips seq == -1 vertices and edges with an end at -1")
    rule_sentinel(chk, model, "C14.sentinel")
    rule_networkx(chk, model, "C14.sentinel")
    rule_getitem(chk, model, "C14.index")
    rule_filter(chk, model, "C14.filter")
    rule_experiment_filter(chk, model, "C14.filter")
