"""C03 — recorded episodes are causal and loss-free on every connection.

Tie rules as truth tables (A6), exactly-once tiling of blocking windows (A6), FIFO / causality bounds (A7),
gap-free counters (A2), tail-slice window and ring shift (A5/A9), episode filter (A3), role-preserving records (A5).
"""
from __future__ import annotations

import ast
from fractions import Fraction as F

from .. import flow, order
from .. import terms as T
from ..asyncflow import AsyncView, rule_eps_filter, rule_handoff_topology
from ..asyncrt import BUFFER, CONN, IN_CLOCK, LATEST, NODE, SIMULATED, mentions, one, popped, queue_ops
from ..report import AnalysisError, Check
from ..symeval import SymEval

S = T.sym
SKIP = S("self.connection.skip")
JITTER = S("self.connection.jitter")


def _elem_of(loop_info, lid):
    return ("elem", loop_info.iter, lid)


def rule_tie(chk: Check, view: AsyncView, rid: str):
    chk.rule(rid, "tie rules as truth tables (A6): non-blocking LATEST consumes a message iff recv < step start, or recv == start on a "
                  "non-skipped connection; BUFFER additionally requires expected arrival <= start; the selector waits for a receive time "
                  "strictly in the future; the consumed count is the length of the leading run that satisfies the predicate")
    key = "conn.push_expected_nonblocking"
    r = view.results[key]
    fi = view.fi(key)
    pop = one(queue_ops(r, "q_ts_next_step", "popleft"), "popleft on q_ts_next_step")
    s = T.mk_index(pop.term, T.const(1))
    loops = [(lid, l) for lid, l in r.loops.items() if l.kind == "for" and l.iter == S("self.q_ts_input")]
    # (one loop per jitter mode, or one loop whose stop condition depends on the mode: counted per mode it is active for)
    chk.floor(rid, "selection loops over q_ts_input", sum(1 for lid, l in loops for mt in (LATEST, BUFFER) if T.subst(l.guard, {JITTER: mt}) != T.FALSE), 2)
    seen_modes = set()
    for lid, l in loops:
        el = ("elem", l.iter, lid)
        m, seq = T.mk_index(el, T.const(1)), T.mk_index(el, T.const(0))
        for mode, mterm in (("LATEST", LATEST), ("BUFFER", BUFFER)):
            g = T.subst(l.guard, {JITTER: mterm})
            if g == T.FALSE:
                continue
            seen_modes.add(mode)
            pred = T.subst(T.assume(l.live_out, l.guard), {JITTER: mterm})
            loc = chk.loc(fi, l.node)
            try:
                if mode == "LATEST":
                    got = order.table(pred, order.pair_cases(m, s, flags=[SKIP]))
                    want = {(rel, sk): (rel == "lt" or (rel == "eq" and not sk)) for rel in order.REL for sk in (False, True)}
                else:
                    rate, phase = S("self.connection.output_node.rate"), S("self._phase")
                    cases = []
                    want = {}
                    for rx, (vx, _) in order.REL.items():
                        for rm, (vm, _) in order.REL.items():
                            for sk in (False, True):
                                cases.append(((rx, rm, sk), {seq: vx, m: vm, s: F(1), rate: F(1), phase: F(0), SKIP: sk}))
                                want[(rx, rm, sk)] = (rx in ("lt", "eq")) and (rm == "lt" or (rm == "eq" and not sk))
                    got = order.table(pred, cases)
                    # the expected arrival is seq / sender rate + connection phase (normal form, any rate/phase)
                    x_ref = T.add(T.div(seq, rate), phase)
                    atoms = [a for a in flow.bool_atoms(pred, []) if seq in set(T.walk(a))]
                    ok = len(atoms) == 1 and flow.canonical_atom(T.le(x_ref, s))[0] == atoms[0]
                    chk.add(rid, "BUFFER expected arrival", ok, f"the expected-arrival test is {[T.show(a)[:160] for a in atoms]}, expected "
                            "seq / output_node.rate + phase <= step start", loc)
            except order.NotComparisonOnly as e:
                chk.unknown(rid, mode, f"the selection predicate is not comparison-only: {e}", loc)
                continue
            bad = {k: (got[k], want[k]) for k in want if got.get(k) != want[k]}
            chk.add(rid, mode, not bad, f"consume table of the {mode} selector deviates at {_fmt(bad)} (case: (recv vs start" +
                    (", skip)" if mode == "LATEST" else "); key = (expected vs start, recv vs start, skip)") + " -> (got, expected)", loc, table=order.show_table(got))
            # counting: +1 per completed iteration from 0, and that count is what gets popped and queued
            cnt = [n for n, v in l.env_out.items() if n in l.env_in and v == T.add(l.env_in[n], T.ONE)]
            ok = len(cnt) == 1 and T.const_value(l.pre.get(cnt[0], T.NONE)) == 0
            chk.add(rid, f"{mode} count", ok, "the number of consumed messages must be a counter starting at 0 and incremented once per accepted message", loc)
            if ok:
                nsym = S(f"loopout{lid}:{cnt[0]}")
                sel = one(queue_ops(r, "q_expected_select", "append"), "append on q_expected_select")
                tup = T.subst(sel.args[0], {JITTER: mterm})
                okq = tup[0] == "tuple" and len(tup[1]) == 2 and tup[1][0] == s and tup[1][1] == nsym
                chk.add(rid, f"{mode} queued selection", okq, f"q_expected_select gets {T.show(tup)[:160]}, expected (step start, consumed count)", chk.loc(fi, sel.node))
                pops = queue_ops(r, "q_ts_input", "popleft")
                okp = len(pops) == 1 and pops[0].loops and T.subst(r.loops[pops[0].loops[-1]].iter, {JITTER: mterm}) == T.mk_call("range", [nsym])
                chk.add(rid, f"{mode} consumed timestamps removed", bool(okp), "exactly the counted number of receive times must be removed from q_ts_input", chk.loc(fi))
    for mode in ("LATEST", "BUFFER"):
        if mode not in seen_modes:
            chk.violation(rid, f"{mode} branch", f"no selection loop is active for jitter={mode}", chk.loc(fi))
    rule_future_guard(chk, view, rid)


def rule_future_guard(chk: Check, view: AsyncView, rid: str):
    key = "conn.push_expected_nonblocking"
    r = view.results[key]
    fi = view.fi(key)
    pop = one(queue_ops(r, "q_ts_next_step", "popleft"), "popleft on q_ts_next_step")
    # future guard (simulated clock): some queued receive time strictly after the step start
    sim = {IN_CLOCK: SIMULATED}
    g = T.subst(pop.guard, sim)
    anys = [x for x in T.walk(g) if x[0] == "call" and x[1] == "any" and len(x[2]) == 1 and x[2][0][0] == "comp"]
    ok = False
    detail = "the selection is not guarded by any(recv > step start for the queued receive times)"
    if len(anys) == 1 and flow.implies(g, anys[0]):
        comp = anys[0][2][0]
        el = [x for x in T.walk(comp[2]) if x[0] == "elem"]
        if len(el) == 1 and el[0][1] == S("self.q_ts_input") and not comp[4]:
            m = T.mk_index(el[0], T.const(1))
            speek = T.mk_index(T.mk_index(S("self.q_ts_next_step"), T.const(0)), T.const(1))
            try:
                got = order.table(comp[2], order.pair_cases(m, speek))
                want = {("lt",): False, ("eq",): False, ("gt",): True}
                ok = got == want
                detail = f"future-guard table is {order.show_table(got)}, expected only 'gt' (a receive time strictly after the step start)"
            except order.NotComparisonOnly as e:
                detail = f"future guard is not comparison-only: {e}"
    chk.add(rid, "future guard", ok, detail, chk.loc(fi, pop.node))
    ok = flow.implies(g, T.lt(T.ZERO, T.mk_call("len", [S("self.q_ts_input")])))
    chk.add(rid, "future guard: some receive time known", ok, "under the simulated clock the selection must wait until a receive time is queued", chk.loc(fi, pop.node))


def _fmt(bad):
    return "; ".join(f"{k} -> {v}" for k, v in list(bad.items())[:6])


def rule_tiling(chk: Check, view: AsyncView, rid: str):
    chk.rule(rid, "exactly-once tiling of blocking windows (A6): step N takes the sender ticks t with t_low < t <= t_high (t_low <= t < t_high "
                  "when skipped), the first step also everything at or before t_low; t_high(N) = N/rate + phase = t_low(N+1); the scan "
                  "starts at or before t_low and visits consecutive sender ticks")
    key = "conn.push_expected_blocking"
    r = view.results[key]
    fi = view.fi(key)
    pop = one(queue_ops(r, "q_ts_next_step", "popleft"), "popleft on q_ts_next_step")
    N = T.mk_index(pop.term, T.const(0))
    whiles = [(lid, l) for lid, l in r.loops.items() if l.kind == "while"]
    if len(whiles) != 1:
        chk.unknown(rid, "scan loop", f"expected one while loop in push_expected_blocking, found {len(whiles)}", chk.loc(fi))
        return
    lid, l = whiles[0]
    loc = chk.loc(fi, l.node)
    rate_n, phase_n = S("self.connection.input_node.rate"), S("self.connection.input_node.phase")
    rate_i, phase_i = S("self.connection.output_node.rate"), S("self.connection.output_node.phase")
    t_high = T.add(T.div(N, rate_n), phase_n)
    t_low = T.add(T.div(T.sub(N, T.ONE), rate_n), phase_n)
    # the scanned time: the quantity whose comparison with t_high decides whether the scan goes on - the loop condition, or an
    # unconditional `while True` left by a `break` (both say the same thing)
    carried = {x for src in [l.cond] + list(l.env_out.values()) for x in T.walk(src) if x[0] == "sym" and x[1].startswith(f"loop{lid}:")}
    breaks = [T.assume(g, l.guard) for g, _ in r.ev.loop_breaks.get(lid, [])]
    go_on = T.mk_and([l.cond] + [T.mk_not(b) for b in breaks])
    cands = list(carried) + [v for v in l.env_out.values() if any(c in set(T.walk(v)) for c in carried)]
    ts = [x for x in cands if T.le(x, t_high) == go_on]
    if not ts:
        if len(carried & set(T.walk(go_on))) == 1 or len(breaks) == 1:
            chk.add(rid, "scan runs while t <= t_high", False, f"the scan goes on while {T.show(go_on)[:200]}, expected t <= N/rate + phase of the receiving node", loc)
        else:
            chk.unknown(rid, "scan loop condition", f"cannot identify the scanned time in {T.show(go_on)[:160]}", loc)
        return
    t = ts[0]
    chk.add(rid, "scan runs while t <= t_high", True, "", loc)
    if t in carried:
        # the time is carried and advanced at the end of the body:  t = (i + 1) / rate_in + phase_in
        tname = t[1].split(":", 1)[1]
        t_next = l.env_out.get(tname)
        isyms = [x for x in T.walk(t_next or T.NONE) if x in carried]
        ok = len(isyms) == 1 and t_next == T.add(T.div(T.add(isyms[0], T.ONE), rate_i), phase_i)
        chk.add(rid, "scan visits consecutive sender ticks", ok, f"next scanned time is {T.show(t_next)[:200] if t_next else None}, expected (i + 1) / sender rate + sender phase", loc)
        t0 = l.pre.get(tname)
        t_of_i = None
    else:
        # the time is computed from the carried index at the head of the body:  t = i / rate_in + phase_in
        isyms = [x for x in T.walk(t) if x in carried]
        ok = len(isyms) == 1 and t == T.add(T.div(isyms[0], rate_i), phase_i)
        chk.add(rid, "scan visits consecutive sender ticks", ok, f"scanned time is {T.show(t)[:200]}, expected i / sender rate + sender phase", loc)
        t0 = None
        t_of_i = isyms[0] if ok else None
    if ok:
        iname = isyms[0][1].split(":", 1)[1]
        chk.add(rid, "scan index increments by 1", l.env_out.get(iname) == T.add(isyms[0], T.ONE), f"index update is {T.show(l.env_out.get(iname, T.NONE))[:120]}", loc)
        i0 = l.pre.get(iname)
        want_i0 = T.mk_ite(T.lt(T.ZERO, N), T.mk_call("int", [T.mk_call("//", [T.sub(t_low, phase_i), T.div(T.ONE, rate_i)])]), T.ZERO)
        chk.add(rid, "scan start index", i0 == want_i0, f"start index is {T.show(i0)[:240] if i0 else None}, expected int((t_low - sender phase) // sender period) "
                "for N > 0 and 0 for the first step (which must also take everything before t_low)", loc)
        if t in carried:
            chk.add(rid, "scan start time", i0 is not None and t0 == T.add(T.div(i0, rate_i), phase_i), f"first scanned time is {T.show(t0)[:200] if t0 else None}, expected i0 / sender rate + sender phase", loc)
    # count predicate: the condition under which a tick is counted - an append to a local list whose length is queued, or an
    # increment of a local counter that is queued
    sel = one(queue_ops(r, "q_expected_select", "append"), "append on q_expected_select")
    tsm = one(queue_ops(r, "q_expected_ts_max", "append"), "append on q_expected_ts_max")
    tup = sel.args[0]
    count = tup[1][1] if tup[0] == "tuple" and len(tup[1]) == 2 else T.NONE
    region = T.mk_and([l.guard, go_on])
    apps = [e for e in r.events if e.kind == "local_append" and lid in e.loops]
    names = {e.name for e in apps}
    counter = None
    if count[0] == "sym" and count[1].startswith(f"loopout{lid}:"):
        counter = count[1].split(":", 1)[1]
    if counter is not None and counter in l.env_out:
        csym = S(f"loop{lid}:{counter}")
        step = T.assume(l.env_out[counter], region)
        preds = None
        chk.add(rid, "count only inside the scan", l.pre.get(counter) == T.ZERO, f"the counter starts at {T.show(l.pre.get(counter, T.NONE))[:80]}, expected 0", loc)
        count_ok = True
    elif len(names) == 1:
        outside = [e for e in r.events if e.kind == "local_append" and e.name in names and lid not in e.loops]
        chk.add(rid, "count only inside the scan", not outside, "the counted list is also appended outside the scan loop", loc)
        preds = [T.assume(e.guard, region) for e in apps]
        accs = [x for x in T.walk(count) if x[0] == "accum"]
        count_ok = count[0] == "call" and count[1] == "len" and bool(accs) and all(a[1] == ("list", ()) for a in accs)
    else:
        chk.unknown(rid, "count predicate", f"expected appends to one local list (or increments of one local counter) inside the scan, found {sorted(names)}", loc)
        return
    mismatches = []
    overlaps = []
    n_cases = 0
    try:
        for (vr, vp) in ((F(1), F(0)), (F(2), F(1, 2))):
            for n in (0, 5):
                th = F(n) / vr + vp
                tl = F(n - 1) / vr + vp
                reps = {"lt,lt": tl - F(1, 4), "eq,lt": tl, "gt,lt": (tl + th) / 2, "gt,eq": th}
                for lab, tv in reps.items():
                    for sk in (False, True):
                        for ge_phase in (True, False):
                            ph = tv - 10 if ge_phase else tv + 10
                            val = {N: F(n), rate_n: vr, phase_n: vp, SKIP: sk, phase_i: ph, rate_i: F(1)}
                            if t in carried:
                                val[t] = tv
                            else:
                                val[t_of_i] = tv - ph  # t = i / 1 + phase
                            if preds is not None:
                                k = sum(1 for p in preds if T.evaluate(p, val))
                            else:
                                k = T.evaluate(step, {**val, csym: F(0)})
                            got = k >= 1
                            in_window = (tl <= tv < th) if sk else (tl < tv <= th)
                            first = n == 0 and ((tv < tl) if sk else (tv <= tl))
                            want = ge_phase and (in_window or first)
                            n_cases += 1
                            if got != want:
                                mismatches.append(((f"rate={vr},phase={vp}", n, lab, f"skip={sk}", f"t>=phase_in={ge_phase}"), got, want))
                            if k > 1:
                                overlaps.append((n, lab, sk))
    except T.NoValue as e:
        chk.unknown(rid, "count predicate", f"the count predicate is not comparison-only over (t, t_low, t_high, skip, N == 0): {e}", loc)
        return
    chk.add(rid, "count predicate table", not mismatches, f"the per-tick count predicate deviates from the exactly-once tiling at {mismatches[:4]} "
            "(case, got, expected): a boundary tick would be delivered to no step or to two steps", loc, cases=n_cases)
    chk.add(rid, "count predicate branches disjoint", not overlaps, f"a tick is counted twice at {overlaps[:4]}", loc)
    # boundaries of consecutive steps coincide
    chk.add(rid, "t_high(N) == t_low(N+1)", T.subst(t_low, {N: T.add(N, T.ONE)}) == t_high, "window boundaries of consecutive steps do not coincide", loc)
    # the count is what is queued for the arrival max and for the selection
    ok = tup[0] == "tuple" and len(tup[1]) == 2 and tup[1][1] == tsm.args[0] and count_ok and tup[1][0] == T.mk_index(pop.term, T.const(1))
    chk.add(rid, "count queued for ts_max and selection", ok, f"q_expected_select gets {T.show(tup)[:120]}; both queues must receive the number of counted ticks", chk.loc(fi, sel.node))
    order_ok = tsm.idx < sel.idx
    calls = [e for e in r.events if e.kind == "call" and e.name in ("self.push_ts_max", "self.push_selection")]
    chk.add(rid, "both consumers triggered", {e.name for e in calls} == {"self.push_ts_max", "self.push_selection"} and order_ok,
            "push_expected_blocking must trigger push_ts_max and push_selection after queueing the count", chk.loc(fi))


def rule_fifo(chk: Check, view: AsyncView, rid: str):
    chk.rule(rid, "FIFO and causality bounds (A7): recv = max(sent + delay, prev_recv) with prev_recv := recv, hence recv >= prev_recv, and "
                  "recv >= sent for delay >= 0 (C15); the clamped value is what is queued and recorded")
    key = "conn.push_ts_input"
    r = view.results[key]
    fi = view.fi(key)
    sim = {IN_CLOCK: SIMULATED}
    d = popped(r, "q_sample")
    prev = S("self._prev_recv_sc")
    sent = S("header.ts")
    ap = one(queue_ops(r, "q_ts_input", "append"), "append on q_ts_input")
    tup = T.subst(ap.args[0], sim)
    recv = tup[1][1] if tup[0] == "tuple" and len(tup[1]) == 2 else T.NONE
    items = set(recv[1]) if recv[0] == "max" else {recv}
    loc = chk.loc(fi, ap.node)
    chk.add(rid, "recv >= prev_recv", prev in items, f"queued receive time {T.show(recv)[:200]} is not bounded below by the previous receive time (messages could overtake each other)", loc)
    chk.add(rid, "recv >= sent + delay", T.add(sent, d) in items, f"queued receive time {T.show(recv)[:200]} is not bounded below by sent + sampled delay", loc)
    chk.add(rid, "recv has no other term", items == {prev, T.add(sent, d)}, f"receive time is {T.show(recv)[:200]}, expected max(sent + delay, prev_recv)", loc)
    newprev = T.assume(T.subst(r.attr("self", "_prev_recv_sc"), sim), T.subst(ap.guard, sim))
    chk.add(rid, "prev_recv := recv", newprev == recv, f"self._prev_recv_sc becomes {T.show(newprev)[:200]}, expected the clamped receive time {T.show(recv)[:120]}", chk.loc(fi))
    zd = one(queue_ops(r, "q_zip_delay", "append"), "append on q_zip_delay")
    chk.add(rid, "recorded delay", T.subst(zd.args[0], sim) == T.sub(recv, sent), f"recorded communication delay is {T.show(T.subst(zd.args[0], sim))[:160]}, expected recv - sent", chk.loc(fi, zd.node))
    chk.add(rid, "seq carried", tup[0] == "tuple" and tup[1][0] == S("header.seq"), "the queued entry must carry the sender's sequence number", loc)
    # sampled delay comes from the connection's own sampler queue, refilled from its distribution state
    _sampler(chk, rid, r, fi, "conn")
    # message record (push_zip): roles
    key = "conn.push_zip"
    r = view.results[key]
    fi = view.fi(key)
    msg = popped(r, "q_zip_msgs")
    hdr = T.mk_index(msg, T.const(1))
    ap = one(queue_ops(r, "q_msgs", "append"), "append on q_msgs")
    tup = T.subst(ap.args[0], sim)
    dl = [e for e in queue_ops(r, "q_zip_delay", "popleft") if T.subst(e.guard, sim) != T.FALSE]
    ok = tup[0] == "tuple" and len(tup[1]) == 2 and tup[1][0][0] == "obj" and tup[1][0][1] == "MessageRecord" and len(dl) == 1
    if ok:
        rec = dict(tup[1][0][2])
        dterm = dl[0].term
        want = {"seq_out": T.mk_attr(hdr, "seq"), "ts_sent": T.mk_attr(hdr, "ts"), "ts_recv": T.add(T.mk_attr(hdr, "ts"), dterm), "delay": dterm, "seq_in": T.NONE}
        for f, w in want.items():
            chk.add(rid, f"MessageRecord.{f}", rec.get(f) == w, f"MessageRecord.{f} = {T.show(rec.get(f, T.NONE))[:160]}, expected {T.show(w)[:160]}", chk.loc(fi, ap.node))
        chk.add(rid, "message payload paired with its record", tup[1][1] == T.mk_index(msg, T.const(0)), "q_msgs must pair the record with the payload popped together with its header", chk.loc(fi, ap.node))
    else:
        chk.unknown(rid, "MessageRecord", f"q_msgs.append gets {T.show(tup)[:200]}", chk.loc(fi, ap.node))


def _sampler(chk, rid, r, fi, what):
    ref = [e for e in r.events if e.kind == "call" and e.name == "self._jit_sample"]
    ext = queue_ops(r, "q_sample", "extend")
    pops = queue_ops(r, "q_sample", "popleft")
    ok = len(ref) == 1 and len(ext) == 1 and len(pops) == 1
    if ok:
        empty = T.eq(T.mk_call("len", [S("self.q_sample")]), T.ZERO, numeric=True)
        ok = ref[0].args == (S("self._dist_state"),) and flow.implies(ref[0].guard, empty) and ext[0].idx < pops[0].idx and flow.implies(ext[0].guard, empty)
        ok = ok and mentions(ext[0].args[0], "_jit_sample") and T.mk_index(ref[0].term, T.const(1)) in set(T.walk(ext[0].args[0]))
        ds = [e for e in r.events if e.kind == "store_attr" and e.name == "self._dist_state"]
        ok = ok and len(ds) == 1 and ds[0].term == T.mk_index(ref[0].term, T.const(0))
    chk.add(rid, f"{what} sampler", ok, "delays must be popped from q_sample, refilled (only when empty) from self._jit_sample(self._dist_state), with _dist_state advanced to the returned state", chk.loc(fi))


def rule_counter(chk: Check, view: AsyncView, rid: str):
    chk.rule(rid, "gap-free counters (A2): the node's step number and the connection's seq_in start at 0 and are read once and incremented "
                  "by exactly 1 per consumed tick / selection; the messages of a selection are stamped with that seq_in")
    # node tick
    r = view.results["node.push_scheduled_ts"]
    fi = view.fi("node.push_scheduled_ts")
    ap = one(queue_ops(r, "q_ts_scheduled", "append"), "append on q_ts_scheduled")
    new = T.assume(r.attr("self", "_tick"), ap.guard)
    chk.add(rid, "node tick +1 per token", new == T.add(S("self._tick"), T.ONE) and ap.args[0][1][0] == S("self._tick"),
            f"node tick becomes {T.show(new)[:100]} and the queued tick is {T.show(ap.args[0][1][0])[:80]}", chk.loc(fi))
    stores = [e for e in r.events if e.kind == "store_attr" and e.name == "self._tick"]
    chk.add(rid, "node tick written once", len(stores) == 1 and not stores[0].loops, f"{len(stores)} writes to the node tick per call", chk.loc(fi))
    toks = queue_ops(r, "q_tick", "popleft")
    chk.add(rid, "one token per tick", len(toks) == 1 and not toks[0].loops and flow.equivalent(toks[0].guard, ap.guard), "exactly one token must be consumed per scheduled tick", chk.loc(fi))
    # connection seq_in
    key = "conn.push_selection"
    r = view.results[key]
    fi = view.fi(key)
    sel = one(queue_ops(r, "q_expected_select", "popleft"), "popleft on q_expected_select")
    new = T.assume(r.attr("self", "_tick"), sel.guard)
    chk.add(rid, "seq_in +1 per selection", new == T.add(S("self._tick"), T.ONE), f"connection tick becomes {T.show(new)[:100]}, expected self._tick + 1", chk.loc(fi))
    stores = [e for e in r.events if e.kind == "store_attr" and e.name == "self._tick"]
    chk.add(rid, "seq_in written once", len(stores) == 1 and not stores[0].loops and flow.equivalent(stores[0].guard, sel.guard), f"{len(stores)} writes to the connection tick per selection", chk.loc(fi))
    recs = [e for e in r.events if e.kind == "call" and e.name == "self._record_messages.append"]
    pops = queue_ops(r, "q_msgs", "popleft")
    ok = len(recs) == 1 and len(pops) == 1 and recs[0].loops == pops[0].loops and bool(pops[0].loops)
    if ok:
        rec = recs[0].args[0]
        popped = T.mk_index(pops[0].term, T.const(0))
        ok = rec == T.mk_replace(popped, (("seq_in", S("self._tick")),))
        if not ok and rec[0] == "obj" and rec[1] == "MessageRecord":
            # the stamped copy built field by field: seq_in = the tick, every other field taken from the popped record
            f_ = dict(rec[2])
            ci_ = view.model.find_class("MessageRecord")
            names_ = view.model.dataclass_fields(ci_) if ci_ is not None else []
            ok = bool(names_) and set(f_) == set(names_) and f_.get("seq_in") == S("self._tick") and all(f_[k] == T.mk_attr(popped, k) for k in names_ if k != "seq_in")
        n = T.mk_index(sel.term, T.const(1))
        ok = ok and r.loops[pops[0].loops[-1]].iter == T.mk_call("range", [n])
    chk.add(rid, "messages stamped with seq_in and recorded", ok, "each of the num_msgs popped messages must be recorded with seq_in = the pre-increment connection tick", chk.loc(fi))
    rule_message_record(chk, view, rid)
    for k, attr in (("node._reset", "_tick"), ("conn.reset", "_tick")):
        v = view.results[k].attr("self", attr)
        chk.add(rid, f"{k}: counter starts at 0", T.const_value(T.assume(v, _end_guard(view, k))) == 0, f"{k} sets {attr} = {T.show(v)[:80]}", chk.loc(view.fi(k)))


def rule_message_record(chk: Check, view: AsyncView, rid: str):
    """No consumed message is missing from the record (shared by C03: loss-free, and C13: truncation only drops later rows):
    every popped message is appended to the message record - the step bound max_records counts steps, not messages - and
    get_record hands on everything its step filter keeps."""
    r = view.results["conn.push_selection"]
    fi = view.fi("conn.push_selection")
    recs = [e for e in r.events if e.kind == "call" and e.name == "self._record_messages.append"]
    pops = queue_ops(r, "q_msgs", "popleft")
    ok = len(recs) == 1 and len(pops) == 1 and flow.equivalent(recs[0].guard, pops[0].guard)
    chk.add(rid, "every selected message is recorded", ok, f"the message record is appended under {T.show(recs[0].guard)[:160] if recs else None}, the messages are taken under "
            f"{T.show(pops[0].guard)[:120] if pops else None}: a consumed message missing from the record makes recorded steps refer to unknown messages", chk.loc(fi, recs[0].node if recs else None))
    gr = view.results["conn.get_record"]
    fg = view.fi("conn.get_record")
    flt = [e for e in gr.events if e.kind == "call" and e.name == "filter"]
    sts = [e for e in gr.events if e.kind == "store_attr" and e.name == "self._record"]
    ok = len(flt) == 1 and len(sts) == 1 and sts[0].term[0] == "replace" and "messages" in dict(sts[0].term[2])
    if ok:
        msgs = dict(sts[0].term[2])["messages"]
        kept = {flt[0].term, T.mk_call("list", [flt[0].term]), T.mk_call("tuple", [flt[0].term])}
        stars = [x[1] for x in T.walk(msgs) if x[0] == "star"]
        ok = len(stars) == 1 and stars[0] in kept
    chk.add(rid, "get_record keeps every message of the recorded steps", bool(ok), "the stacked message record must be built from everything the seq_in <= last recorded step filter keeps "
            "(a cap by max_records cuts messages of recorded steps: several messages can belong to one step)", chk.loc(fg))


def _end_guard(view, key):
    r = view.results[key]
    fq = view.fi(key).qualname
    fin = [e for e in r.events if e.kind == "store_attr" and e.name == "self._state" and e.func == fq]
    return fin[-1].guard if fin else T.TRUE


def rule_window(chk: Check, view: AsyncView, rid: str):
    chk.rule(rid, "window = most recent consumed messages, oldest first (A5/A9): the group handed to the step is the tail slice [-window:] "
                  "of the selection in arrival order with fields (seq_out, ts_sent, ts_recv, payload); push_step pushes every element in "
                  "order through the loop-carried input state; InputState.push rolls by -1 and stores at -1; the record keeps a message "
                  "iff its seq_in <= the last recorded step")
    model = view.model
    key = "conn.push_selection"
    r = view.results[key]
    fi = view.fi(key)
    ap = one(queue_ops(r, "q_grouped", "append"), "append on q_grouped")
    g = ap.args[0]
    ok = g[0] == "slice" and g[2] == T.neg(S("self.connection.window")) and g[3] is None and g[4] is None and g[1][0] in ("accum", "comp")
    chk.add(rid, "tail slice", ok, f"q_grouped gets {T.show(g)[:200]}, expected grouped[-self.connection.window:]", chk.loc(fi, ap.node))
    if ok:
        acc = g[1]
        pops = queue_ops(r, "q_msgs", "popleft")
        p = pops[0].term if pops else T.NONE
        rec = T.mk_replace(T.mk_index(p, T.const(0)), (("seq_in", S("self._tick")),))
        want = ("tuple", (T.mk_attr(rec, "seq_out"), T.mk_attr(rec, "ts_sent"), T.mk_attr(rec, "ts_recv"), T.mk_index(p, T.const(1))))
        if acc[0] == "comp":  # one entry per popped message, in pop order, nothing filtered
            elt = acc[2]
            ok = acc[1] == "list" and elt == want and not acc[4] and len(acc[3]) == 1 and bool(pops) and bool(pops[0].loops) and acc[3][0][1] == r.loops[pops[0].loops[-1]].iter
        else:
            elt = acc[2][0][2] if acc[2] else None
            ok = acc[1] == ("list", ()) and len(acc[2]) == 1 and elt == want and acc[2][0][4] == "append" and acc[2][0][3] == pops[0].loops
        chk.add(rid, "group layout", ok, f"group entries are {T.show(elt)[:240] if elt else None}, expected (seq_out, ts_sent, ts_recv, payload) of each popped message in order",
                chk.loc(fi, ap.node))
    # push_step: every element pushed in order through the carried input state
    key = "node.push_step"
    r = view.results[key]
    fi = view.fi(key)
    gp = one(queue_ops(r, "q_grouped", "popleft"), "popleft on q_grouped")
    inner = [(lid, l) for lid, l in r.loops.items() if l.kind == "for" and l.iter == gp.term]
    if len(inner) != 1:
        chk.violation(rid, "push_step iterates the whole group", f"push_step must iterate over the popped group itself; found {len(inner)} such loop(s)", chk.loc(fi))
    else:
        lid, l = inner[0]
        el = ("elem", l.iter, lid)
        carried = [(n, v) for n, v in l.env_out.items() if n in l.env_in and v != l.env_in[n]]
        ok = len(carried) == 1
        if ok:
            n, v = carried[0]
            ok = v[0] == "call" and T.call_name(v).endswith("._jit_update_input_state") and v[2] in ((l.env_in[n],) + tuple(T.mk_index(el, T.const(i)) for i in range(4)), (l.env_in[n], ("star", el)))  # (entry unpacked, or passed on as *entry)
            conn_obj = T.mk_index(("elem", T.mk_call("self.inputs.items", []), gp.loops[-1]), T.const(1)) if gp.loops else None
            pre = l.pre.get(n)
            name_t = T.mk_index(("elem", T.mk_call("self.inputs.items", []), gp.loops[-1]), T.const(0)) if gp.loops else None
            ok = ok and pre == T.mk_index(S("self._step_state.inputs"), name_t)
        chk.add(rid, "push_step folds the group into the input state", ok, "each group element (seq, ts_sent, ts_recv, msg) must be pushed, in order, into the input state carried from "
                "self._step_state.inputs[input_name]", chk.loc(fi, l.node))
        st = [e for e in r.events if e.kind == "store_sub" and carried and e.term == S(f"loopout{lid}:{carried[0][0]}")]
        ok = len(st) == 1 and carried and st[0].term == S(f"loopout{lid}:{carried[0][0]}")
        chk.add(rid, "push_step hands the folded state to the step", ok, "inputs[input_name] must be the input state after all pushes", chk.loc(fi))
    # update_input_state and InputState.push
    f2 = model.func("asynchronous.update_input_state")
    ev = SymEval(model)
    ret = ev.run_function(f2).ret
    ok = ret == T.mk_call("input_state.push", [S("seq"), S("ts_sent"), S("ts_recv"), S("data")])
    chk.add(rid, "update_input_state", ok, f"update_input_state returns {T.show(ret)[:160]}, expected input_state.push(seq, ts_sent, ts_recv, data)", chk.loc(f2))
    warm = view.results["conn.warmup"]
    jit = warm.attr("self", "_jit_update_input_state")
    cl = warm.ev.closures.get(jit[1]) if jit[0] == "closure" else None
    ok = cl is not None and cl.kind == "wrap" and cl.inner == S("rex.asynchronous.update_input_state")
    chk.add(rid, "_jit_update_input_state", ok, "the connection's _jit_update_input_state must be jax.jit(update_input_state)", chk.loc(view.fi("conn.warmup")))
    for cls, fields in (("InputState", ["seq", "ts_sent", "ts_recv", "data"]), ("Window", ["seq", "ts_sent", "ts_recv"])):
        fp = model.func(f"base.{cls}.push")
        ev = SymEval(model, inline=("_shift",))
        ret = ev.run_function(fp).ret
        params = [a.arg for a in fp.node.args.args[1:]]
        chk.add(rid, f"{cls}.push parameters", params == fields, f"{cls}.push takes {params}, expected {fields}", chk.loc(fp))
        ok = ret[0] == "obj" and ret[1] == cls
        if ok:
            got = dict(ret[2])
            for f in fields:
                cur = S(f"self.{f}")
                rolled = T.mk_call("jax.numpy.roll", [cur, T.const(-1)], [("axis", T.ZERO)])
                shift = T.mk_call(T.mk_attr(T.mk_index(T.mk_attr(rolled, "at"), T.const(-1)), "set"), [S(f)])
                if cls == "InputState":
                    single = T.mk_call(T.mk_attr(T.mk_index(T.mk_attr(cur, "at"), T.ZERO), "set"), [S(f)])
                    want = T.mk_ite(T.lt(T.ONE, T.mk_index(S("self.seq.shape"), T.ZERO)), shift, single)
                else:
                    want = shift
                chk.add(rid, f"{cls}.push.{f}", got.get(f) == want, f"{cls}.push gives {f} = {T.show(got.get(f, T.NONE))[:200]}, expected roll(self.{f}, -1) with the new value stored at index -1"
                        + (" (index 0 for size 1)" if cls == "InputState" else ""), chk.loc(fp))
            if cls == "InputState":
                chk.add(rid, "InputState.push keeps delay_dist", got.get("delay_dist") == S("self.delay_dist"), "push must carry the connection's delay distribution unchanged", chk.loc(fp))
        else:
            chk.unknown(rid, f"{cls}.push", f"push returns {T.show(ret)[:160]}", chk.loc(fp))
    # record filter
    gr = view.results["conn.get_record"]
    fi = view.fi("conn.get_record")
    flt = [e for e in gr.events if e.kind == "call" and e.name == "filter"]
    ok = False
    detail = "get_record no longer filters the recorded messages"
    if len(flt) == 1 and flt[0].args and flt[0].args[0][0] == "closure" and flt[0].args[1] == S("self._record_messages"):
        x = S("x")
        n0 = len(gr.ev.events)
        pred = gr.ev.invoke(flt[0].args[0], [x], gr.frame)
        try:
            got = order.table(pred, order.pair_cases(T.mk_attr(x, "seq_in"), S("last_seq_in")))
            want = {("lt",): True, ("eq",): True, ("gt",): False}
            ok = got == want
            detail = f"record filter table (seq_in vs last recorded step) is {order.show_table(got)}, expected lt/eq kept, gt dropped"
        except order.NotComparisonOnly as e:
            detail = f"record filter is not comparison-only: {e}"
    chk.add(rid, "record filter", ok, detail, chk.loc(fi))
    nr = view.results["node.get_record"]
    calls = [e for e in nr.events if e.kind == "call" and e.name.endswith(".get_record") and e.loops]
    ok = len(calls) == 1 and calls[0].args and mentions(calls[0].args[0], "seq")
    if ok:
        a = calls[0].args[0]
        ok = a == T.mk_ite(T.lt(T.ZERO, T.mk_call("len", [S("self._record.steps.seq")])), T.mk_index(S("self._record.steps.seq"), T.const(-1)), T.const(-1)) or mentions(a, "steps")
    chk.add(rid, "record filter bound", ok, "the node must pass its last recorded step number (or -1) to each input's get_record", chk.loc(view.fi("node.get_record")))


def rule_overlap(chk: Check, view: AsyncView, rid: str):
    chk.rule(rid, "non-overlap (A7): ts_start is a max that contains ts_end_prev, and the ts_end_prev queued for the next step is this "
                  "step's ts_start + delay (simulated clock)")
    from ..asyncrt import CLOCK
    r = view.results["node.push_phase_shift"]
    fi = view.fi("node.push_phase_shift")
    E = popped(r, "q_ts_end_prev")
    ap = one(queue_ops(r, "q_ts_start", "append"), "append on q_ts_start")
    start = ap.args[0][1][1]
    conds = {x[1] for x in T.walk(start) if x[0] == "ite"}
    leaves = [start]
    for c in conds:
        leaves = [T.assume(x, c, v) for x in leaves for v in (True, False)]
    ok = all((E in set(x[1])) if x[0] == "max" else x == E for x in leaves)
    chk.add(rid, "ts_start >= ts_end_prev", ok, f"ts_start = {T.show(start)[:240]} is not bounded below by the end of the previous step in every configuration", chk.loc(fi, ap.node))
    sim = {CLOCK: SIMULATED}
    ep = one(queue_ops(r, "q_ts_end_prev", "append"), "append on q_ts_end_prev")
    d = popped(r, "q_sample")
    chk.add(rid, "next ts_end_prev", T.subst(ep.args[0], sim) == T.add(start, d), "the next step's ts_end_prev must be this step's ts_start + sampled delay", chk.loc(fi, ep.node))
    _sampler(chk, rid, r, fi, "node")
    # the step time the non-blocking selectors work with is the step's actual (recorded) start, not its nominal schedule: a message that
    # arrives between the two must still be taken by this step
    nxt = [e for e in queue_ops(r, "q_ts_next_step", "append")]
    chk.floor("C03.tie", "next-step announcements to non-blocking inputs", len(nxt), 1)
    # ... and is told only once that time has come (after the throttle and the step hand-off): with the wall clock the selector decides at
    # once, so an earlier announcement closes the selection before the messages that arrive up to the step's start are in
    waits = [x for x in r.events if x.kind == "call" and x.name in ("self.throttle", "self.push_step") and x.func == fi.qualname]
    chk.add("C03.tie", "non-blocking selector is told the start time after the node has waited for it", len(waits) >= 2 and bool(nxt) and all(w.idx < e.idx for w in waits for e in nxt),
            "q_ts_next_step.append for the non-blocking inputs must follow self.throttle(ts_start) and self.push_step() in push_phase_shift", chk.loc(fi, nxt[0].node if nxt else None))
    for e in nxt:
        ok = e.args and e.args[0] == ("tuple", (ap.args[0][1][0], start)) and flow.implies(e.guard, T.mk_not(_blocking_of(e)))
        chk.add("C03.tie", "non-blocking selector is given the step's actual start time", bool(ok), f"q_ts_next_step gets {T.show(e.args[0])[:160] if e.args else None}, expected (tick, ts_start) as queued "
                "in q_ts_start, on the non-blocking inputs", chk.loc(fi, e.node))


def _blocking_of(e):
    """<input>.connection.blocking for the input whose queue the event writes"""
    q = e.recv
    base = q[1] if q[0] == "attr" else S(q[1].rsplit(".", 1)[0]) if q[0] == "sym" else q
    return T.mk_attr(T.mk_attr(base, "connection"), "blocking")


def run(chk: Check, model):
    view = AsyncView(model)
    for k in ("conn.push_expected_nonblocking", "conn.push_expected_blocking", "conn.push_ts_input", "conn.push_zip", "conn.push_selection",
              "node.push_step", "node.push_scheduled_ts", "node.push_phase_shift", "conn.get_record", "node.get_record", "conn.push_input"):
        chk.used(view.fi(k).qualname)
    rule_tie(chk, view, "C03.tie")
    rule_tiling(chk, view, "C03.tiling")
    rule_fifo(chk, view, "C03.fifo")
    rule_counter(chk, view, "C03.counter")
    # every group handed to a step comes out of push_selection (which stamps seq_in and advances the counter), every queue has its one
    # producer / consumer pair: nothing can overtake or bypass the selection
    rule_handoff_topology(chk, view, "C03.counter")
    # the phase used for the expected arrival of a buffered message is the connection's own phase
    rcr = view.results["conn.reset"]
    ph = T.assume(rcr.attr("self", "_phase"), _end_guard(view, "conn.reset"))
    chk.add("C03.tie", "BUFFER expected arrival uses the connection's phase", ph == S("self.connection.phase"), f"conn.reset stores self._phase = {T.show(ph)[:100]}, expected float(self.connection.phase) "
            "(sender phase + its delays; the receiving node's phase is the maximum over all its inputs)", chk.loc(view.fi("conn.reset")))
    rule_overlap(chk, view, "C03.overlap")
    rule_window(chk, view, "C03.window")
    rule_eps_filter(chk, view, "C03.eps")
