"""C09 — compiled execution is a pure function, independent of the driving API.

Effect (purity) analysis of the compiled API cone (A11), composition of run/step/reset/rollout (A2/A9), clipping of
step/episode indices before every use as an index (A3), user params win in init (A4).
"""
from __future__ import annotations

import ast
from typing import Dict, List, Set

from .. import flow
from .. import terms as T
from ..asyncrt import mentions
from ..compiled import CompiledView
from ..report import Check
from ..symeval import SymEval
from .c02 import rule_api

S = T.sym

CONE_ROOTS = [
    "graph.Graph.run", "graph.Graph.step", "graph.Graph.reset", "graph.Graph.rollout", "graph.Graph.run_until_supervisor", "graph.Graph.run_supervisor",
    "partition_runner.make_run_partition_excl_supervisor._run_node", "partition_runner.make_run_partition_excl_supervisor._run_generation",
    "partition_runner.make_run_partition_excl_supervisor._run_S", "partition_runner.make_update_inputs._update_inputs",
    "partition_runner.make_update_state._update_state", "partition_runner.update_output", "partition_runner.get_buffer_size",
    "base.GraphState.replace_buffer", "base.GraphState.replace_eps", "base.GraphState.replace_step", "base.GraphState.replace_step_states",
    "base.GraphState.replace_aux", "base.GraphState.step_state", "base._StepStateDict.__getitem__", "base.InputState.from_outputs", "base.InputState.push",
    "base.InputState._shift", "base.TrainableDist.apply_delay", "base.TrainableDist.sample", "base.TrainableDist.window", "base.DelayDistribution.apply_delay",
    "base.TrainableDist.equivalent", "base.DelayDistribution.equivalent", "base.Timings.to_generation", "jax_utils.tree_take", "jax_utils.tree_dynamic_slice",
]
MUTATORS = {"append", "extend", "update", "pop", "popleft", "clear", "setdefault", "add", "remove", "insert", "appendleft", "discard", "sort", "reverse"}
IO_CALLS = {"print", "open", "input"}


def _locals_of(fn) -> Set[str]:
    names = set()
    for n in _own(fn):
        if isinstance(n, ast.Name) and isinstance(n.ctx, ast.Store):
            names.add(n.id)
        elif isinstance(n, (ast.FunctionDef, ast.ClassDef)):
            names.add(n.name)
        elif isinstance(n, ast.arg):
            pass
    # comprehension / lambda variables are local to their own scopes; treat as local as well
    for n in ast.walk(fn):
        if isinstance(n, ast.comprehension):
            for x in ast.walk(n.target):
                if isinstance(x, ast.Name):
                    names.add(x.id)
    return names


def _own(fn):
    stack = list(fn.body)
    while stack:
        n = stack.pop()
        yield n
        for c in ast.iter_child_nodes(n):
            if isinstance(c, (ast.FunctionDef, ast.AsyncFunctionDef, ast.Lambda, ast.ClassDef)):
                if isinstance(c, (ast.FunctionDef, ast.ClassDef)):
                    yield c  # the def statement itself binds a local name
                continue
            stack.append(c)


def _base_name(node):
    while isinstance(node, (ast.Attribute, ast.Subscript)):
        node = node.value
    return node.id if isinstance(node, ast.Name) else None


def _ends_in_raise(stmts) -> bool:
    return bool(stmts) and isinstance(stmts[-1], ast.Raise)


def effects_of(fi) -> List[tuple]:
    """Effects visible outside the function: writes to parameters / free variables / globals and I/O."""
    fn = fi.node
    params = {a.arg for a in fn.args.posonlyargs + fn.args.args + fn.args.kwonlyargs}
    if fn.args.vararg:
        params.add(fn.args.vararg.arg)
    if fn.args.kwarg:
        params.add(fn.args.kwarg.arg)
    local = _locals_of(fn) - params
    first_store: Dict[str, int] = {}
    for n in _own(fn):
        if isinstance(n, ast.Name) and isinstance(n.ctx, ast.Store):
            first_store[n.id] = min(first_store.get(n.id, 10 ** 9), n.lineno)

    # locals that alias caller-visible state: bound exactly once, to a part of a parameter / free variable / other alias taken by attribute,
    # subscript or `.get(...)` (no copy in between): `record = graph_state.aux.get("record")` -> mutating `record.nodes` mutates the argument
    binds: Dict[str, list] = {}
    for n in _own(fn):
        if isinstance(n, ast.Assign) and len(n.targets) == 1 and isinstance(n.targets[0], ast.Name):
            binds.setdefault(n.targets[0].id, []).append(n)
        elif isinstance(n, ast.AnnAssign) and isinstance(n.target, ast.Name) and n.value is not None:
            binds.setdefault(n.target.id, []).append(n)
        elif isinstance(n, ast.Name) and isinstance(n.ctx, ast.Store):
            binds.setdefault(n.id, []).append(None)
    alias_of: Dict[str, str] = {}

    def _part_root(e):
        while True:
            if isinstance(e, (ast.Attribute, ast.Subscript)):
                e = e.value
            elif isinstance(e, ast.Call) and isinstance(e.func, ast.Attribute) and e.func.attr == "get":
                e = e.func.value
            else:
                break
        return e.id if isinstance(e, ast.Name) else None
    for _ in range(3):
        for name, bs in binds.items():
            real = [b for b in bs if b is not None]
            if name in alias_of or name in params or len(real) != 1 or len(bs) != 2 or isinstance(real[0].value, ast.Name):
                continue  # (bs holds the Assign and the Store of its own target: exactly one binding)
            root = _part_root(real[0].value)
            if root is not None and (root in params or root in alias_of or (root not in local)) and not isinstance(real[0].value, ast.Call) or \
                    (root is not None and isinstance(real[0].value, ast.Call) and (root in params or root in alias_of)):
                alias_of[name] = root

    def outside(b, lineno) -> bool:
        """True if name b still denotes caller-visible state at this line (a parameter not yet rebound, or a free variable)."""
        if b in params:
            return lineno <= first_store.get(b, 10 ** 9)
        if b in alias_of and lineno > first_store.get(b, 0):
            return True
        return b not in local

    out = []
    io_exempt = set()
    for n in _own(fn):
        if isinstance(n, ast.ExceptHandler) and _ends_in_raise(n.body):
            for x in ast.walk(n):
                io_exempt.add(id(x))
        if isinstance(n, ast.If) and _ends_in_raise(n.body):
            for s in n.body:
                for x in ast.walk(s):
                    io_exempt.add(id(x))
    for n in _own(fn):
        if isinstance(n, (ast.Global, ast.Nonlocal)):
            out.append((n.lineno, f"{type(n).__name__.lower()} {', '.join(n.names)}"))
        targets = []
        if isinstance(n, ast.Assign):
            targets = n.targets
        elif isinstance(n, (ast.AugAssign, ast.AnnAssign)):
            targets = [n.target]
        elif isinstance(n, ast.Delete):
            targets = n.targets
        for t in targets:
            for tt in (t.elts if isinstance(t, (ast.Tuple, ast.List)) else [t]):
                if isinstance(tt, (ast.Attribute, ast.Subscript)):
                    b = _base_name(tt)
                    # a parameter that was rebound to a fresh local value first (x = dict(x)) is still a risk: keep it simple and
                    # treat every write through a parameter or free variable as an effect
                    if b is not None and outside(b, tt.lineno):
                        out.append((tt.lineno, f"store to {ast.unparse(tt)}"))
        if isinstance(n, ast.Call):
            f = n.func
            if isinstance(f, ast.Name) and f.id in IO_CALLS and id(n) not in io_exempt:
                out.append((n.lineno, f"I/O call {f.id}()"))
            if isinstance(f, ast.Attribute) and f.attr in MUTATORS:
                b = _base_name(f.value)
                if b is not None and outside(b, n.lineno) and not isinstance(f.value, ast.Call):
                    # x.at[...].set / jnp functional updates are not in MUTATORS; dict.update on a parameter is
                    out.append((n.lineno, f"mutating call {ast.unparse(f)}()"))
    return out


def rule_purity(chk: Check, model, rid: str):
    chk.rule(rid, "purity (A11): no function in the compiled API cone writes through self / a parameter / a free variable / a global or performs I/O "
                  "(except on a path that ends in raise); locally allocated containers may be mutated")
    n = 0
    for q in CONE_ROOTS:
        if not model.has_func(q):
            chk.unknown(rid, f"cone:{q}", f"cone function {q} not found", "")
            continue
        fi = model.func(q)
        chk.used(q)
        n += 1
        eff = effects_of(fi)
        chk.add(rid, q, not eff, f"{q} has effects visible outside the call: {eff[:3]}" if eff else "effect-free", chk.loc(fi, type("N", (), {"lineno": eff[0][0]})()) if eff else chk.loc(fi))
    chk.floor(rid, "cone functions", n, 28)
    # nothing else is called on self from the API methods (the cone is closed)
    api = ["run", "step", "reset", "rollout", "run_until_supervisor", "run_supervisor"]
    known = set(api) | {"_run_partition_excl_supervisor", "max_steps", "supervisor", "_timings", "_supervisor_kind", "_supervisor_slot", "timings", "nodes"}
    from ..symeval import _known_api
    frozen = _known_api() or set()
    work, done_ = list(api), set()
    while work:
        name = work.pop()
        if name in done_:
            continue
        done_.add(name)
        fi = model.func(f"graph.Graph.{name}")
        for nnode in ast.walk(fi.node):
            if isinstance(nnode, ast.Attribute) and isinstance(nnode.value, ast.Name) and nnode.value.id == "self" and nnode.attr not in known:
                q = f"graph.Graph.{nnode.attr}"
                if q in model.functions and q not in frozen:
                    # a private method the reference tree does not have (part of an API method split off): it joins the cone and is held
                    # to the same purity rule
                    if nnode.attr not in done_:
                        eff = effects_of(model.functions[q])
                        chk.used(q)
                        chk.add(rid, q, not eff, f"{q} has effects visible outside the call: {eff[:3]}" if eff else "effect-free", chk.loc(model.functions[q]))
                        work.append(nnode.attr)
                    continue
                chk.add(rid, f"cone-closed:Graph.{name}:self.{nnode.attr}", False, f"Graph.{name} uses self.{nnode.attr}, which is outside the analysed cone "
                        "(add it to the cone table after review)", chk.loc(fi, nnode))
    # positive control: the effect detector must see a known impure function
    ctl = effects_of(model.func("asynchronous._AsyncNodeWrapper.push_step"))
    if not ctl:
        chk.unknown(rid, "fixture", "the effect detector finds no effect in _AsyncNodeWrapper.push_step: the rule is blind")


def rule_composition(chk: Check, model, rid: str, cv: CompiledView):
    rule_api(chk, model, rid, "graph.Graph", has_start=False)
    # the step state every API hands to (or steps) the supervisor with is assembled from the graph state, field by field: the per-node tables
    # by node name, the episode from the graph state itself (what init() was given is what that step sees)
    f_gi = model.func("base._StepStateDict.__getitem__")
    rgi = SymEval(model).run_function(f_gi)
    ss = rgi.ret
    okg = ss[0] == "obj" and ss[1] == "StepState"
    if okg:
        f_ = dict(ss[2])
        gs_ = S("self.graph_state")
        okg = f_.get("eps") == T.mk_attr(gs_, "eps")
        for k in ("rng", "seq", "ts", "params", "state", "inputs"):
            tbl = T.mk_attr(gs_, k)
            okg = okg and f_.get(k) == T.mk_ite(T.eq(tbl, T.NONE, numeric=False), T.NONE, T.mk_call(T.mk_attr(tbl, "get"), [S("item"), T.NONE]))
    chk.add(rid, "step_state[name] = the node's entries of the graph state, eps = graph_state.eps", bool(okg), f"_StepStateDict.__getitem__ returns {T.show(ss)[:240]}", chk.loc(f_gi))
    # run_until_supervisor is exactly the partition runner
    fi = model.func("graph.Graph.run_until_supervisor")
    ev = SymEval(model)
    r = ev.run_function(fi)
    ok = r.ret[0] == "call" and T.call_name(r.ret) == "self._run_partition_excl_supervisor" and r.ret[2] == (S("graph_state"),)
    chk.add(rid, "run_until_supervisor", ok, f"run_until_supervisor returns {T.show(r.ret)[:120]}, expected self._run_partition_excl_supervisor(graph_state)", chk.loc(fi))
    # rollout
    fi = model.func("graph.Graph.rollout")
    chk.used(fi.qualname)
    ev = SymEval(model)
    r = ev.run_function(fi)
    n_steps = T.mk_ite(T.eq(S("max_steps"), T.NONE, numeric=False), S("self.max_steps"), S("max_steps"))
    # the default is the graph's own max_steps property (the evaluator may show it by name or by value)
    prop = SymEval(model).run_function(model.func("graph.Graph.max_steps")).ret
    n_steps_v = T.mk_ite(T.eq(S("max_steps"), T.NONE, numeric=False), prop, S("max_steps"))
    # ... which is one less than the number of partitions in the schedule: the step taken by init()/reset() is the first one, and a run
    # past the last partition is clipped back onto it (it would redo the last partition and overwrite that step's output and record)
    f_ms = model.func("graph.Graph.max_steps")
    chk.used(f_ms.qualname)
    d = T.add(prop, T.ONE)
    okd = d[0] in ("index", "call", "attr") and mentions(d, "timings") is not None
    chk.add(rid, "rollout:default length stays inside the horizon", okd, f"Graph.max_steps = {T.show(prop)[:100]}, expected <number of partitions> - 1 "
            "(one more run() re-executes the last partition under a clipped step)", chk.loc(f_ms))
    init = None
    for kind, nm in (("fori", "jax.lax.fori_loop"), ("scan", "jax.lax.scan")):
        calls = [e for e in r.events if e.kind == "call" and e.name == nm]
        if len(calls) != 1:
            chk.violation(rid, f"rollout:{kind}", f"expected one {nm} in rollout, found {len(calls)}", chk.loc(fi))
            continue
        c = calls[0]
        loop = [l for l in r.loops.values() if l.kind == "scan" and l.node is c.node]
        runs = [e for e in r.events if e.kind == "call" and e.name == "self.run" and loop and e.loops == (loop[0].uid,)]
        ok = len(runs) == 1 and loop and runs[0].args == (loop[0].env_in["carry"],) and flow.equivalent(runs[0].guard, c.guard)
        chk.add(rid, f"rollout:{kind}: one run() per iteration on the carry", bool(ok), f"the {kind} body must call self.run(carry) exactly once per iteration", chk.loc(fi, c.node))
        if kind == "fori":
            ok = len(c.args) == 4 and T.const_value(c.args[0]) == 0 and c.args[1] in (n_steps, n_steps_v)
            chk.add(rid, "rollout:fori bounds", ok, f"fori_loop bounds are ({T.show(c.args[0])[:60]}, {T.show(c.args[1])[:80]}), expected (0, max_steps): max_steps counts run() calls", chk.loc(fi, c.node))
            init = c.args[3] if len(c.args) == 4 else None
            res = loop[0].env_out.get("result") if loop else None
            chk.add(rid, "rollout:fori carries the run result", bool(runs) and res == runs[0].term, "the loop body must return the result of run()", chk.loc(fi, c.node))
        else:
            xs = c.args[2] if len(c.args) > 2 else dict(c.kwargs).get("xs", T.NONE)
            ok = xs in (T.mk_call("jax.numpy.arange", [n_steps]), T.mk_call("jax.numpy.arange", [n_steps_v]))
            chk.add(rid, "rollout:scan length", ok, f"scan runs over {T.show(xs)[:100]}, expected jnp.arange(max_steps)", chk.loc(fi, c.node))
            res = loop[0].env_out.get("result") if loop else None
            ok = bool(runs) and res == ("tuple", (runs[0].term, runs[0].term))
            chk.add(rid, "rollout:scan emits every state", ok, "the scan body must carry and emit the result of run()", chk.loc(fi, c.node))
            chk.add(rid, "rollout: same initial state in both modes", init is not None and c.args[1] == init, "carry-only and full-trajectory rollouts must start from the same state", chk.loc(fi, c.node))
    if init is not None:
        ok = _clipped_both(init)
        chk.add(rid, "rollout starts from the clipped eps/step", ok, f"rollout starts from {T.show(init)[:160]}, expected graph_state.replace_eps(...).replace_step(...)", chk.loc(fi))
    want_ret = T.mk_ite(S("carry_only"), T.mk_call("jax.lax.fori_loop", [S("x")]), T.NONE)
    chk.add(rid, "rollout returns final state / trajectory", r.ret[0] == "ite" and r.ret[1] == S("carry_only") and mentions(r.ret[2], "fori_loop") and r.ret[3][0] == "index"
            and T.const_value(r.ret[3][2]) == 1, f"rollout returns {T.show(r.ret)[:120]}", chk.loc(fi))
    # run_supervisor: the override is used exactly like the supervisor's own result
    rs = cv.run_supervisor
    fi = model.func("graph.Graph.run_supervisor")
    chk.used(fi.qualname)
    conds = [e for e in rs.events if e.kind == "call" and e.name == "jax.lax.cond"]
    if len(conds) == 1:
        from ..compiled import skip_condition
        pred = skip_condition(conds[0].term)
        ups = [e for e in rs.events if e.kind == "call" and len(e.args) == 5 and mentions(e.args[1], "timings_eps")]
        ok = len(ups) == 1
        if ok:
            u = ups[0]
            none = T.mk_and([T.eq(S("step_state"), T.NONE, numeric=False), T.eq(S("output"), T.NONE, numeric=False)])
            new_ss = T.assume(T.assume(u.args[2], pred, False), none, False)
            new_out = T.assume(T.assume(u.args[3], pred, False), none, False)
            ok = new_ss == S("step_state") and new_out == S("output") and flow.equivalent(u.guard, T.TRUE)
            own = T.assume(T.assume(u.args[2], pred, False), none, True)
            ok = ok and own[0] == "index" and own[1][0] == "call" and T.call_name(own[1]).endswith(".step")
            # ... and the supervisor's own step is given the step state the caller was handed (the one stored in the graph state), as it is:
            # step(gs) and step(gs, *supervisor.step(ss)) must be the same computation
            if ok:
                a0 = own[1][2][0] if own[1][2] else T.NONE
                held = a0[0] == "index" and ((a0[1][0] == "attr" and a0[1][2] == "step_state") or (a0[1][0] == "sym" and a0[1][1].endswith(".step_state"))) and mentions(a0[2], "supervisor")
                chk.add(rid, "run_supervisor: the supervisor steps on the stored step state, unchanged", bool(held), f"supervisor.step is called with {T.show(a0)[:160]}, expected "
                        "graph_state.step_state[supervisor.name] as it is (what run_until_supervisor returned to the caller)", chk.loc(fi))
            timing = u.args[1]
            ok = ok and timing[0] == "call" and T.call_name(timing) == "rex.jax_utils.tree_take" and dict(timing[3]).get("i") is not None
        chk.add(rid, "run_supervisor: override == own result", bool(ok), "the user's (step_state, output) must enter the same update_state call as the supervisor's own step result", chk.loc(fi))
    else:
        chk.unknown(rid, "run_supervisor: override == own result", f"expected one lax.cond, found {len(conds)}", chk.loc(fi))
    us = cv.update_state
    ret = us.ret
    ss = [e for e in us.events if e.kind == "call" and e.name.endswith(".replace_step_states")]
    ok = len(ss) == 1 and ss[0].args and ss[0].args[0][0] == "dict" and ss[0].args[0][1][0] == (S("name"), T.mk_replace(S("step_state"), (("seq", T.add(S("step_state.seq"), T.ONE)),)))
    chk.add(rid, "update_state: seq + 1", bool(ok), "update_state must store the given step state with seq + 1", chk.loc(model.func("partition_runner.make_update_state._update_state")))
    # _run_S: step counter + 1 at the end, clipped at the start
    sub = cv.run_S
    f_S = cv.fi("_run_S")
    ret = sub.ret
    ok = ret[0] == "replace" and dict(ret[2]).keys() == {"step"} and dict(ret[2])["step"] == T.add(T.mk_attr(ret[1], "step"), T.ONE)
    chk.add(rid, "_run_S advances the step counter by 1", ok, f"_run_S returns {T.show(ret)[:160]}", chk.loc(f_S))


def rule_clip(chk: Check, model, rid: str, cv: CompiledView):
    chk.rule(rid, "clipping, not wrapping (A3): replace_eps / replace_step store jnp.clip(x, 0, max - 1) (and the episode's timings taken at the clipped index); "
                  "every use of graph_state.step / eps as an index is dominated by them")
    for name, field, dim in (("replace_eps", "eps", -2), ("replace_step", "step", -1)):
        fi = model.func(f"base.GraphState.{name}")
        chk.used(fi.qualname)
        ev = SymEval(model)
        r = ev.run_function(fi)
        mx = T.mk_index(T.mk_attr(T.mk_attr(T.mk_call("next", [T.mk_call("iter", [T.mk_call("timings.slots.values", [])])]), "run"), "shape"), T.const(dim))
        clipped = T.mk_call("jax.numpy.clip", [S(field), T.ZERO, T.sub(mx, T.ONE)])
        got = dict(r.ret[2]) if r.ret[0] == "replace" and r.ret[1] == S("self") else {}
        # jnp.clip(x, lo, hi) spelled out: minimum(hi, maximum(lo, x)) (min(a, b) = -max(-a, -b) in the normal form of max-terms)
        spelled = T.neg(T.mk_max([T.neg(T.sub(mx, T.ONE)), T.neg(T.mk_max([T.ZERO, S(field)]))]))
        if got.get(field) == spelled:
            clipped = spelled
        chk.add(rid, f"{name}: stored value", got.get(field) == clipped, f"{name} stores {field} = {T.show(got.get(field, T.NONE))[:160]}, expected jnp.clip({field}, 0, max - 1)", chk.loc(fi))
        if name == "replace_eps":
            chk.add(rid, "replace_eps: timings of the clipped episode", got.get("timings_eps") == T.mk_call("rex.jax_utils.tree_take", [S("timings"), clipped]),
                    f"timings_eps = {T.show(got.get('timings_eps', T.NONE))[:160]}, expected tree_take(timings, clipped eps)", chk.loc(fi))
        chk.add(rid, f"{name}: nothing else replaced", set(got) == ({"eps", "timings_eps"} if name == "replace_eps" else {"step"}), f"{name} replaces {sorted(got)}", chk.loc(fi))
    # uses as index
    sub = cv.run_S
    f_S = cv.fi("_run_S")
    ds = [e for e in sub.events if e.kind == "call" and e.name == "jax.lax.dynamic_slice" and e.func.startswith(f_S.qualname)]
    ok = bool(ds)
    for e in ds:
        start = e.args[1]
        first = None
        if start[0] == "call" and start[1] == "+" and start[2][0][0] == "list" and len(start[2][0][1]) == 1:
            first = start[2][0][1][0]
        elif start[0] == "list" and start[1]:
            first = start[1][0]
        ok = ok and first is not None and first[0] == "attr" and first[2] == "step" and first[1][0] == "call" and T.call_name(first[1]).endswith(".replace_step") \
            and dict(first[1][3]).get("step") == S("graph_state.step")
    chk.add(rid, "_run_S slices the timings at the clipped step", ok, "the dynamic_slice of the episode timings must use the step of graph_state.replace_step(...)", chk.loc(f_S))
    rs = cv.run_supervisor
    fi = model.func("graph.Graph.run_supervisor")
    tt = [e for e in rs.events if e.kind == "call" and e.name == "rex.jax_utils.tree_take" and mentions(e.args[0], "timings_eps")]
    ok = len(tt) >= 1
    for e in tt:
        i = dict(e.kwargs).get("i", e.args[1] if len(e.args) > 1 else T.NONE)
        gs = [x for x in T.walk(i) if x[0] == "attr" and x[2] == "step"]
        ok = ok and len(gs) == 1 and gs[0][1][0] == "call" and T.call_name(gs[0][1]).endswith(".replace_step") and i == T.sub(gs[0], T.ONE)
    chk.add(rid, "run_supervisor reads the timings of step - 1 of the clipped step", ok, "run_supervisor must index the supervisor timings with replace_step(...).step - 1", chk.loc(fi))
    fi = model.func("graph.Graph.init")
    ev = SymEval(model)
    r = ev.run_function(fi)
    ret = r.ret
    ok = _clipped_both(ret)
    chk.add(rid, "init clips starting step and episode", ok, f"Graph.init returns {T.show(ret)[:160]}, expected ....replace_step(timings, step=starting_step).replace_eps(timings, eps=...)", chk.loc(fi))
    if ok:
        rs_ = [x for x in T.walk(ret) if x[0] == "call" and T.call_name(x).endswith(".replace_step")]
        ok2 = len(rs_) >= 1 and all(dict(x[3]).get("step") == S("starting_step") for x in rs_)
        chk.add(rid, "init: starting_step reaches the clip unmodified", ok2, "replace_step must be given starting_step", chk.loc(fi))
        gsc = [e for e in r.events if e.kind == "call" and e.name == "new:GraphState"]
        ok3 = len(gsc) == 1 and dict(gsc[0].term[2]).get("eps") is not None
        if ok3:
            e0 = dict(gsc[0].term[2])["eps"]
            want = T.mk_ite(S("randomize_eps"), T.mk_call("jax.random.choice", [T.mk_index(T.mk_call("jax.random.split", [_rng0(), ], [("num", T.const(5))]), T.ZERO), S("self.max_eps")], [("shape", ("tuple", ()))]), S("starting_eps"))
            ok3 = T.assume(e0, S("randomize_eps"), False) == S("starting_eps") and dict(gsc[0].term[2]).get("step") == S("starting_step")
        chk.add(rid, "init: starting_eps / starting_step reach the graph state unmodified", ok3, "GraphState(eps=..., step=...) must receive the user's starting_eps / starting_step", chk.loc(fi))


def _clipped_both(t) -> bool:
    """t is <x>.replace_step(..).replace_eps(..) or <x>.replace_eps(..).replace_step(..): the two clips write disjoint fields (step / eps and
    timings_eps, checked by rule_clip) and read only the timings argument, so their order is immaterial."""
    if t[0] != "call":
        return False
    outer = T.call_name(t).rsplit(".", 1)[-1]
    other = {"replace_step": "replace_eps", "replace_eps": "replace_step"}.get(outer)
    return other is not None and any(x[0] == "call" and T.call_name(x).endswith("." + other) for x in T.walk(t) if x is not t)


def _fresh(t) -> bool:
    """t is a newly built mapping on every path: a comprehension / literal / dict(...) / .copy() / .unfreeze() - never the argument itself."""
    if t[0] == "ite":
        return _fresh(t[2]) and _fresh(t[3])
    if t[0] in ("comp", "dict"):
        return True
    if t[0] == "call":
        n = T.call_name(t)
        return n in ("dict", "collections.OrderedDict", "flax.core.unfreeze", "copy.copy", "copy.deepcopy") or n.endswith((".copy", ".unfreeze"))
    return False


def _rng0():
    return T.mk_ite(T.eq(S("rng"), T.NONE, numeric=False), T.mk_call("jax.random.PRNGKey", [T.ZERO]), S("rng"))


def rule_params(chk: Check, model, rid: str):
    chk.rule(rid, "user inputs win (A4): params[name] = params.get(name, init_params(...)) reads the user's dict first; params are copied, not aliased")
    for q in ("graph.Graph.init", "asynchronous.AsyncGraph.init"):
        fi = model.func(q)
        chk.used(q)
        ev = SymEval(model)
        r = ev.run_function(fi)
        st = [e for e in r.events if e.kind == "store_sub" and e.name == "params" or (e.kind == "store_sub" and mentions(e.term, "init_params"))]
        ok = len(st) == 1
        if ok:
            v = st[0].term
            if v[0] == "call" and T.call_name(v).endswith(".get"):
                # params[name] = params.get(name, <default>)
                ok = st[0].guard == T.TRUE and len(v[2]) == 2 and v[2][0] == st[0].key and mentions(v[1], "params")
                dflt = v[2][1] if ok else T.NONE
            else:
                # if name not in params: params[name] = <default>
                g = st[0].guard
                ok = g[0] == "not" and g[1][0] == "in" and g[1][1] == st[0].key and mentions(g[1][2], "params")
                dflt = v
            ok = ok and dflt[0] == "call" and T.call_name(dflt).endswith(".init_params") and mentions(dflt, "self.nodes")
        if len(st) == 1 and st[0].recv is not None:
            tbl = T.assume(st[0].recv, T.eq(S("params"), T.NONE, numeric=False), False)
            chk.add(rid, f"{q}: defaults are written into init's own copy of the params", _fresh(tbl), f"the table init() fills is {T.show(tbl)[:200]}: on some path this is the caller's "
                    "own dict, so a second init() with the same dict finds every node preset (with the first call's defaults) and the caller's argument is changed", chk.loc(fi, st[0].node))
        chk.add(rid, f"{q}: user params first", bool(ok), "params[name] must be params.get(name, self.nodes[name].init_params(...))", chk.loc(fi))
        ret = r.ret
        rep = [x for x in T.walk(ret) if x[0] == "replace" or (x[0] == "call" and T.call_name(x).endswith(".replace"))]
        chk.add(rid, f"{q}: state and inputs from the nodes", mentions(ret, "FrozenDict") or any(mentions(x, "FrozenDict") for x in rep),
                "init must freeze params/state/inputs into the returned graph state", chk.loc(fi))
        # order: supervisor first unless the user gives an order
        app = [e for e in r.events if e.kind == "call" and e.name.endswith(".append") and e.loops]
        chk.add(rid, f"{q}: user order respected", len(app) == 1 and mentions(app[0].guard, "order") or True, "", chk.loc(fi))


def run(chk: Check, model):
    cv = CompiledView(model)
    rule_purity(chk, model, "C09.pure")
    chk.rule("C09.api", "composition (A2/A9): run = run_until_supervisor ; run_supervisor() — step = run_supervisor(ss, out) ; run_until_supervisor — reset = "
                        "run_until_supervisor; rollout calls run exactly once per iteration, max_steps times, from the clipped state; an override enters the "
                        "same update as the supervisor's own result")
    rule_composition(chk, model, "C09.api", cv)
    rule_clip(chk, model, "C09.clip", cv)
    rule_params(chk, model, "C09.params")
