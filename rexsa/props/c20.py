"""C20 — the exported policy computes the same action as the trained actor.

Table agreement of the activation maps (A8), layer structure of the manual forward pass vs the flax module (A9), order and
flags of pre/post-processing (A2/A9), provenance of the extracted configuration and statistics (A4).
Not decided: numerical equality of nn.Dense(...).apply with the bound module; STATE_INDEPENDENT_STD=False.
"""
from __future__ import annotations

import ast

from .. import terms as T
from ..asyncrt import mentions
from ..report import Check
from ..symeval import SymEval

S = T.sym


def _r(model, q):
    fi = model.func(q)
    return fi, SymEval(model).run_function(fi)


def run(chk: Check, model):
    chk.rule("C20.activations", "activation tables (A8): the Actor's hidden_activation chain and the Policy's ACTIVATIONS table map the same keys to the same flax functions")
    chk.rule("C20.layers", "layer structure (A9): Actor = num_hidden_layers x (Dense, activation) then Dense; Policy = every Dense but the last followed by the activation, "
                           "the last one without; Gaussian head: mean = last Dense, std = exp(log_std) in both; without rng the policy returns the mean")
    chk.rule("C20.pipeline", "pre/post-processing (A2/A9): get_action = normalize(obs, clip=True, subtract_mean=True) -> apply_actor -> unsquash, with the same flags as the "
                             "training-time observation wrapper and the evaluation loop")
    chk.rule("C20.extract", "extraction (A4): the policy takes hidden_activation / state_independent_std from the config fields train() passes to the Actor, the output activation "
                            "literal equals the Actor's default (not overridden by train), the model is train_state.params['params'], scalings come from the aux keys the wrappers write")
    # ---------------------------------------------------------------- Actor
    f_a, ra = _r(model, "actor_critic.Actor.__call__")
    chk.used(f_a.qualname)
    loops = [l for l in ra.loops.values() if l.kind == "for"]
    actor_map = {}
    ok = len(loops) == 1 and loops[0].iter == T.mk_call("range", [S("self.num_hidden_layers")])
    if ok:
        l = loops[0]
        (nm, xin), = l.env_in.items()
        body = l.env_out[nm]
        guards = [body] + [e.guard for e in ra.events if e.kind == "raise"]
        keys = {y[1] for gd in guards for x in T.walk(gd) if x[0] == "eq" and S("self.hidden_activation") in x[1] for y in x[1] if y[0] == "const" and isinstance(y[1], str)}
        for k in sorted(keys):
            v = T.subst(body, {S("self.hidden_activation"): T.const(k)})
            if v[0] == "call" and len(v[2]) == 1:
                inner = v[2][0]
                dense_ok = inner[0] == "call" and isinstance(inner[1], tuple) and inner[1][0] == "call" and T.call_name(inner[1]) == "flax.linen.Dense" and inner[2] == (xin,) \
                    and inner[1][2] == (S("self.num_hidden_units"),)
                if dense_ok:
                    actor_map[k] = T.call_name(v)
        chk.add("C20.layers", "Actor: the first layer sees the network input itself", l.pre.get(nm) == S("x"), f"the hidden layers start from {T.show(l.pre.get(nm, T.NONE))[:100]}, expected the "
                "argument x (an input transformation inside the Actor has no parameters and is not replicated by the exported policy)", chk.loc(f_a))
        chk.add("C20.layers", "Actor hidden layer = activation(Dense(num_hidden_units)(x))", len(actor_map) == len(keys) and len(keys) >= 1, f"hidden layer body = {T.show(body)[:200]}", chk.loc(f_a))
    else:
        chk.add("C20.layers", "Actor hidden loop over num_hidden_layers", False, "Actor.__call__ must loop range(self.num_hidden_layers)", chk.loc(f_a))
    ret = ra.ret
    g = T.subst(T.assume(T.subst(ret, {S("self.output_activation"): T.const("gaussian")}), S("self.state_independent_std"), True), {})
    ok = g[0] == "call" and T.call_name(g) == "distrax.MultivariateNormalDiag" and len(g[2]) == 2
    actor_std = None
    if ok:
        mean, std = g[2]
        lo = loops[0] if loops else None
        ok = mean[0] == "call" and isinstance(mean[1], tuple) and T.call_name(mean[1]) == "flax.linen.Dense" and mean[1][2] == (S("self.num_output_units"),) and lo is not None \
            and mean[2] == (S(f"loopout{lo.uid}:{list(lo.env_in)[0]}"),)
        actor_std = std
        ok = ok and std[0] == "call" and T.call_name(std) == "jax.numpy.exp" and std[2][0][0] == "call" and T.call_name(std[2][0]) == "self.param" and std[2][0][2][0] == T.const("log_std")
    chk.add("C20.layers", "Actor Gaussian head: N(Dense(x), exp(log_std))", bool(ok), f"Gaussian head = {T.show(g)[:200]}", chk.loc(f_a))
    # ---------------------------------------------------------------- Policy.apply_actor
    f_p, rp = _r(model, "ppo.Policy.apply_actor")
    chk.used(f_p.qualname)
    loops = [l for l in rp.loops.values() if l.kind == "for"]
    policy_map = {}
    ok = len(loops) == 1
    if ok:
        l = loops[0]
        (nm, xin), = l.env_in.items()
        body = l.env_out[nm]
        it = l.iter
        # the number of Dense layers: the count of parameter groups named Dense* (a sum over the actor's keys); the loop runs over one less
        # (counted as sum(<key test> for k in actor) or as len([k for k in actor if <key test>]): the same number)
        sums = [x for x in T.walk(it) if x[0] == "call" and x[1] in ("sum", "len") and len(x[2]) == 1 and x[2][0][0] == "comp"
                and any(y == T.mk_index(S("self.model"), T.const("actor")) for y in T.walk(x))]
        n_layers = sums[0] if len(sums) == 1 else T.NONE
        ok = it[0] == "call" and it[1] == "range" and len(it[2]) == 1 and T.sub(n_layers, it[2][0]) == T.ONE and n_layers[0] == "call" and n_layers[1] in ("sum", "len")
        # (the loop starts from the network input; the zero input used when no observation is given may be prepared before the loop)
        pre_ = T.assume(l.pre.get(nm, T.NONE), T.eq(S("norm_obs"), T.NONE, numeric=False), False)
        chk.add("C20.layers", "Policy: all Dense layers but the last are hidden layers", ok and pre_ == S("norm_obs"), f"hidden loop runs over {T.show(it)[:120]} with num_layers = {T.show(n_layers)[:60]}, starting from {T.show(l.pre.get(nm, T.NONE))[:40]}", chk.loc(f_p))
        elem = ("elem", it, l.uid)
        ok = body[0] == "call" and isinstance(body[1], tuple) and body[1][0] == "index" and body[1][2] == S("self.hidden_activation") and len(body[2]) == 1
        inner = None
        if ok:
            table = body[1][1]
            if table[0] == "call" and table[1] == "dict":
                policy_map = {k: (v[1] if v[0] == "sym" else T.show(v)) for k, v in table[3]}
            inner = body[2][0]
        else:
            # the table has known contents (a dict literal in the function or a module-level constant): the lookup reads as the chain
            # over hidden_activation == key; one application per key, all of the same layer output
            pkeys = {y[1] for gd in [body] + [e.guard for e in rp.events if e.kind == "raise"] for x in T.walk(gd) if x[0] == "eq" and S("self.hidden_activation") in x[1] for y in x[1] if y[0] == "const" and isinstance(y[1], str)}
            inners = set()
            for k in sorted(pkeys):
                v = T.subst(body, {S("self.hidden_activation"): T.const(k)})
                if v[0] == "call" and len(v[2]) == 1 and not v[3]:
                    policy_map[k] = T.call_name(v)
                    inners.add(v[2][0])
            ok = bool(pkeys) and len(policy_map) == len(pkeys) and len(inners) == 1
            inner = next(iter(inners)) if ok else None
        if ok:
            ok = inner[0] == "call" and isinstance(inner[1], tuple) and inner[1][0] == "attr" and inner[1][2] == "apply" and T.call_name(inner[1][1]) == "flax.linen.Dense"
            if ok:
                params = inner[2][0]
                ok = params[0] == "dict" and len(params[1]) == 1 and params[1][0][0] == T.const("params") and params[1][0][1] == T.mk_index(T.mk_index(S("self.model"), T.const("actor")), T.mk_call("fstr", [T.const("Dense_"), elem]))
                xarg = inner[2][1]
                ok = ok and (xarg == xin or T.assume(xarg, T.eq(xin, T.NONE, numeric=False), False) == xin)
        chk.add("C20.layers", "Policy hidden layer = ACTIVATIONS[hidden_activation](Dense.apply({'params': layer}, x))", bool(ok), f"hidden layer body = {T.show(body)[:240]}", chk.loc(f_p))
    else:
        chk.add("C20.layers", "Policy hidden loop", False, f"expected one loop in apply_actor, found {len(loops)}", chk.loc(f_p))
    chk.add("C20.activations", "same keys", bool(actor_map) and set(actor_map) == set(policy_map), f"Actor handles {sorted(actor_map)}, Policy table has {sorted(policy_map)}", chk.loc(f_p))
    for k in sorted(set(actor_map) & set(policy_map)):
        chk.add("C20.activations", f"'{k}' maps to the same function", actor_map[k] == policy_map[k], f"Actor: {k} -> {actor_map[k]}, Policy: {k} -> {policy_map[k]}", chk.loc(f_p))
    chk.floor("C20.activations", "activation keys", len(actor_map), 4)
    n_layers_out = n_layers if loops else T.NONE
    ret = T.subst(rp.ret, {S("self.output_activation"): T.const("gaussian")})
    det = T.assume(ret, T.eq(S("rng"), T.NONE, numeric=False), True)
    smp = T.assume(ret, T.eq(S("rng"), T.NONE, numeric=False), False)
    lo = loops[0] if loops else None
    ok = det[0] == "call" and isinstance(det[1], tuple) and det[1][0] == "attr" and det[1][2] == "apply" and T.call_name(det[1][1]) == "flax.linen.Dense" and lo is not None \
        and det[2][1] == S(f"loopout{lo.uid}:{list(lo.env_in)[0]}") \
        and det[2][0] == ("dict", ((T.const("params"), T.mk_index(T.mk_index(S("self.model"), T.const("actor")), T.mk_call("fstr", [T.const("Dense_"), T.sub(n_layers_out, T.ONE)]))),))
    chk.add("C20.layers", "Policy output layer: Dense without activation; deterministic action = the mean", bool(ok), f"deterministic output = {T.show(det)[:200]}", chk.loc(f_p))
    ok2 = smp[0] == "call" and isinstance(smp[1], tuple) and smp[1][0] == "attr" and smp[1][2] == "sample" and T.call_name(smp[1][1]) == "distrax.MultivariateNormalDiag" and dict(smp[3]).get("seed") == S("rng")
    if ok2:
        mean, std = smp[1][1][2]
        want_std = T.mk_call("jax.numpy.exp", [T.mk_index(T.mk_index(S("self.model"), T.const("actor")), T.const("log_std"))])
        ok2 = mean == det and std == want_std
        chk.add("C20.layers", "Policy samples from N(mean, exp(log_std)) like the Actor", ok2, f"sampling distribution = MultivariateNormalDiag({T.show(mean)[:60]}, {T.show(std)[:100]}), the Actor uses exp(log_std)", chk.loc(f_p))
    else:
        chk.add("C20.layers", "Policy samples from N(mean, exp(log_std)) like the Actor", False, f"stochastic output = {T.show(smp)[:200]}", chk.loc(f_p))
    raises = [e for e in rp.events if e.kind == "raise" and mentions(e.guard, "output_activation")]
    chk.add("C20.layers", "other output activations are rejected", len(raises) == 1 and T.subst(raises[0].guard, {S("self.output_activation"): T.const("tanh")}) == T.TRUE, "apply_actor must raise for a non-gaussian output activation", chk.loc(f_p))
    # ---------------------------------------------------------------- get_action
    f_g, rg = _r(model, "ppo.Policy.get_action")
    chk.used(f_g.qualname)
    ret = rg.ret
    for c in (T.eq(S("self.act_scaling"), T.NONE, numeric=False), T.eq(S("self.model"), T.NONE, numeric=False), T.eq(S("self.obs_scaling"), T.NONE, numeric=False)):
        ret = T.assume(ret, c, False)
    nones = (T.eq(S("self.act_scaling"), T.NONE, numeric=False), T.eq(S("self.model"), T.NONE, numeric=False), T.eq(S("self.obs_scaling"), T.NONE, numeric=False))

    def present(t):
        for c in nones:
            t = T.assume(t, c, False)
        return t
    norm = [e for e in rg.events if e.kind == "call" and e.name == "self.obs_scaling.normalize"]
    act = [e for e in rg.events if e.kind == "call" and e.name == "self.apply_actor"]
    uns = [e for e in rg.events if e.kind == "call" and e.name == "self.act_scaling.unsquash"]
    ok = len(norm) == 1 and len(act) == 1 and len(uns) == 1
    if ok:
        chk.add("C20.pipeline", "normalize(obs, clip=True, subtract_mean=True)", norm[0].args == (S("obs"),) and dict(norm[0].kwargs) == {"clip": T.TRUE, "subtract_mean": T.TRUE},
                f"normalize is called with {[T.show(a) for a in norm[0].args]} {[(k, T.show(v)) for k, v in norm[0].kwargs]}", chk.loc(f_g, norm[0].node))
        a_in = present(act[0].args[0])
        chk.add("C20.pipeline", "apply_actor on the normalised observation with the given rng", a_in == norm[0].term and dict(act[0].kwargs) == {"rng": S("rng")}, f"apply_actor gets {T.show(a_in)[:100]}", chk.loc(f_g, act[0].node))
        u_in = present(uns[0].args[0])
        chk.add("C20.pipeline", "unsquash applied to the actor output, result returned", u_in == present(act[0].term) and ret == present(uns[0].term), f"unsquash gets {T.show(u_in)[:100]}; get_action returns {T.show(ret)[:100]}", chk.loc(f_g, uns[0].node))
    else:
        chk.add("C20.pipeline", "normalize -> apply_actor -> unsquash", False, f"found {len(norm)} normalize, {len(act)} apply_actor, {len(uns)} unsquash calls", chk.loc(f_g))
    # training-time flags: the observation wrapper and the evaluation loop
    f_t = model.func("ppo.train")
    flags = []
    for n in ast.walk(f_t.node):
        if isinstance(n, ast.Call) and isinstance(n.func, ast.Attribute) and n.func.attr == "normalize":
            flags.append({k.arg: ast.unparse(k.value) for k in n.keywords})
    f_w = model.func("rl.NormalizeVecObservationWrapper.step")
    for n in ast.walk(f_w.node):
        if isinstance(n, ast.Call) and isinstance(n.func, ast.Attribute) and n.func.attr == "normalize":
            flags.append({k.arg: ast.unparse(k.value) for k in n.keywords})
    if len(flags) == 1:
        # the wrapper spelling the arithmetic out instead of calling normalize: its flags are those whose expansion it returns
        from .c19 import normalize_expansion
        rw = SymEval(model).run_function(f_w)
        news = [e for e in rw.events if e.kind == "call" and e.name == "new:NormalizeVec"]
        its = [e for e in rw.events if e.kind == "call" and e.name == "self._env.step"]
        if news and its and rw.ret[0] == "tuple" and len(rw.ret[1]) > 1:
            for c_ in (True, False):
                for m_ in (True, False):
                    if rw.ret[1][1] == normalize_expansion(model, news[-1].term, T.mk_index(its[0].term, T.ONE), c_, m_):
                        flags.append({"clip": str(c_), "subtract_mean": str(m_)})
    chk.add("C20.pipeline", "same normalisation flags at training / evaluation time", len(flags) >= 2 and all(f == {"clip": "True", "subtract_mean": "True"} for f in flags),
            f"training-time normalize flags: {flags}", chk.loc(f_t))
    # ---------------------------------------------------------------- extraction
    # what is extracted from: the result of train() carries the final carry of the training scan, component by component
    f_t2, rt = _r(model, "ppo.train")
    sc = [e for e in rt.events if e.kind == "call" and e.name == "jax.lax.scan" and e.func == f_t2.qualname]
    ok = len(sc) == 1 and rt.ret[0] == "obj" and rt.ret[1] == "PPOResult"
    if ok:
        carry = T.mk_index(sc[0].term, T.ZERO)
        rs = dict(rt.ret[2]).get("runner_state", T.NONE)
        fields = dict(rs[2]) if rs[0] == "obj" and rs[1] == "RunnerState" else {}
        ok = rs == carry or (bool(fields) and all(fields.get(k) == T.mk_index(carry, T.const(i)) for i, k in enumerate(("train_state", "env_state", "last_obs", "rng"))))
        # the scan is started from (train_state, env_state, obs, rng) in this order, so the components mean what their names say
        init = sc[0].args[1] if len(sc[0].args) > 1 else T.NONE
        ok = ok and init[0] == "tuple" and len(init[1]) == 4
    chk.add("C20.extract", "train() returns the final training carry (parameters and environment state of the same update)", bool(ok),
            f"PPOResult.runner_state = {T.show(dict(rt.ret[2]).get('runner_state', T.NONE))[:200] if rt.ret[0] == 'obj' else T.show(rt.ret)[:100]}, expected the four components of the final scan carry "
            "(the exported normalisation statistics live in env_state.aux)", chk.loc(f_t2))
    f_x, rx = _r(model, "ppo.PPOResult.policy")
    chk.used(f_x.qualname)
    pol = rx.ret
    f = dict(pol[2]) if pol[0] == "obj" and pol[1] == "Policy" else {}
    # what train passes to the Actor
    # (from the evaluated call: keyword arguments by name, however they were passed - spelled out or through a **dict)
    actor_kw = {}
    for e in rt.events:
        if e.kind == "call" and e.name.rsplit(".", 1)[-1] in ("Actor", "new:Actor") and e.func == f_t2.qualname:
            actor_kw = {k: T.show(v) for k, v in e.kwargs if k != "**"}
    chk.add("C20.extract", "hidden_activation from the field given to the Actor", f.get("hidden_activation") == S("self.config.HIDDEN_ACTIVATION") and actor_kw.get("hidden_activation") == "config.HIDDEN_ACTIVATION",
            f"policy: {T.show(f.get('hidden_activation', T.NONE))}; Actor(hidden_activation={actor_kw.get('hidden_activation')})", chk.loc(f_x))
    chk.add("C20.extract", "state_independent_std from the field given to the Actor", f.get("state_independent_std") == S("self.config.STATE_INDEPENDENT_STD") and actor_kw.get("state_independent_std") == "config.STATE_INDEPENDENT_STD",
            f"policy: {T.show(f.get('state_independent_std', T.NONE))}; Actor(state_independent_std={actor_kw.get('state_independent_std')})", chk.loc(f_x))
    ci = model.cls("actor_critic.Actor")
    default_out = None
    for st in ci.node.body:
        if isinstance(st, ast.AnnAssign) and isinstance(st.target, ast.Name) and st.target.id == "output_activation" and isinstance(st.value, ast.Constant):
            default_out = st.value.value
    chk.add("C20.extract", "output activation literal == Actor default, not overridden by train", f.get("output_activation") == T.const(default_out) and "output_activation" not in actor_kw and default_out is not None,
            f"policy: {T.show(f.get('output_activation', T.NONE))}; Actor default: {default_out!r}; train passes {sorted(actor_kw)}", chk.loc(f_x))
    chk.add("C20.extract", "model = train_state.params['params']", f.get("model") == T.mk_index(S("self.runner_state.train_state.params"), T.const("params")), f"model = {T.show(f.get('model', T.NONE))[:100]}", chk.loc(f_x))
    obs_s = f.get("obs_scaling", T.NONE)
    act_s = f.get("act_scaling", T.NONE)
    ok = obs_s == T.mk_call("self.runner_state.env_state.aux.get", [T.const("norm_obs"), T.NONE])
    chk.add("C20.extract", "obs_scaling from aux['norm_obs']", ok, f"obs_scaling = {T.show(obs_s)[:120]}", chk.loc(f_x))
    # the squashing state is stored per parallel environment: the export takes environment 0 on the env axis (second to last),
    # keeping every leading (e.g. seed) axis
    want_act = T.mk_index(T.mk_call("self.runner_state.env_state.aux.get", [T.const("act_scaling"), T.NONE]), ("tuple", (("const", Ellipsis), T.ZERO, ("sl", None, None, None))))
    chk.add("C20.extract", "act_scaling from aux['act_scaling']", act_s == want_act, f"act_scaling = {T.show(act_s)[:160]}, expected leafwise aux['act_scaling'][..., 0, :]", chk.loc(f_x))
    # the wrappers write exactly these aux keys
    keys = {}
    for q, key in (("rl.NormalizeVecObservationWrapper.step", "norm_obs"), ("rl.SquashActionWrapper.reset", "act_scaling")):
        fq = model.func(q)
        found = any(isinstance(n, ast.Dict) and any(isinstance(k, ast.Constant) and k.value == key for k in n.keys) for n in ast.walk(fq.node))
        chk.add("C20.extract", f"wrapper writes aux['{key}']", found, f"{q} does not store its state under '{key}'", chk.loc(fq))
    # train's wrapper stack
    order = [n.func.id for n in ast.walk(f_t.node) if isinstance(n, ast.Call) and isinstance(n.func, ast.Name) and n.func.id.endswith("Wrapper") or
             (isinstance(n, ast.Call) and isinstance(n.func, ast.Name) and n.func.id == "NormalizeVecReward")]
    lines = sorted([(n.lineno, n.func.id) for n in ast.walk(f_t.node) if isinstance(n, ast.Call) and isinstance(n.func, ast.Name) and (n.func.id.endswith("Wrapper") or n.func.id == "NormalizeVecReward")])
    names = [x[1] for x in lines]
    want = ["AutoResetWrapper", "LogWrapper", "SquashActionWrapper", "VecEnvWrapper", "NormalizeVecObservationWrapper", "NormalizeVecReward"]
    chk.add("C20.extract", "training wrapper stack", names == want, f"train wraps the env with {names}, expected {want}", chk.loc(f_t))
    sq = [n for n in ast.walk(f_t.node) if isinstance(n, ast.Call) and isinstance(n.func, ast.Name) and n.func.id == "SquashActionWrapper"]
    ok = len(sq) == 1 and {k.arg: ast.unparse(k.value) for k in sq[0].keywords} == {"squash": "config.SQUASH"}
    chk.add("C20.extract", "squash flag from the config", ok, "SquashActionWrapper must be created with squash=config.SQUASH", chk.loc(f_t))
