"""C08 — input windows read exactly the scheduled messages from the output buffers.

Index-map agreement between the one writer of the ring buffers and every reader (A3), the admissibility check
of user-supplied buffer sizes (A6), default-output provenance (A4).  Not decided: the arithmetic of
Timings.get_buffer_sizes ("never overwritten before its last reader").
"""
from __future__ import annotations

import ast

from .. import order
from .. import terms as T
from ..asyncrt import mentions
from ..compiled import CompiledView, input_state_builds, slot_elem
from ..report import AnalysisError, Check
from ..symeval import SymEval

S = T.sym


def _strip_uid(t):
    """get_buffer_size(...) calls carry call-site ids; the index map compares them structurally."""
    if not isinstance(t, tuple):
        return t
    if t and t[0] == "call" and len(t) == 5 and T.call_name(t).endswith("get_buffer_size"):
        return ("call", "get_buffer_size", tuple(_strip_uid(a) for a in t[2]), (), None)
    return tuple(_strip_uid(x) for x in t)


def ring_index(buf: T.Term, seq: T.Term) -> T.Term:
    return T.mk_call("%", [seq, ("call", "get_buffer_size", (buf,), (), None)])


def rule_map(chk: Check, model, cv: CompiledView, rid: str):
    # ---------------------------------------------------------------- writer
    f_uo = model.func("partition_runner.update_output")
    chk.used(f_uo.qualname)
    size_inl = None
    ret = cv.update_output.ret
    ok = ret[0] == "call" and isinstance(ret[1], tuple) and ret[1][0] == "attr" and ret[1][2] == "set" and ret[2] == (S("output"),)
    idx = None
    if ok:
        at = ret[1][1]
        ok = at[0] == "index" and at[1] == T.mk_attr(S("buffer"), "at")
        idx = at[2] if ok else None
        ok = ok and idx[0] == "call" and idx[1] == "%" and idx[2][0] == S("seq")
        size_inl = idx[2][1] if ok else None
    chk.add(rid, "writer: update_output", bool(ok), f"update_output returns {T.show(ret)[:200]}, expected buffer.at[seq % size].set(output)", chk.loc(f_uo))
    # size(buffer) is the leading dimension of the buffer's leaves
    f_sz = model.func("partition_runner.get_buffer_size")
    ev = SymEval(model)
    sz = ev.run_function(f_sz).ret
    leaves = T.mk_index(T.mk_call("jax.tree_util.tree_flatten", [S("buffer")]), T.ZERO)  # (normal form of tree_leaves(buffer))
    want_sz = T.mk_ite(T.lt(T.ZERO, T.mk_call("len", [leaves])), T.mk_index(T.mk_attr(T.mk_index(leaves, T.ZERO), "shape"), T.ZERO), T.ONE)
    chk.add(rid, "size: get_buffer_size", sz == want_sz, f"get_buffer_size returns {T.show(sz)[:200]}, expected leaves[0].shape[0] (1 for an empty tree)", chk.loc(f_sz))
    chk.add(rid, "writer uses get_buffer_size of the same buffer", size_inl is not None and size_inl == sz, "update_output does not take the modulus by get_buffer_size(buffer)", chk.loc(f_uo))

    # ---------------------------------------------------------------- readers
    readers = []

    def collect(sub_events, fi, where):
        for e in sub_events:
            if e.kind == "call" and e.name == "rex.jax_utils.tree_take" and e.args and _is_buffer(e.args[0]):
                readers.append((where, fi, e))

    collect(cv.update_inputs.events, model.func("partition_runner.make_update_inputs._update_inputs"), "_update_inputs")
    collect([e for e in cv.run_generation.events if e.func == cv.fi("_run_generation").qualname], cv.fi("_run_generation"), "_run_generation")
    collect([e for e in cv.run_S.events if e.func == cv.fi("_run_S").qualname], cv.fi("_run_S"), "_run_S")
    f_rs = model.func("graph.Graph.run_supervisor")
    collect(cv.run_supervisor.events, f_rs, "Graph.run_supervisor")
    chk.floor(rid, "reads of an output buffer by sequence number", len(readers), 3)
    # the supervisor's windows are gathered from the rings as they are *after* all generations of the partition have written: the state
    # its reads index is the state its new step state is stored into (the result of the generation loop / scan)
    f_S = cv.fi("_run_S")

    def _leaves(t):
        return _leaves(t[2]) + _leaves(t[3]) if t[0] == "ite" else [t]
    rss = [e for e in cv.run_S.events if e.kind == "call" and e.name.endswith("replace_step_states") and e.func == f_S.qualname]
    sup_reads = [e for e in cv.run_S.events if e.kind == "call" and e.name == "rex.jax_utils.tree_take" and e.args and all(_is_buffer(b) for b in _leaves(e.args[0])) and len(e.loops) == 1
                 and not any(cv.run_S.loops[l_].kind in ("for", "scan") and cv.run_S.loops[l_].iter != T.NONE and mentions(cv.run_S.loops[l_].iter, "timings_gen") for l_ in e.loops if l_ in cv.run_S.loops)]
    oks = len(rss) == 1 and len(sup_reads) >= 1
    if oks:
        post = _leaves(rss[0].recv)
        for e in sup_reads:
            bases = [(b[1][1] if b[1][0] == "attr" else S(b[1][1][:-len(".buffer")])) if b[0] == "index" else None for b in _leaves(e.args[0])]
            oks = oks and bases == post
    chk.add(rid, "reader: the supervisor gathers its windows after the partition's generations have run", bool(oks),
            f"the supervisor's window reads in _run_S use the buffers of {T.show(sup_reads[0].args[0])[:140] if sup_reads else None}; expected the graph state that results from the generation loop / scan "
            "(messages produced in the same partition are in the schedule of the supervisor's window)", chk.loc(f_S, sup_reads[0].node if sup_reads else None))
    for where, fi, e in readers:
        chk.used(fi.qualname)
        buf = e.args[0]
        i = e.args[1] if len(e.args) > 1 else dict(e.kwargs).get("i", T.NONE)
        got = _strip_uid(i)
        mapped = got[0] == "call" and got[1] == "%" and len(got[2]) == 2 and got[2][1] == ("call", "get_buffer_size", (_strip_uid(buf),), (), None)
        if where == "Graph.run_supervisor" and not mapped:
            # exception table: the supervisor's no-op output is only selected when step == 0 (API misuse path: step() before reset())
            conds = [c for c in cv.run_supervisor.events if c.kind == "call" and c.name == "jax.lax.cond"]
            us = [c for c in cv.run_supervisor.events if c.kind == "call" and len(c.args) == 5 and c.args[0] is not None and c.args[3] is not None and mentions(c.args[3], "tree_take")]
            ok = len(conds) == 1
            if ok:
                from ..compiled import skip_condition
                pred = skip_condition(conds[0].term)
                uses = [c for c in cv.run_supervisor.events if c.kind == "call" and any(e.term in set(T.walk(a)) for a in c.args) and c is not e and c.name != "jax.lax.cond"]
                ok = bool(uses) and all(e.term not in set(T.walk(T.assume(a, pred, False))) for c in uses for a in c.args) and mentions(pred, "step")
            chk.add(rid, f"reader: {where} (exception: no-op value under step == 0 only)", ok,
                    "the unmapped read of the supervisor buffer must be reachable only through the cond(step == 0) skip branch", chk.loc(fi, e.node))
            continue
        seqt = got[2][0] if mapped else None
        chk.add(rid, f"reader: {where}", mapped, f"{where} reads {T.show(buf)[:80]} at index {T.show(i)[:160]}, expected <seq> % get_buffer_size(<same buffer>) "
                "like the writer", chk.loc(fi, e.node))
        if mapped and where == "_update_inputs":
            # buffer, window and producer are the same node: graph_state.buffer[c.output_node.name], timings_node.windows[c.output_node.name].seq
            key = buf[2] if buf[0] == "index" else None
            ok = key is not None and seqt == T.mk_attr(T.mk_index(S("timings_node.windows"), key), "seq") and key[0] == "attr" and key[2] == "name" \
                and key[1][0] == "attr" and key[1][2] == "output_node"
            chk.add(rid, "reader: window and buffer belong to the producer", ok, f"buffer key {T.show(key)[:80] if key else None} vs window seq {T.show(seqt)[:120]}", chk.loc(fi, e.node))
        if mapped and where == "_run_generation":
            el = slot_elem(cv.run_generation)
            ok = el is not None and seqt == T.mk_attr(T.mk_index(el, T.ONE), "seq")
            chk.add(rid, "reader: no-op output at the slot's own sequence number", ok, f"no-op read at {T.show(seqt)[:120]}", chk.loc(fi, e.node))
    # the values read become the window payload, in window order, together with that window's seq / ts_sent / ts_recv
    fo = input_state_builds(model, cv.update_inputs.events)
    f_ui = model.func("partition_runner.make_update_inputs._update_inputs")
    if len(fo) == 1 and readers:
        e, b = fo[0]
        rd = [x for w, f, x in readers if w == "_update_inputs"]
        t = None
        if rd:
            buf = rd[0].args[0]
            t = T.mk_index(S("timings_node.windows"), buf[2]) if buf[0] == "index" else None
        ok = t is not None and (b.get("seq"), b.get("ts_sent"), b.get("ts_recv")) == (T.mk_attr(t, "seq"), T.mk_attr(t, "ts_sent"), T.mk_attr(t, "ts_recv")) \
            and b.get("outputs") == rd[0].term and b.get("is_data") == T.TRUE
        chk.add(rid, "window assembled from the mapped reads", ok, f"InputState.from_outputs gets {[(k, T.show(a)[:60]) for k, a in b.items()]}", chk.loc(f_ui, e.node))
    else:
        chk.unknown(rid, "window assembled from the mapped reads", f"expected one InputState.from_outputs call, found {len(fo)}", chk.loc(f_ui))



def run(chk: Check, model):
    chk.rule("C08.map", "index-map agreement (A3): the writer update_output stores at seq % size(buffer); every read of an output buffer by sequence "
                        "number applies the same map with the size of the same buffer; buffer, window and producer refer to the same node")
    chk.rule("C08.writers", "who-may-write: output buffers are written only by update_output via replace_buffer, at the slot's own sequence number")
    chk.rule("C08.sizes", "admissibility (A6): a user buffer size smaller than the computed minimum is rejected; the allocated size is "
                          "max(sizes) + extra_padding (or max(1, extra_padding)); buffers are filled with the producer's init_output")
    cv = CompiledView(model)
    rule_map(chk, model, cv, "C08.map")
    # ---------------------------------------------------------------- writers (A1)
    sites = []
    for mod in ("partition_runner", "graph", "base", "rl", "utils"):
        for q, fi in model.functions.items():
            if fi.module != mod:
                continue
            for n in ast.walk(fi.node):
                if isinstance(n, ast.Call) and isinstance(n.func, (ast.Attribute, ast.Name)):
                    nm = n.func.attr if isinstance(n.func, ast.Attribute) else n.func.id
                    if nm in ("update_output", "replace_buffer"):
                        sites.append((q, nm, n, fi))
    allowed = {("partition_runner.make_run_partition_excl_supervisor._run_node", "update_output"),
               ("partition_runner.make_run_partition_excl_supervisor._run_generation", "update_output"),
               ("partition_runner.make_run_partition_excl_supervisor._run_generation", "replace_buffer"),
               ("partition_runner.make_update_state._update_state", "update_output"),
               ("partition_runner.make_update_state._update_state", "replace_buffer")}
    seen = set()
    for q, nm, n, fi in sites:
        inner = [k for k in allowed if q == k[0] or q.startswith(k[0] + ".")]
        key = next(((k0, k1) for (k0, k1) in allowed if (q == k0 or k0.startswith(q + ".") or q.startswith(k0)) and k1 == nm), None)
        # nested closures are indexed under their own qualname; ast.walk of the enclosing function sees them too
        ok = all(any(k1 == nm and (h == k0 or k0.startswith(h + ".")) for k0, k1 in allowed) for h in model.home_functions(q))
        seen.add((q, nm))
        chk.add("C08.writers", f"{q}:{nm}", ok, f"{nm}() is called in {q}: output buffers may only be written by the partition runner's update functions", chk.loc(fi, n))
    chk.floor("C08.writers", "buffer write sites", len(sites), 5)
    # written at the slot's own sequence number into the stepped node's buffer
    el = slot_elem(cv.run_generation)
    tn = T.mk_index(el, T.ONE) if el else None
    uos = [e for e in cv.run_generation.events if e.kind == "call" and e.name == "rex.partition_runner.update_output" and e.func == cv.fi("_run_generation").qualname]
    ok = len(uos) == 1 and tn is not None and len(uos[0].args) == 3 and uos[0].args[2] == T.mk_attr(tn, "seq")
    if ok:
        st = [e for e in cv.run_generation.events if e.kind == "store_sub" and e.term == uos[0].term]
        ok = len(st) == 1 and st[0].term == uos[0].term and uos[0].args[0] == T.mk_index(_buffer_base(uos[0].args[0]), st[0].key)
    chk.add("C08.writers", "_run_generation writes buffer[kind] at timings_node.seq", bool(ok), "the node's output must be stored into its own buffer at the slot's sequence number",
            chk.loc(cv.fi("_run_generation")))
    f_us = model.func("partition_runner.make_update_state._update_state")
    ret = cv.update_state.ret
    rb = [e for e in cv.update_state.events if e.kind == "call" and e.name == "graph_state.replace_buffer"]
    ok = len(rb) == 1 and rb[0].args and rb[0].args[0][0] == "dict" and len(rb[0].args[0][1]) == 1
    if ok:
        k, v = rb[0].args[0][1][0]
        want = T.subst(cv.update_output.ret, {S("buffer"): T.mk_index(S("graph_state.buffer"), k), S("seq"): S("timing.seq")})
        ok = k == S("name") and v == want
    chk.add("C08.writers", "_update_state writes buffer[name] at timing.seq", bool(ok), "the supervisor's output must be stored into its own buffer at timing.seq via update_output", chk.loc(f_us))

    # write-after-read within a generation: every slot of a generation reads the buffer as it was at generation entry
    sub = cv.run_generation
    f_gen = cv.fi("_run_generation")
    slot_loops = [l for l in sub.loops.values() if l.kind == "for" and l.iter == T.mk_call("timings_gen.items", [])]
    ok = len(slot_loops) >= 1  # (one pass over the generation's slots, or several: none of them may publish)
    carried = []
    if ok:
        carried = [n for l_ in slot_loops for n, v in l_.pre.items() if v == S("graph_state") or mentions(v, "graph_state")]
        rb_in_loop = [e for e in sub.events if e.kind == "call" and e.name.endswith(".replace_buffer") and e.loops and e.func == f_gen.qualname]
        ok = not carried and not rb_in_loop
    chk.add("C08.writers", "_run_generation: outputs published after all slots of the generation have read", ok,
            f"the graph state is updated inside the per-slot loop (carried: {carried}): a producer slot would overwrite a buffer entry that a later slot of the same "
            "generation is still scheduled to read (buffer sizes assume write-after-read per generation)", chk.loc(f_gen))
    rb = [e for e in sub.events if e.kind == "call" and e.name.endswith(".replace_buffer") and e.func == f_gen.qualname]
    chk.add("C08.writers", "_run_generation: one replace_buffer per generation", len(rb) == 1 and not rb[0].loops and rb[0].recv == S("graph_state"),
            f"{len(rb)} replace_buffer call(s) in _run_generation; expected one, after the slot loop, on the generation's input state", chk.loc(f_gen))

    rule_sizes(chk, model, "C08.sizes")
    # a producer slot must have written before a later slot of the same partition reads: slots run in generation order
    from .c07 import rule_exec_order
    rule_exec_order(chk, model, "C08.order", cv)


def rule_sizes(chk: Check, model, rid: str):
    """Ring sizes: minimum per producer aggregated over all readers, admissibility of user sizes, allocation and default content
    (shared with C01: a ring that is too small replays a different payload than the recorded one)."""
    # ---------------------------------------------------------------- sizes
    f_bs = model.func("base.Timings.get_buffer_sizes")
    chk.used(f_bs.qualname)
    evb = SymEval(model)
    rbs = evb.run_function(f_bs)
    ret = rbs.ret
    ok = ret[0] == "comp" and ret[1] == "dict" and ret[2][0] == "tuple" and ret[2][1][1] == ("list", ())
    apps = [e for e in rbs.events if e.kind == "call" and e.name.endswith(".append") and e.recv == ("list", ()) and len(e.loops) == 2]
    ok = ok and len(apps) == 1
    if ok:
        a = apps[0].args[0]
        if a[0] == "index" and a[1][0] == "index":
            # the requirement looked up in a table filled by an earlier pass over the same (consumer, input) pairs: what that pass stored
            def _anon(t):
                return tuple(_anon(x) for x in t) if isinstance(t, tuple) and not (t and t[0] == "elem") else (("elem", _anon(t[1]), 0) if isinstance(t, tuple) else t)
            its = [_anon(rbs.loops[l].iter) for l in apps[0].loops]
            firsts = [e for e in rbs.events if e.kind == "store_sub" and e.idx < apps[0].idx and len(e.loops) == 2 and [_anon(rbs.loops[l].iter) for l in e.loops] == its
                      and e.key is not None and _anon(e.key) == _anon(a[2]) and e.term[0] == "num"]
            if len(firsts) == 1:
                a = firsts[0].term
        # max_s = s.max() + 1
        ok = a[0] == "num" and T.const_value(T.sub(a, T.ONE)) is None and any(x[0] == "call" and T.call_name(x).endswith(".max") for x in T.walk(a)) \
            and T.sub(a, T.ONE)[0] == "call"
        # the list appended to is the returned dict's entry of the producer (AST: <ret>[<producer var>].append(...)), no other mutation of that dict
        rets = [n for n in ast.walk(f_bs.node) if isinstance(n, ast.Return) and isinstance(n.value, ast.Name)]
        nm = rets[0].value.id if rets else None
        node = apps[0].node
        ok = ok and nm is not None and isinstance(node.func.value, ast.Subscript) and isinstance(node.func.value.value, ast.Name) and node.func.value.value.id == nm
        others = [n for n in ast.walk(f_bs.node) if (isinstance(n, ast.Call) and isinstance(n.func, ast.Attribute) and isinstance(n.func.value, ast.Name)
                                                     and n.func.value.id == nm and n.func.attr in ("update", "pop", "clear", "setdefault"))
                  or (isinstance(n, ast.Subscript) and isinstance(n.ctx, ast.Store) and isinstance(n.value, ast.Name) and n.value.id == nm)]
        ok = ok and not others
    chk.add(rid, "minimum sizes aggregate over every reader of a producer", bool(ok), "get_buffer_sizes must append each (consumer, input) requirement s.max() + 1 to the "
            "producer's list (the allocated size is the max over all of them); a replaced entry forgets the other consumers", chk.loc(f_bs))
    # the spread a ring must cover: newest sequence number written so far minus the oldest one any scheduled window still names -
    # the oldest over all slots of the generation *and all window entries* (axes 2 and 4 of the whole windows array; a single
    # window entry, e.g. the newest, ignores the older entries and the extension for trainable delays)
    mins = [e for e in rbs.events if e.kind == "call" and e.name.endswith(".seq.min") and e.recv is not None]
    maxs = [e for e in rbs.events if e.kind == "call" and e.name.endswith(".seq.max") and e.recv is not None and not e.loops[2:]]

    def _axes(e):
        ax = dict(e.kwargs).get("axis", e.args[0] if e.args else T.NONE)
        vals = ax[1] if ax[0] == "tuple" else (ax,)
        cs = [T.const_value(v) for v in vals]
        return None if any(c is None for c in cs) else {int(c) for c in cs}
    oks = len(mins) == 1 and len(maxs) == 1
    if oks:
        a_in, a_out = mins[0].recv, maxs[0].recv
        def _whole_window(x):  # <timings>.windows[name] or the value of an iteration over <timings>.windows.items(): one whole window entry table
            if x[0] != "index":
                return False
            b = x[1]
            return (b[0] == "attr" and b[2] == "windows") or (b[0] == "elem" and x[2] == T.ONE and b[1][0] == "call" and T.call_name(b[1]).endswith(".windows.items"))
        oks = a_in[0] == "attr" and a_in[2] == "seq" and _whole_window(a_in[1]) and _axes(mins[0]) == {2, 4} \
            and a_out[0] == "attr" and a_out[2] == "seq" and a_out[1][0] == "index" and _axes(maxs[0]) == {2}
    chk.add(rid, "ring spread: oldest window entry over all slots and the whole window vs newest output over all slots", bool(oks),
            f"oldest needed = {T.show(mins[0].term)[-120:] if mins else None}, newest written = {T.show(maxs[0].term)[-100:] if maxs else None}; expected amin(windows[input].seq, axis=(2, 4)) "
            "and amax(<producer timings>.seq, axis=2)", chk.loc(f_bs, mins[0].node if mins else None))
    # ... both taken cumulatively over the generations of a run: the newest output written *up to* a generation (prefix maximum) against
    # the oldest entry any window *from that generation on* still names (suffix minimum). Per-generation values alone only cover the
    # consumers scheduled in the very generation of the write
    def _paths(t, tags, out):
        """Tag lists ('acc:<ufunc>' / 'rev') met on the way from `t` down to every .seq.max/.seq.min reduction whose *values* are used."""
        if not isinstance(t, tuple) or not t:
            return
        if t[0] == "attr" and t[2] in ("shape", "dtype", "ndim"):
            return
        if t[0] == "call" and isinstance(t[1], (str, tuple)):
            nm = T.call_name(t)
            if nm.endswith(".seq.max") or nm.endswith(".seq.min"):
                out.append(list(tags))
                return
            if nm.endswith(".accumulate"):
                tags = tags + ["acc:" + nm.split(".")[-2]]
            elif nm.split(".")[-1] in ("flip", "fliplr"):
                tags = tags + ["rev"]
        if t[0] == "index" and any(isinstance(x, tuple) and x and x[0] == "sl" and x[3] is not None and T.const_value(x[3]) == -1 for x in T.walk(t[2])):
            _paths(t[1], tags + ["rev"], out)
            return
        for x in t:
            if isinstance(x, tuple):
                _paths(x, tags, out)
    okc = None
    pp = pn = None
    if oks and ok and len(apps) == 1:
        d = T.sub(a, T.ONE)
        rv = d[1][1] if d[0] == "call" and not isinstance(d[1], str) and d[1][0] == "attr" else None
        if rv is not None and rv[0] == "num" and len(rv[1]) == 2 and all(len(mono) == 1 and mono[0][1] == 1 for mono, _ in rv[1]):
            pos = [mono[0][0] for mono, c in rv[1] if c == 1]
            neg = [mono[0][0] for mono, c in rv[1] if c == -1]
            if len(pos) == 1 and len(neg) == 1:
                pp, pn = [], []
                _paths(pos[0], [], pp)
                _paths(neg[0], [], pn)
                if pp and pn:
                    if all(x == ["acc:maximum"] for x in pp) and all(x == ["rev", "acc:minimum", "rev"] for x in pn):
                        okc = True
                    elif any(not [g for g in x if g.startswith("acc:")] for x in pp + pn):
                        okc = False  # a reduction reaches the difference without any running maximum / minimum
    if okc is None:
        chk.unknown(rid, "ring spread is cumulative over the generations", "the requirement s.max() + 1 is not the difference of two recognisable chains over .seq.max / .seq.min", chk.loc(f_bs))
    else:
        chk.add(rid, "ring spread is cumulative over the generations", okc, "the newest output must pass through maximum.accumulate (prefix maximum over the generations) and the oldest "
                "window entry through minimum.accumulate on the reversed axis (suffix minimum); found " + f"{pp} / {pn}", chk.loc(f_bs))
    # which schedule entries count for the ring size: exactly the slots that run (entries of masked slots are ignored); window entries
    # without a message (seq < 0) do count: they address the last ring slot, which must still hold the default output
    f_mt = model.func("base.Timings.get_masked_timings")
    chk.used(f_mt.qualname)
    # (the method and the module-level helpers of its module that it refers to by name: a masking helper may live next to it)
    scope, todo = [], [f_mt]
    while todo:
        f_ = todo.pop()
        if any(f_ is g_ for g_ in scope):
            continue
        scope.append(f_)
        for n in ast.walk(f_.node):
            if isinstance(n, ast.Name) and isinstance(n.ctx, ast.Load) and f"{f_mt.module}.{n.id}" in model.functions and len(scope) < 8:
                todo.append(model.functions[f"{f_mt.module}.{n.id}"])

    class _Scope:
        pass
    f_scope = _Scope()
    f_scope.node = ast.Module(body=[f_.node for f_ in scope], type_ignores=[])
    mask_writes = [n for n in ast.walk(f_scope.node) if (isinstance(n, (ast.Assign, ast.AugAssign, ast.AnnAssign)) and any(
        isinstance(t, ast.Attribute) and t.attr == "mask" or (isinstance(t, ast.Subscript) and isinstance(t.value, ast.Attribute) and t.value.attr == "mask")
        for t in (n.targets if isinstance(n, ast.Assign) else [n.target])))]
    # reference: one write, `arr.mask[:, :, :, j] = True` in the helper that hides the *other generations*
    okm = len(mask_writes) == 1 and isinstance(mask_writes[0], ast.Assign) and isinstance(mask_writes[0].value, ast.Constant) and mask_writes[0].value.value is True \
        and isinstance(mask_writes[0].targets[0], ast.Subscript)
    makers = [n for n in ast.walk(f_scope.node) if isinstance(n, ast.Call) and isinstance(n.func, ast.Attribute) and n.func.attr in ("masked_array", "masked_where", "masked_less", "masked_equal", "masked_invalid")]
    parts = [n for n in ast.walk(f_mt.node) if isinstance(n, ast.Call) and ast.unparse(n.func).endswith("partial") and n.args and isinstance(n.args[0], ast.Name) and len(n.args) == 2
             and isinstance(n.args[1], ast.UnaryOp) and isinstance(n.args[1].op, ast.Invert) and isinstance(n.args[1].operand, ast.Attribute) and n.args[1].operand.attr == "run"]
    okm = okm and len(makers) == 1 and makers[0].func.attr == "masked_array" and len(parts) == 1
    # ... over every episode of the schedule: the slot table that is masked is the timings' own, whole (not a selection of episodes)
    rmt = SymEval(model).run_function(f_mt)
    its = [l.iter for l in rmt.loops.values() if l.iter is not None and l.iter[0] == "call" and T.call_name(l.iter).endswith(".slots.items")]
    chk.add(rid, "the sizing looks at the slots of every episode", bool(its) and all(i == T.mk_call("self.slots.items", []) for i in its),
            f"get_masked_timings iterates {sorted({T.show(i)[:100] for i in its})}, expected self.slots.items() only (episodes left out of the sizing get rings that are too small "
            "for their write/read spread)", chk.loc(f_mt))
    chk.add(rid, "only slots that do not run are masked out of the sizing", bool(okm), f"get_masked_timings has {len(mask_writes)} mask write(s), {len(makers)} masked-array construction(s), "
            f"{len(parts)} `~run` mask(s): entries may be masked only because their slot does not run (or belongs to another generation); masking e.g. seq < 0 entries makes the ring too "
            "small for the default-output slot", chk.loc(f_mt, mask_writes[1] if len(mask_writes) > 1 else None))
    f_init = model.func("graph.Graph.__init__")
    chk.used(f_init.qualname)
    ev = SymEval(model)
    r = ev.run_function(f_init)
    asserts = [e for e in r.events if e.kind == "assert" and mentions(e.term, "get_buffer_sizes")]
    ok = False
    detail = "Graph.__init__ no longer checks user buffer sizes against the computed minimum"
    if len(asserts) == 1:
        a = asserts[0]
        parts = a.term[1] if a.term[0] == "or" else (a.term,)
        cmpp = [p for p in parts if p[0] in ("lt0", "le0") and any(x[0] == "call" and x[1] == "max" for x in T.walk(p))]
        maxes = [x for p in cmpp for x in T.walk(p) if x[0] == "call" and x[1] == "max"]
        if len(cmpp) == 1 and len(maxes) == 2:
            user = [x for x in maxes if not mentions(x, "get_buffer_sizes")]
            mini = [x for x in maxes if mentions(x, "get_buffer_sizes")]
            if len(user) == 1 and len(mini) == 1:
                try:
                    got = order.table(cmpp[0], order.pair_cases(user[0], mini[0]))
                    want = {("lt",): False, ("eq",): True, ("gt",): True}
                    ok = got == want
                    detail = f"admissibility table (user size vs computed minimum) is {order.show_table(got)}, expected only 'lt' rejected"
                except order.NotComparisonOnly as ex:
                    detail = f"admissibility test is not comparison-only: {ex}"
        ok = ok and bool(a.loops) and flow_guard_is_user_sizes(a)
    chk.add(rid, "user size >= computed minimum", ok, detail, chk.loc(f_init, asserts[0].node) if asserts else chk.loc(f_init))
    mins = [e for e in r.events if e.kind == "call" and e.name.endswith(".get_buffer_sizes")]
    chk.add(rid, "minimum sizes come from the timings", len(mins) == 1 and mins[0].recv == r.attr("self", "_timings"), "the minimum sizes must be self._timings.get_buffer_sizes()", chk.loc(f_init))
    f_gi = model.func("graph.Graph.init")
    ev = SymEval(model)
    r = ev.run_function(f_gi)
    gob = [e for e in r.events if e.kind == "call" and e.name.endswith(".get_output_buffer")]
    ok = len(gob) == 1 and len(gob[0].args) >= 3 and gob[0].args[1] == S("self._buffer_sizes") and gob[0].args[2] == S("self._extra_padding")
    chk.add(rid, "init allocates with the checked sizes and padding", ok, "Graph.init must allocate the buffers from self._buffer_sizes and self._extra_padding", chk.loc(f_gi))
    f_ob = model.func("base.Timings.get_output_buffer")
    chk.used(f_ob.qualname)
    ev = SymEval(model)
    r = ev.run_function(f_ob)
    st = [e for e in r.events if e.kind == "store_sub" and not e.name.startswith("self.") and any(x[0] == "call" and x[1] == "*" for x in T.walk(e.term))]
    ok = len(st) == 1
    if ok:
        lp = r.loops.get(st[0].loops[-1]) if st[0].loops else None
        muls = [x for x in T.walk(st[0].term) if x[0] == "call" and x[1] == "*"]
        ok = len(muls) == 1 and muls[0][2][0][0] in ("list", "tuple") and len(muls[0][2][0][1]) == 1
        if ok:
            item, count = muls[0][2][0][1][0], muls[0][2][1]
            s_el = T.mk_index(T.mk_index(("elem", lp.iter, lp.uid), T.ONE), T.ONE) if lp else None
            ok = item[0] == "call" and T.call_name(item).endswith(".init_output") and mentions(item, "nodes")
            svar = [x for x in T.walk(count) if x[0] == "index"]
            want = None
            for sv in {x for x in T.walk(count) if x[0] == "index" and x[1][0] == "index"}:
                pass
            # count == ite(len(s) > 0, max(s) + extra_padding, max(1, extra_padding))
            ss = {x[2][0] for x in T.walk(count) if x[0] == "call" and x[1] == "len"}
            if len(ss) == 1:
                sterm = next(iter(ss))
                want = T.mk_ite(T.lt(T.ZERO, T.mk_call("len", [sterm])), T.add(T.mk_call("max", [sterm]), S("extra_padding")), T.mk_max([T.ONE, S("extra_padding")]))
            ok = ok and want is not None and count == want
    chk.add(rid, "allocated size and default content", bool(ok), "each buffer must hold (max(sizes) + extra_padding, or max(1, extra_padding)) copies of the producer's init_output",
            chk.loc(f_ob))
    pos = [e for e in r.events if e.kind == "assert" and e.term[0] in ("lt0", "le0")]
    chk.add(rid, "allocated size asserted positive", len(pos) >= 1, "no assertion that the allocated buffer size is positive", chk.loc(f_ob))
    # default windows are built from the same init_output
    f_ii = model.func("node.BaseNode.init_inputs")
    ev = SymEval(model)
    r = ev.run_function(f_ii)
    fo = [b.get("outputs", T.NONE) for e, b in input_state_builds(model, r.events) if b.get("is_data", T.FALSE) != T.TRUE]
    ok = len(fo) == 1 and fo[0][0] == "comp" and T.call_name(fo[0][2]).endswith(".output_node.init_output") \
        and fo[0][3][0][1] == T.mk_call("range", [T.mk_attr(_conn_of(fo[0][2]), "window")])
    chk.add(rid, "default windows hold the producer's init_output", bool(ok), "init_inputs must fill each window with `window` copies of the producer's init_output", chk.loc(f_ii))



def _conn_of(call_term):
    f = call_term[1]
    # <c>.output_node.init_output
    if isinstance(f, tuple) and f[0] == "attr" and f[1][0] == "attr":
        return f[1][1]
    return T.NONE


def flow_guard_is_user_sizes(a) -> bool:
    return mentions(a.guard, "buffer_sizes")


def _is_buffer(t) -> bool:
    if t[0] != "index":
        return False
    b = t[1]
    return (b[0] == "sym" and b[1].endswith(".buffer")) or (b[0] == "attr" and b[2] == "buffer")


def _buffer_base(t):
    return t[1] if t[0] == "index" else t
