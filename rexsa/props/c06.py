"""C06 — every scheduled step executes the user's step function exactly once.

A2 (path call-count over the branch-condition abstraction) on every per-tick region of both runtimes, plus A1
(who may call the step at all).  'Step-like' calls: methods named step / async_step / _async_step in the three
runtime files; the chain push_step -> _async_step -> async_step -> node.step is checked link by link.
"""
from __future__ import annotations

import ast

from .. import flow
from .. import terms as T
from ..asyncrt import GRAPH, NODE, SYNC, AsyncRT, mentions, one, queue_ops
from ..report import AnalysisError, Check
from ..symeval import SymEval

STEP_NAMES = ("step", "async_step", "_async_step")
RUNTIME_FILES = ("asynchronous", "partition_runner", "graph")

# A1 table: function -> callee method names allowed there (confirmed by reading; one reason each)
ALLOWED_SITES = {
    "asynchronous._AsyncNodeWrapper.push_step": ({"_async_step"}, "the per-tick call"),
    "asynchronous._AsyncNodeWrapper._async_step": ({"async_step"}, "runs the (possibly jitted) step and blocks on the output"),
    "asynchronous._AsyncNodeWrapper.async_step": ({"step"}, "the one call of the user's step"),
    "asynchronous._AsyncNodeWrapper.warmup": ({"async_step"}, "documented test-run under profile=True before any episode"),
    "asynchronous.AsyncGraph.run_supervisor": ({"async_step"}, "supervisor step in the user thread unless overridden"),
    "partition_runner.make_run_partition_excl_supervisor._run_node": ({"step"}, "compiled per-slot step"),
    "graph.Graph.run_supervisor._run_supervisor_step": ({"step"}, "compiled supervisor step unless overridden"),
}


def _step_events(events, names=STEP_NAMES, func_prefix=None):
    out = []
    for e in events:
        if e.kind != "call":
            continue
        last = e.name.split(".")[-1]
        if last in names and (func_prefix is None or e.func.startswith(func_prefix)):
            out.append(e)
    return out


def _no_exc(events):
    """Events on exception-handler paths are outside the count (H2); the handlers here end in raise."""
    return [e for e in events if not any(x[0] == "sym" and x[1].startswith("exc") for x in T.walk(e.guard))]


def run(chk: Check, model):
    ar = AsyncRT(model)
    chk.rule("C06.count", "on every path through a per-tick region the user's step (or the next link of the call chain) is "
                          "called exactly once; zero times on masked / overridden / skipped paths (A2 over branch atoms)")
    chk.rule("C06.callers", "step-like methods are called only from the confirmed sites (A1)")
    chk.rule("C06.result", "the result handed on is the result of that one call, and the step sees the tick's sequence number")
    chk.rule("C06.rebind", "the supervisor's per-tick step is redirected to the synchronizer (which never runs the step)")

    # ------------------------------------------------------------------ A1 who-may-call
    sites = []
    for mod in RUNTIME_FILES:
        mi = model.module(mod)
        for q, fi in model.functions.items():
            if fi.module != mod:
                continue
            for n in _own_nodes(fi.node):
                if isinstance(n, ast.Call) and isinstance(n.func, ast.Attribute) and n.func.attr in STEP_NAMES:
                    # Graph.step / AsyncGraph.step API calls on a graph object are not node steps
                    recv = ast.unparse(n.func.value)
                    if recv in ("self.graph", "graph", "env", "self._env"):
                        continue
                    sites.append((q, n.func.attr, n, fi))
    chk.floor("C06.callers", "step-like call sites", len(sites), 7)
    for q, attr, n, fi in sites:
        homes = model.home_functions(q)  # a helper extracted later counts as part of the functions that call it
        # a helper referenced by the parent of an allowed nested function stands for that nested function
        alloweds = [ALLOWED_SITES.get(h) or next((v for k, v in ALLOWED_SITES.items() if k.startswith(h + ".") and attr in v[0]), None) if q != h else ALLOWED_SITES.get(h) for h in homes]
        allowed = alloweds[0] if alloweds else None
        ok = bool(alloweds) and all(a is not None and attr in a[0] for a in alloweds)
        chk.add("C06.callers", f"{q}:{attr}", ok,
                (f"call of .{attr}() in {q} ({allowed[1]})" if ok else
                 f"unexpected call of .{attr}() in {q}: the user's step may only be reached from {sorted(ALLOWED_SITES)}"),
                chk.loc(fi, n))

    # ------------------------------------------------------------------ async: push_step
    fi = model.func(f"{NODE}.push_step")
    chk.used(fi.qualname)
    r = ar.node("push_step")
    pop = one(queue_ops(r, "q_ts_start", "popleft"), "popleft on q_ts_start")
    evs = _step_events(r.events, ("_async_step",))
    lo, hi, w = flow.count_range(evs, pop.guard)
    chk.add("C06.count", "push_step -> _async_step", (lo, hi) == (1, 1),
            f"calls per popped tick in [{lo},{hi}], expected [1,1]" + ("" if (lo, hi) == (1, 1) else f" (witness {flow.show_val(w)})"), chk.loc(fi))
    lo2, hi2, _ = flow.count_range(evs, T.mk_not(pop.guard))
    chk.add("C06.count", "push_step without a popped tick", (lo2, hi2) == (0, 0), f"calls when no tick is popped in [{lo2},{hi2}], expected [0,0]", chk.loc(fi))
    pops = queue_ops(r, "q_ts_start", "popleft")
    chk.add("C06.count", "one tick popped per call", len(pops) == 1 and not pops[0].loops, f"{len(pops)} popleft(s) on q_ts_start", chk.loc(fi))
    if evs:
        arg = evs[0].args[0] if evs[0].args else T.NONE
        seq = T.mk_attr(arg, "seq")
        chk.add("C06.result", "push_step: step sees the popped tick", seq == T.mk_index(pop.term, T.const(0)),
                f"step_state.seq handed to the step is {T.show(seq)[:160]}, expected element 0 of the popped q_ts_start entry", chk.loc(fi, evs[0].node))
        # what push_step goes on with is the result of that call
        res = evs[0].term
        uses = [e for e in r.events if e.kind == "store_attr" and e.name == "self._step_state"]
        ok = any(T.mk_index(res, T.const(0)) in set(T.walk(e.term)) or e.term == T.mk_index(res, T.const(0)) for e in uses)
        chk.add("C06.result", "push_step: next state is the call's result", ok,
                "self._step_state is not assigned from the result of the _async_step call", chk.loc(fi))

    # ------------------------------------------------------------------ async: _async_step -> async_step -> node.step
    for qual, callee, what in ((f"{NODE}._async_step", "async_step", "self.async_step"), (f"{NODE}.async_step", "step", "self.node.step")):
        fi = model.func(qual)
        chk.used(qual)
        r = ar.eval(qual)
        evs = _step_events(r.events, STEP_NAMES)
        lo, hi, w = flow.count_range(evs, T.TRUE)
        chk.add("C06.count", f"{qual.split('.')[-1]} -> {callee}", (lo, hi) == (1, 1) and all(e.name == what for e in evs),
                f"step-like calls per invocation in [{lo},{hi}] ({[e.name for e in evs]}), expected exactly one call of {what}", chk.loc(fi))
        if len(evs) >= 1:
            call = evs[0].term
            ret = r.ret
            if callee == "async_step":
                want = ("tuple", (T.mk_index(call, T.const(0)), T.mk_index(call, T.const(1))))
                chk.add("C06.result", "_async_step returns the call's result", ret == want,
                        f"returns {T.show(ret)[:200]}, expected the (new_step_state, output) of the one async_step call", chk.loc(fi))
                chk.add("C06.result", "_async_step passes its argument", evs[0].args == (T.sym("step_state"),),
                        f"async_step is called with {[T.show(a) for a in evs[0].args]}", chk.loc(fi))
            else:
                ns, out = T.mk_index(call, T.const(0)), T.mk_index(call, T.const(1))
                ok = ret[0] == "tuple" and len(ret[1]) == 2 and ret[1][1] == out
                st = ret[1][0] if ok else None
                # new state: None stays None, else seq+1 on the returned state
                inc = T.mk_replace(ns, (("seq", T.add(T.mk_attr(ns, "seq"), T.ONE)),))
                ok = ok and T.assume(st, T.eq(ns, T.NONE, numeric=False), False) == inc
                chk.add("C06.result", "async_step returns (state with seq+1, output) of node.step", ok,
                        f"returns {T.show(ret)[:240]}", chk.loc(fi))
                chk.add("C06.result", "async_step passes its argument", evs[0].args == (T.sym("step_state"),),
                        f"node.step is called with {[T.show(a) for a in evs[0].args]}", chk.loc(fi))

    # ------------------------------------------------------------------ synchronizer
    fi = model.func(f"{SYNC}._async_step")
    chk.used(fi.qualname)
    r = ar.eval(fi.qualname)
    evs = _step_events(r.events)
    chk.add("C06.count", "_Synchronizer._async_step", len(evs) == 0, f"{len(evs)} step-like call(s) in the synchronizer, expected 0", chk.loc(fi))
    fi = model.func(f"{SYNC}.__init__")
    r = ar.eval(fi.qualname)
    sup_t = r.attr("self", "_supervisor")
    reb = [e for e in r.events if e.kind == "store_attr" and e.name.endswith("._async_step") and e.recv == sup_t]
    ok = len(reb) == 1 and reb[0].term == T.sym("self._async_step") and reb[0].guard == T.TRUE
    chk.add("C06.rebind", "supervisor._async_step := synchronizer._async_step", ok,
            "the synchronizer no longer takes over the supervisor wrapper's _async_step unconditionally "
            "(the supervisor step would run in the node thread and again in run_supervisor)", chk.loc(fi))
    sup = T.subst(r.attr("self", "_supervisor"), {})
    chk.add("C06.rebind", "synchronizer wraps the supervisor given", sup == T.sym("supervisor"), f"self._supervisor = {T.show(sup)}", chk.loc(fi))

    # ------------------------------------------------------------------ the decorator every user step goes through
    # BaseNode.__init_subclass__ replaces cls.step by no_weaktype(...)(cls.step): the wrapper must run the wrapped function once per call
    # (a second evaluation - also an abstract one, jax.eval_shape(lambda: fn(...)) - runs the Python body of an un-jitted step again)
    f_sub = model.func("node.BaseNode.__init_subclass__")
    r_sub = SymEval(model).run_function(f_sub)
    wraps = [e for e in r_sub.events if e.kind == "store_attr" and e.name == "cls.step"]
    chk.floor("C06.rebind", "class-level wrapping of step", len(wraps), 1)
    for w in wraps:
        v = w.term
        deco = v[1] if v[0] == "call" and isinstance(v[1], tuple) and v[1][0] == "call" else None
        dq = T.call_name(deco)[4:] if deco is not None and str(T.call_name(deco)).startswith("rex.") else None
        okw = dq in model.functions and len(v[2]) == 1 and v[2][0] in (T.sym("cls.step"), T.mk_attr(T.sym("cls"), "step"))
        n_calls, bad = 0, []
        if okw:
            fdec = model.functions[dq]
            chk.used(fdec.qualname)
            # the decorator and the module-level functions it refers to; in there, the one function taking (*args, **kwargs) is the wrapper and the
            # wrapped function is the enclosing functions' parameter that it calls with them
            scope, todo = [], [fdec]
            while todo:
                f_ = todo.pop()
                if any(f_ is g_ for g_ in scope):
                    continue
                scope.append(f_)
                for n in ast.walk(f_.node):
                    if isinstance(n, ast.Name) and isinstance(n.ctx, ast.Load) and f"{fdec.module}.{n.id}" in model.functions and len(scope) < 6:
                        todo.append(model.functions[f"{fdec.module}.{n.id}"])
            inner = [n for f_ in scope for n in ast.walk(f_.node) if isinstance(n, ast.FunctionDef) and n.args.vararg is not None and n.args.kwarg is not None]
            inner = list({id(n): n for n in inner}.values())
            okw = len(inner) == 1
            if okw:
                va, ka = inner[0].args.vararg.arg, inner[0].args.kwarg.arg
                fwd = [c for c in ast.walk(inner[0]) if isinstance(c, ast.Call) and isinstance(c.func, ast.Name) and any(isinstance(a, ast.Starred) and isinstance(a.value, ast.Name) and a.value.id == va for a in c.args)
                       and any(k.arg is None and isinstance(k.value, ast.Name) and k.value.id == ka for k in c.keywords)]
                params = {a.arg for f_ in scope for d in ast.walk(f_.node) if isinstance(d, ast.FunctionDef) and d is not inner[0] for a in d.args.args}
                fns = {c.func.id for c in fwd if c.func.id in params}
                okw = len(fns) == 1
                if okw:
                    fn = next(iter(fns))
                    nested = {id(x) for d in ast.walk(inner[0]) if isinstance(d, (ast.Lambda, ast.FunctionDef, ast.For, ast.While, ast.ListComp, ast.GeneratorExp, ast.DictComp, ast.SetComp)) and d is not inner[0] for x in ast.walk(d) if x is not d}
                    body_nodes = [x for b_ in inner[0].body for x in ast.walk(b_)]  # (not its decorators: functools.wraps(fn) does not call fn)
                    for n in body_nodes:
                        if isinstance(n, ast.Name) and n.id == fn and isinstance(n.ctx, ast.Load):
                            call = [c for c in body_nodes if isinstance(c, ast.Call) and c.func is n]
                            if call and id(n) not in nested:
                                n_calls += 1
                            else:
                                bad.append(n.lineno)
        chk.add("C06.rebind", "the class-level step wrapper runs the wrapped step exactly once per call", bool(okw) and n_calls == 1 and not bad,
                f"the wrapper installed around cls.step calls the wrapped function {n_calls} time(s) directly and refers to it {len(bad)} more time(s) (lines {bad}): "
                "every further evaluation runs the step body again", chk.loc(f_sub, w.node))
    # ------------------------------------------------------------------ who may replace the step chain of a wrapper
    # Only warmup may rebind async_step, only to the jit / AOT-compiled form of the same method, and only when the caller asked
    # for it (jit_step): with jit_step=False the Python body of node.step -- its side effects -- must run on every tick.
    ci = model.cls(NODE)
    stores = []
    for mname in ci.methods:
        mfi = model.func(f"{NODE}.{mname}")
        rr = ar.eval(mfi.qualname)
        for e in rr.events:
            if e.kind == "store_attr" and e.name in ("self.async_step", "self._async_step", "self.push_step") and e.func == mfi.qualname:
                stores.append((mfi, rr, e))
    chk.floor("C06.rebind", "rebindings of the wrapper's step chain", len(stores), 2)
    for mfi, rr, e in stores:
        ok = mfi.name == "warmup" and e.name == "self.async_step" and flow.equivalent(e.guard, T.sym("jit_step"))
        if ok:
            v = e.term
            if v[0] == "closure" and v[1] in rr.ev.closures:
                c = rr.ev.closures[v[1]]
                ok = c.kind == "wrap" and c.wrap == "jax.jit" and c.inner == T.sym("self.async_step")
            else:
                # <jit(self.async_step)>.lower(ss).compile()
                inner = [x for x in T.walk(v) if x[0] == "closure" and x[1] in rr.ev.closures and rr.ev.closures[x[1]].kind == "wrap"
                         and rr.ev.closures[x[1]].inner == T.sym("self.async_step")]
                ok = v[0] == "call" and T.call_name(v).endswith(".compile") and bool(inner)
        chk.add("C06.rebind", f"{mfi.name}: {e.name} rebound only to its own compiled form, only under jit_step", bool(ok),
                f"{e.name} := {T.show(e.term)[:120]} under {T.show(e.guard)[:80]}: the step chain may only be replaced by jax.jit(self.async_step) (and its AOT compile) when jit_step is set",
                chk.loc(mfi, e.node))

    # ------------------------------------------------------------------ AsyncGraph.run_supervisor
    fi = model.func(f"{GRAPH}.run_supervisor")
    chk.used(fi.qualname)
    r = ar.eval(fi.qualname)
    evs = _step_events(r.events)
    _override_table(chk, fi, evs, extra_skip=T.sym("self._initial_step"), what="AsyncGraph.run_supervisor")

    # ------------------------------------------------------------------ warmup (exception table)
    fi = model.func(f"{NODE}.warmup")
    r = ar.eval(fi.qualname)
    evs = _step_events(r.events)
    ok = all(flow.implies(e.guard, T.sym("profile")) for e in evs)
    chk.add("C06.count", "warmup test-run only under profile", ok, "warmup runs the step outside the documented profile=True test-run", chk.loc(fi))

    # ------------------------------------------------------------------ compiled: partition runner
    fi = model.func("partition_runner.make_run_partition_excl_supervisor")
    chk.used(fi.qualname)
    from ..compiled import CompiledView, slot_elem
    S = T.sym
    cv = CompiledView(model)  # (finds the three closures whatever they are called / however the node runner is bound)
    ev, r = cv.ev, cv.outer
    if ev.notes:
        chk.notes.extend(ev.notes)
    # _run_node
    evs = _step_events(cv.run_node.events, ("step",))
    lo, hi, w = flow.count_range(evs, T.TRUE)
    f_node = model.func("partition_runner.make_run_partition_excl_supervisor._run_node")
    chk.used(f_node.qualname)
    chk.add("C06.count", "_run_node -> nodes[kind].step", (lo, hi) == (1, 1), f"step calls per executed slot in [{lo},{hi}], expected [1,1]", chk.loc(f_node))
    if evs:
        arg = evs[0].args[0] if evs[0].args else T.NONE
        seq = T.mk_attr(arg, "seq")
        chk.add("C06.result", "_run_node: step sees the slot's sequence number", seq == T.sym("timings_node.seq"),
                f"StepState.seq handed to the step is {T.show(seq)[:160]}, expected timings_node.seq", chk.loc(f_node, evs[0].node))
        recv = evs[0].recv
        chk.add("C06.result", "_run_node: the node stepped is the slot's kind", recv == T.mk_index(T.sym("nodes"), T.sym("kind")),
                f"receiver is {T.show(recv)}, expected nodes[kind]", chk.loc(f_node, evs[0].node))
    # _run_generation
    sub = cv.run_generation.events
    f_gen = model.func("partition_runner.make_run_partition_excl_supervisor._run_generation")
    chk.used(f_gen.qualname)
    evs = _no_exc(_step_events(sub, ("step",)))
    conds = [e for e in sub if e.kind == "call" and e.name == "jax.lax.cond"]
    if len(conds) != 1 or len(conds[0].loops) != 1:
        chk.unknown("C06.count", "_run_generation cond", f"expected one lax.cond inside the slot loop, found {len(conds)}", chk.loc(f_gen))
    else:
        cond = conds[0]
        loop = cond.loops
        pred = cond.term
        # per slot iteration
        per_iter = []
        for e in evs:
            if e.loops[: len(loop)] != loop:
                chk.violation("C06.count", "_run_generation: step outside the slot loop", f"step call at line {e.lineno} is not inside the per-slot loop", chk.loc(f_gen, e.node))
            per_iter.append(_strip_loops(e, len(loop)))
        region = cond.guard

        def constraint(val, pred=pred, want=True):
            return flow.bool_eval(pred, val) == want

        lo, hi, w = flow.count_range(per_iter, region, constraint=lambda v: flow.bool_eval(pred, v), extra_atoms=[pred])
        chk.add("C06.count", "_run_generation: slot with run=True", (lo, hi) == (1, 1), f"step calls for an unmasked slot in [{lo},{hi}], expected [1,1]", chk.loc(f_gen, cond.node))
        lo, hi, w = flow.count_range(per_iter, region, constraint=lambda v: not flow.bool_eval(pred, v), extra_atoms=[pred])
        chk.add("C06.count", "_run_generation: slot with run=False", (lo, hi) == (0, 0), f"step calls for a masked slot in [{lo},{hi}], expected [0,0]", chk.loc(f_gen, cond.node))
        lo, hi, w = flow.count_range(per_iter, T.mk_not(region))
        chk.add("C06.count", "_run_generation: skipped slot", (lo, hi) == (0, 0), f"step calls for a skipped slot in [{lo},{hi}], expected [0,0]", chk.loc(f_gen, cond.node))
        # which slots are passed over: the supervisor's slot and the slots of exactly the kinds the user asked to skip
        el_ = slot_elem(cv.run_generation)
        name_ = T.mk_index(el_, T.ZERO) if el_ is not None else None
        ats_ = [a for a in flow.bool_atoms(region, []) if name_ is not None and (a[0] == "in" and a[1] == name_ or a[0] == "eq" and name_ in a[1])]
        items = T.mk_call("timings.slots.items", [])

        def _kind_comp(c):
            # [n for n, v in timings.slots.items() if v.kind in skip]
            if not (c[0] == "comp" and c[1] == "list" and len(c[3]) == 1 and c[3][0][1] == items):
                return False
            els = [x for x in T.walk(c[2]) if x[0] == "elem" and x[1] == items]
            return bool(els) and c[2] == T.mk_index(els[0], T.ZERO) and tuple(c[4]) == (("in", T.mk_attr(T.mk_index(els[0], T.ONE), "kind"), S("skip")),)
        kinds_ = {"sup": [a for a in ats_ if a[0] == "eq" and S("supervisor_slot") in a[1]], "skip": [a for a in ats_ if a[0] == "in" and a[2] == S("skip")],
                  "comp": [a for a in ats_ if a[0] == "in" and _kind_comp(a[2])]}
        # every one of the three tests keeps a slot out, nothing else about the slot's name does, and without a skip list only the supervisor's is
        none_ = T.eq(S("skip"), T.NONE, numeric=False)
        oks = all(len(v) == 1 for v in kinds_.values()) and len(ats_) == 3 and flow.implies(region, T.mk_not(kinds_["sup"][0])) \
            and all(flow.implies(T.assume(region, none_, False), T.mk_not(kinds_[k][0])) for k in ("skip", "comp"))
        if oks:
            rest = T.assume(T.assume(region, kinds_["sup"][0], False), none_, True)
            oks = not any(a in ats_ for a in flow.bool_atoms(rest, []))
            rest2 = region
            for v in kinds_.values():
                rest2 = T.assume(rest2, v[0], False)
            oks = oks and not any((a[0] == "in" and a[1] == name_) or (a[0] == "eq" and name_ in a[1]) for a in flow.bool_atoms(rest2, []))
        chk.add("C06.count", "_run_generation: only the supervisor's slot and the slots of the skipped kinds are passed over", bool(oks),
                f"a slot is passed over under {T.show(T.mk_not(region))[:260]}, expected slot == supervisor_slot or slot in [n for n, v in timings.slots.items() if v.kind in skip] (+ skip)", chk.loc(f_gen, cond.node))
        f_gi = model.func("graph.Graph.__init__")
        rgi = SymEval(model).run_function(f_gi)
        mk = [e for e in rgi.events if e.kind == "call" and e.name.endswith("make_run_partition_excl_supervisor")]
        b_ = model.bind_call("partition_runner.make_run_partition_excl_supervisor", mk[0].args, mk[0].kwargs) if len(mk) == 1 else {}
        sk_ = b_.get("skip", T.NONE)
        user = T.mk_ite(T.mk_call("isinstance", [S("skip"), S("list")]), S("skip"), T.mk_ite(T.mk_call("isinstance", [S("skip"), S("str")]), ("list", (S("skip"),)), ("list", ())))
        chk.add("C06.count", "Graph hands the user's skip list to the partition runner unchanged", len(mk) == 1 and sk_ == rgi.attr("self", "_skip") and sk_ == user,
                f"the partition runner is built with skip = {T.show(sk_)[:200]}, expected the constructor's `skip` argument (as a list)", chk.loc(f_gi, mk[0].node if mk else None))
        ok = pred[0] == "attr" and pred[2] == "run"
        chk.add("C06.count", "_run_generation: predicate is the slot's run mask", ok, f"lax.cond predicate is {T.show(pred)[:160]}, expected <slot timings>.run", chk.loc(f_gen, cond.node))
        # the true branch is the first callable
        tb = cond.args[1] if len(cond.args) > 2 else None
        cl = ev.closures.get(tb[1]) if tb is not None and tb[0] == "closure" else None
        ok = cl is not None and ((cl.kind == "partial" and cl.inner[0] == "closure" and model.reference(ev.closures[cl.inner[1]].qualname).endswith("._run_node"))
                                 or (cl.kind == "def" and model.reference(cl.qualname).endswith("._run_node")))
        chk.add("C06.count", "_run_generation: true branch is the node step", ok, "the branch taken when run=True is not the node runner bound to the slot's kind", chk.loc(f_gen, cond.node))
    # _run_S itself: no direct step call
    f_S = model.func("partition_runner.make_run_partition_excl_supervisor._run_S")
    chk.used(f_S.qualname)
    direct = [e for e in _step_events(cv.run_S.events, ("step",)) if e.func == f_S.qualname]
    chk.add("C06.count", "_run_S: no step outside a generation", len(direct) == 0, f"{len(direct)} direct step call(s) in _run_S", chk.loc(f_S))

    # ------------------------------------------------------------------ compiled: what "inside the compiled horizon" is
    # the schedule that decides which ticks exist: run masks / seq per slot are role-preserving copies of the vertices, the horizon is
    # the number of supervisor steps present in every episode (a longer horizon runs the unmasked supervisor on partitions that a
    # shorter episode does not have)
    chk.rule("C06.schedule", "the compiled schedule: every slot entry is slot.F[eps, partition] = vertex.F[eps, seq], entries beyond the horizon are skipped, templates are "
                             "run=False, the horizon is the number of supervisor steps present in every episode")
    from ..roles import rule_to_timings
    rule_to_timings(chk, model, "C06.schedule")
    # ------------------------------------------------------------------ compiled: Graph.run_supervisor
    fi = model.func("graph.Graph.run_supervisor")
    chk.used(fi.qualname)
    ev = SymEval(model)
    r = ev.run_function(fi)
    conds = [e for e in r.events if e.kind == "call" and e.name == "jax.lax.cond"]
    evs = _step_events(r.events, ("step",))
    if len(conds) != 1:
        chk.unknown("C06.count", "Graph.run_supervisor cond", f"expected one lax.cond, found {len(conds)}", chk.loc(fi))
    else:
        from ..compiled import skip_condition
        pred = skip_condition(conds[0].term)
        chk.add("C06.count", "Graph.run_supervisor: skip predicate", pred == T.eq(T.mk_attr(_gs_after_clip(r, conds[0]), "step"), T.ZERO, numeric=True)
                or (pred[0] == "eq0" and mentions(pred, "step")),
                f"lax.cond predicate is {T.show(pred)[:200]}, expected graph_state.step == 0", chk.loc(fi, conds[0].node))
        _override_table(chk, fi, evs, extra_skip=pred, what="Graph.run_supervisor")


def _gs_after_clip(r, cond_event):
    return T.sym("graph_state")


def _strip_loops(e, n):
    import copy
    e2 = copy.copy(e)
    e2.loops = e.loops[n:]
    return e2


def _override_table(chk, fi, evs, extra_skip, what):
    """count == 1 iff not skipped and no override (step_state is None and output is None), else 0.
    The assert at the top of the function makes (step_state is None) == (output is None)."""
    ss_none = T.eq(T.sym("step_state"), T.NONE, numeric=False)
    out_none = T.eq(T.sym("output"), T.NONE, numeric=False)
    consistent = lambda v: flow.bool_eval(ss_none, v) == flow.bool_eval(out_none, v)
    extra = [ss_none, out_none, extra_skip]
    run = lambda v: consistent(v) and flow.bool_eval(ss_none, v) and not flow.bool_eval(extra_skip, v)
    lo, hi, w = flow.count_range(evs, T.TRUE, constraint=run, extra_atoms=extra)
    chk.add("C06.count", f"{what}: not overridden", (lo, hi) == (1, 1), f"supervisor step calls in [{lo},{hi}], expected [1,1]"
            + ("" if (lo, hi) == (1, 1) else f" (witness {flow.show_val(w)})"), chk.loc(fi))
    ovr = lambda v: consistent(v) and not flow.bool_eval(ss_none, v)
    lo, hi, w = flow.count_range(evs, T.TRUE, constraint=ovr, extra_atoms=extra)
    chk.add("C06.count", f"{what}: overridden by the user", (lo, hi) == (0, 0), f"supervisor step calls in [{lo},{hi}], expected [0,0]"
            + ("" if (lo, hi) == (0, 0) else f" (witness {flow.show_val(w)})"), chk.loc(fi))
    skp = lambda v: consistent(v) and flow.bool_eval(extra_skip, v)
    lo, hi, w = flow.count_range(evs, T.TRUE, constraint=skp, extra_atoms=extra)
    chk.add("C06.count", f"{what}: skipped (before the first partition)", (lo, hi) == (0, 0), f"supervisor step calls in [{lo},{hi}], expected [0,0]", chk.loc(fi))


def _own_nodes(fn):
    """AST nodes of a function excluding nested function bodies (those are separate functions)."""
    stack = list(ast.iter_child_nodes(fn))
    while stack:
        n = stack.pop()
        if isinstance(n, (ast.FunctionDef, ast.AsyncFunctionDef, ast.ClassDef)):
            continue
        yield n
        stack.extend(ast.iter_child_nodes(n))
