"""C05 — graph lifecycle calls always return and episodes are isolated.

Termination in general is undecidable; decided are the structural deadlock- and leak-freedom conditions of this
design: typestate (A10), the user<->supervisor hand-shake ordering and release-before-wait (A15), liveness of
the event joins (A14), reset completeness, and the episode filter.
"""
from __future__ import annotations

from .. import flow
from .. import terms as T
from ..asyncflow import (AsyncView, rule_enqueue_trigger, rule_eps_filter, rule_queue_discipline, rule_reset_complete, rule_typestate)
from ..asyncrt import GRAPH, SYNC, mentions
from ..report import Check

S = T.sym


REF_START_TOKENS = 10  # rex/asynchronous.py::_AsyncNodeWrapper._start, `num_tokens` of the reference tree


def _calls(r, pred):
    return [e for e in r.events if e.kind == "call" and pred(e)]


def rule_handshake(chk: Check, view: AsyncView, rid: str):
    chk.rule(rid, "wait-for graph (A15): the only cycle is user thread <-> supervisor thread; every wait has a release that is ordered "
                  "before the opposite wait: the synchronizer publishes its futures before it resolves the observation and before it reads "
                  "the stop flag; stop() writes the stop flag before it inspects/cancels the pending action and before it waits; "
                  "run_supervisor resolves the action exactly once; start() resets before it starts")
    ar = view.ar
    m = view.model
    # ---------------------------------------------------------------- _Synchronizer._async_step
    fi = m.func(f"{SYNC}._async_step")
    chk.used(fi.qualname)
    r = ar.eval(fi.qualname)
    act_app = _calls(r, lambda e: e.name == "self._q_act.append")
    obs_app = _calls(r, lambda e: e.name == "self._q_obs.append")
    release = _calls(r, lambda e: e.name.endswith(".set_result") and mentions(e.recv, "_f_obs"))
    wait = _calls(r, lambda e: e.name.endswith(".result") and e.recv is not None and e.recv == r.attr("self", "_f_act"))
    if not wait:
        wait = _calls(r, lambda e: e.name.endswith(".result"))
    loc = chk.loc(fi)
    ok = len(act_app) == 1 and len(obs_app) == 1 and len(release) == 1 and len(wait) == 1
    chk.add(rid, "sync: one publish/release/wait each", ok, f"_async_step has {len(act_app)} action publishes, {len(obs_app)} observation publishes, "
            f"{len(release)} observation releases, {len(wait)} waits; expected one each", loc)
    if ok:
        a, o, rel, w = act_app[0], obs_app[0], release[0], wait[0]
        chk.add(rid, "sync: action future published unconditionally", a.guard == T.TRUE and a.args == (r.attr("self", "_f_act"),) or (a.guard == T.TRUE and a.args[0][0] == "call"),
                "the new action Future must be appended to _q_act on every path (stop() cancels action[-1])", chk.loc(fi, a.node))
        chk.add(rid, "sync: next observation queued before the current one is released", flow.precedes(o, rel) and o.guard == T.TRUE,
                "the next observation Future must be queued before the current observation is resolved: the user thread may return from "
                "reset()/step() and pop the queue immediately", chk.loc(fi, rel.node))
        chk.add(rid, "sync: action published before the observation is released", flow.precedes(a, rel),
                "the action Future must be in _q_act before the observation is resolved (run_supervisor resolves action[-1])", chk.loc(fi, rel.node))
        chk.add(rid, "sync: observation released before waiting for the action", flow.precedes(rel, w) and rel.guard == T.TRUE,
                "the observation must be resolved on every path before the supervisor thread blocks on the action (else both threads wait)", chk.loc(fi, w.node))
        # the stop flag is read after the action was published, and guards the wait
        flag = S("self._must_reset")
        chk.add(rid, "sync: wait only while no stop was requested", flow.implies(w.guard, T.mk_not(flag)),
                f"the wait on the action future is not guarded by `not self._must_reset` (guard {T.show(w.guard)[:100]})", chk.loc(fi, w.node))
        early = [e for e in r.events if e.idx < a.idx and (mentions(e.guard, "_must_reset") or (e.kind == "read" and e.name.endswith("_must_reset")))]
        chk.add(rid, "sync: stop flag read after publishing", not early, "the stop flag is tested before the action future is published: "
                "a stop() in between would neither see the future nor be seen", loc)
        # the released observation is the step state of this call; the new future becomes current
        chk.add(rid, "sync: observation payload", rel.args == (S("step_state"),), f"the observation is resolved with {[T.show(x) for x in rel.args]}, expected step_state", chk.loc(fi, rel.node))
        chk.add(rid, "sync: next observation becomes current", r.attr("self", "_f_obs") == o.args[0], "self._f_obs must become the newly queued observation Future", loc)
        # cancelled -> remember the stop, skipped result; every path pops its own action future exactly once or leaves via must_reset
        pops = _calls(r, lambda e: e.name == "self._q_act.popleft")
        is_exc = lambda e: any(x[0] == "sym" and x[1].startswith("exc") for x in T.walk(e.guard))
        lo, hi, wv = flow.count_range([p for p in pops if not is_exc(p)], w.guard)
        chk.add(rid, "sync: waited action future removed exactly once", (lo, hi) == (1, 1), f"_q_act.popleft per answered step in [{lo},{hi}], expected [1,1]", loc)
        exc_pops = [p for p in pops if is_exc(p)]
        chk.add(rid, "sync: cancelled action future removed exactly once", len(exc_pops) == 1 and not exc_pops[0].loops,
                f"{len(exc_pops)} _q_act.popleft on the CancelledError path, expected 1", loc)
        rets = [e for e in r.events if e.kind == "return" and e.func == fi.qualname]
        skipped = [e for e in rets if e.term[0] == "tuple" and e.term[1][0] == T.NONE]
        answered = [e for e in rets if e not in skipped]
        ok = bool(skipped) and all(e.term == ("tuple", (T.NONE, S("self._skipped"))) for e in skipped) and all(flow.implies(e.guard, w.guard) and not is_exc(e) for e in answered)
        chk.add(rid, "sync: skipped steps return (None, skipped)", ok, "a step skipped because of a stop must return (None, self._skipped); only an answered wait returns a step result", loc)
        # CancelledError path sets the flag
        exc_store = [e for e in r.events if e.kind == "store_attr" and e.name == "self._must_reset" and any(x[0] == "sym" and x[1].startswith("exc") for x in T.walk(e.guard))]
        chk.add(rid, "sync: cancellation remembered", len(exc_store) == 1 and exc_store[0].term == T.TRUE, "a cancelled action must set _must_reset so that later steps skip", loc)

    # ---------------------------------------------------------------- AsyncGraph.stop
    fi = m.func(f"{GRAPH}.stop")
    chk.used(fi.qualname)
    r = ar.eval(fi.qualname)
    loc = chk.loc(fi)
    flag = [e for e in r.events if e.kind == "store_attr" and e.name.endswith("._must_reset")]
    cancel = _calls(r, lambda e: e.name.endswith(".cancel"))
    stops = _calls(r, lambda e: e.name.endswith("._stop"))
    waits = _calls(r, lambda e: e.name.endswith(".result"))
    rearm = [e for e in r.events if e.kind == "store_attr" and e.name == "self._initial_step"]
    ok = len(flag) == 1 and flag[0].term == T.TRUE and flag[0].guard == T.TRUE and flag[0].name == "self._synchronizer._must_reset"
    chk.add(rid, "AsyncGraph.stop: stop flag published", ok, "stop() must set self._synchronizer._must_reset = True unconditionally", loc)
    if ok and cancel:
        c = cancel[0]
        chk.add(rid, "AsyncGraph.stop: stop flag before cancel", flag[0].idx < min(x.idx for x in cancel) and not any(
            mentions(e.guard, "action") or mentions(e.term or T.NONE, "action") for e in r.events if e.idx < flag[0].idx),
            "the stop flag must be written before the pending action is inspected and cancelled: a supervisor step that starts waiting "
            "in between is neither cancelled nor told to skip, and stop() waits forever on its _stopping task", chk.loc(fi, c.node))
        ok2 = len(cancel) == 1 and c.recv == T.mk_index(S("self._synchronizer.action"), T.const(-1)) and flow.equivalent(
            c.guard, T.lt(T.ZERO, T.mk_call("len", [S("self._synchronizer.action")])))
        chk.add(rid, "AsyncGraph.stop: newest action cancelled", ok2, f"stop() must cancel action[-1] iff an action is pending (got {T.show(c.recv)[:80]} under {T.show(c.guard)[:80]})", chk.loc(fi, c.node))
    else:
        chk.add(rid, "AsyncGraph.stop: newest action cancelled", False, "stop() no longer cancels the pending action future", loc)
    ok = len(stops) == 1 and bool(stops[0].loops) and mentions(stops[0].recv, "_async_nodes")
    chk.add(rid, "AsyncGraph.stop: every node asked to stop", ok, "stop() must call _stop on every node wrapper", loc)
    ok = len(waits) == 1 and bool(waits[0].loops) and stops and mentions(waits[0].recv, "_stop") and (not cancel or all(c.idx < waits[0].idx for c in cancel)) \
        and (not flag or flag[0].idx < waits[0].idx)
    chk.add(rid, "AsyncGraph.stop: waits for every node after the release", ok, "stop() must wait for the future of every _stop call, after the cancel", loc)
    ok = len(rearm) == 1 and rearm[0].term == T.TRUE and waits and rearm[0].idx > waits[0].idx
    chk.add(rid, "AsyncGraph.stop: re-armed after the wait", ok, "_initial_step must be set to True only after all nodes have stopped", loc)

    # ---------------------------------------------------------------- AsyncGraph.start
    fi = m.func(f"{GRAPH}.start")
    chk.used(fi.qualname)
    r = ar.eval(fi.qualname)
    loc = chk.loc(fi)
    seq = []
    for e in r.events:
        if e.kind != "call":
            continue
        last = e.name.split(".")[-1]
        if e.name == "self.stop":
            seq.append("stop")
        elif e.name == "self._synchronizer.reset":
            seq.append("sync.reset")
        elif last in ("_reset", "_startup", "_start") and mentions(e.recv, "_async_nodes"):
            seq.append(last)
        elif last == "result" and mentions(e.recv, "_startup"):
            seq.append("wait_startup")
    want = ["stop", "sync.reset", "_reset", "_startup", "wait_startup", "_start"]
    chk.add(rid, "AsyncGraph.start: order", seq == want, f"start() performs {seq}, expected {want}", loc)
    # who may wait on what: the user thread may only block on the startup tasks here; the first tick submitted by _start can run
    # the supervisor's step, which blocks in the synchronizer until the *user thread* supplies an action
    def _origin(t):
        return {T.call_name(x).rsplit(".", 1)[-1] for x in T.walk(t) if x[0] == "call" and isinstance(T.call_name(x), str) and "." in T.call_name(x)}
    waits_s = _calls(r, lambda e: e.name.endswith(".result") or e.name.endswith(".wait"))
    bad = [e for e in waits_s if "_start" in _origin(e.recv) or "_submit" in _origin(e.recv) or "_startup" not in _origin(e.recv)]
    chk.add(rid, "AsyncGraph.start: waits only for the startup tasks", not bad, "start() blocks on " + "; ".join(T.show(e.recv)[:80] for e in bad[:2]) +
            ": the user thread may wait for _startup futures only (a task submitted by _start may be the supervisor step, which waits for the user thread)", loc)
    # the episode's time origin is taken after the startup phase (time 0 = the moment the nodes start running)
    tt = [e for e in r.events if e.kind == "call" and e.name == "time.time"]
    wst = [e for e in waits_s if "_startup" in _origin(e.recv)]
    chk.add(rid, "AsyncGraph.start: time origin taken after startup", len(tt) == 1 and bool(wst) and all(w.idx < tt[0].idx for w in wst),
            "the common start timestamp must be read after all nodes finished their startup (else the episode does not start at time 0)", chk.loc(fi, tt[0].node if tt else None))
    eps_assert = [e for e in r.events if e.kind == "assert" and mentions(e.term, "eps")]
    chk.add(rid, "AsyncGraph.start: same episode everywhere", len(eps_assert) == 1, "start() must assert that all nodes are in the same episode", loc)
    starts = _calls(r, lambda e: e.name.endswith("._start"))
    ok = len(starts) == 1 and dict(starts[0].kwargs).get("start", (starts[0].args or (None,))[0]) is not None
    same = ok and not any(x[0] == "elem" for x in T.walk(dict(starts[0].kwargs).get("start", (starts[0].args or (T.NONE,))[0])))
    chk.add(rid, "AsyncGraph.start: one start timestamp for all nodes", bool(same), "every node must be started with the same start timestamp", loc)

    # ---------------------------------------------------------------- run_until_supervisor / run_supervisor
    fi = m.func(f"{GRAPH}.run_until_supervisor")
    chk.used(fi.qualname)
    r = ar.eval(fi.qualname)
    waits = _calls(r, lambda e: e.name.endswith(".result"))
    ok = len(waits) == 1 and waits[0].recv[0] == "call" and T.call_name(waits[0].recv).endswith("observation.popleft")
    chk.add(rid, "run_until_supervisor: waits on the oldest observation", ok, "run_until_supervisor must wait on observation.popleft() only", chk.loc(fi))
    arm = [e for e in r.events if e.kind == "store_attr" and e.name == "self._initial_step"]
    chk.add(rid, "run_until_supervisor: disarms the initial step", len(arm) == 1 and arm[0].term == T.FALSE and waits and arm[0].idx > waits[0].idx,
            "_initial_step must be cleared after the first observation arrived", chk.loc(fi))
    fi = m.func(f"{GRAPH}.run_supervisor")
    chk.used(fi.qualname)
    r = ar.eval(fi.qualname)
    sets = _calls(r, lambda e: e.name.endswith(".set_result"))
    init = S("self._initial_step")
    lo, hi, w = flow.count_range(sets, T.mk_not(init))
    chk.add(rid, "run_supervisor: action resolved exactly once", (lo, hi) == (1, 1) and all(s.recv == T.mk_index(S("self._synchronizer.action"), T.const(-1)) for s in sets),
            f"action[-1].set_result per supervisor step in [{lo},{hi}], expected [1,1] on the newest action (the supervisor thread waits for it)", chk.loc(fi))
    lo, hi, w = flow.count_range(sets, init)
    chk.add(rid, "run_supervisor: nothing resolved before the first observation", (lo, hi) == (0, 0), f"set_result while _initial_step in [{lo},{hi}], expected [0,0]", chk.loc(fi))

    # ---------------------------------------------------------------- stopping tasks
    r = view.results["node._stop._stopping"]
    fi = view.fi("node._stop")
    cw = _calls(r, lambda e: e.name.endswith(".result") and mentions(e.recv, "stop"))
    ns = _calls(r, lambda e: e.name == "self.node.stop")
    fl = [e for e in r.events if e.kind == "store_attr" and e.name == "self._state"]
    ok = len(cw) == 1 and bool(cw[0].loops) and len(ns) == 1 and len(fl) == 1 and cw[0].idx < ns[0].idx < fl[0].idx
    chk.add(rid, "_stopping: inputs stopped, node.stop(), then STOPPED", ok, "the node's stopping task must wait for every input's stop, call node.stop(), then flip to STOPPED", chk.loc(fi))
    tmo = cw and (dict(cw[0].kwargs).get("timeout") == S("timeout"))
    chk.add(rid, "_stopping: bounded wait on inputs", bool(tmo), "the wait on the inputs' stop futures must pass the caller's timeout", chk.loc(fi))


def rule_api_phases(chk: Check, view: AsyncView, rid: str):
    """Typestate of the user side of the hand-off.  run_until_supervisor (U) blocks until the supervisor publishes a *new* observation,
    which it does only after its previous step was answered; run_supervisor (S) answers the pending step (action[-1]).  Hence inside an
    episode U and S must alternate, starting with U.  Every public call is a word over {start, U, S}; two calls in a row are sound iff
    the second restarts the episode (unconditional start) or continues the alternation where the first one stopped."""
    from .c02 import api_sequence
    chk.rule(rid, "driving API as typestate (A9/A10): within an episode run_until_supervisor and run_supervisor alternate; for every ordered pair of "
                  "public calls (reset | run | step) the second call either restarts the episode or begins with the operation the first call left pending")
    m = view.model
    # the two facts the alternation rests on, from the code
    fu = m.func(f"{GRAPH}.run_until_supervisor")
    ru = view.ar.eval(fu.qualname)
    waits = [e for e in ru.events if e.kind == "call" and e.name.endswith(".result") and mentions(e.recv, "observation") and mentions(e.recv, "popleft")]
    chk.add(rid, "U waits for the next queued observation", len(waits) == 1 and waits[0].guard == T.TRUE and not waits[0].args and not waits[0].kwargs,
            "run_until_supervisor must block on observation.popleft().result()", chk.loc(fu))
    fs = m.func(f"{GRAPH}.run_supervisor")
    rs = view.ar.eval(fs.qualname)
    sets = [e for e in rs.events if e.kind == "call" and e.name.endswith(".set_result") and mentions(e.recv, "action")]
    chk.add(rid, "S answers the pending action", len(sets) == 1 and sets[0].recv == T.mk_index(S("self._synchronizer.action"), T.const(-1)),
            "run_supervisor must resolve self._synchronizer.action[-1]", chk.loc(fs))
    api = api_sequence(m, GRAPH)
    words = {}
    for name, (fi, r, seq) in api.items():
        chk.used(fi.qualname)
        w = []
        for op, guard, _a, _k, _e in seq:
            sym = {"start": "B", "run_until_supervisor": "U", "run_supervisor": "S"}[op]
            if sym == "B" and guard != T.TRUE:
                continue  # start only on the first call of an episode: absent when another call came before
            w.append(sym)
        words[name] = w
        # inside one call the operations alternate
        core = [x for x in w if x != "B"]
        chk.add(rid, f"{name}: U and S alternate inside the call", all(a != b for a, b in zip(core, core[1:])) and bool(core), f"{name} performs {w}", chk.loc(fi))
    for a in ("reset", "run", "step"):
        for b in ("reset", "run", "step"):
            wa, wb = words[a], words[b]
            if not wa or not wb:
                continue
            last = [x for x in wa if x != "B"][-1]
            if wb[0] == "B":
                ok, why = True, ""
            elif wb[0] == "U":
                ok, why = last == "S", f"{b}() starts by waiting for a new observation, but after {a}() the supervisor is still waiting for its action: neither thread can proceed"
            else:
                ok, why = last == "U", f"{b}() starts by answering the supervisor's step, but {a}() has already answered it: there is no pending action (and the next wait never ends)"
            chk.add(rid, f"history:{a};{b}", ok, why, chk.loc(api[b][0]))


def run(chk: Check, model):
    view = AsyncView(model)
    for k in view.results:
        chk.used(view.fi(k.rsplit(".", 1)[0] if k.count(".") == 2 else k).qualname)
    rule_typestate(chk, view, "C05.typestate")
    rule_handshake(chk, view, "C05.handshake")
    rule_enqueue_trigger(chk, view, "C05.trigger")
    rule_queue_discipline(chk, view, "C05.queues")
    rule_reset_complete(chk, view, "C05.reset")
    # a reset that refuses (not warmed up, unsupported setting) refuses before it changes anything: the nodes of a graph are reset one after the
    # other and must agree on the episode counter afterwards, also when one of them raised
    fq_rs = view.fi("node._reset").qualname
    rz_ = [e for e in view.results["node._reset"].events if e.kind in ("raise", "assert") and e.func == fq_rs]
    st_ = [e for e in view.results["node._reset"].events if e.kind == "store_attr" and e.recv == S("self") and e.func == fq_rs]
    late = [e for e in rz_ if st_ and e.idx > min(x.idx for x in st_)]
    chk.add("C05.reset", "a refused reset changes nothing", bool(rz_) and bool(st_) and not late, f"node._reset can still refuse (line {late[0].lineno if late else '?'}) after it has already assigned "
            f"{[x.name for x in st_ if late and x.idx < late[0].idx][:3]}: the refusing node is left half reset (e.g. with its episode counter ahead of the others)", chk.loc(view.fi("node._reset"), late[0].node if late else None))
    # the episode clock: between reset and start every reader of the clock (now / throttle, also from connection threads) waits for the
    # start time of *this* episode: reset installs a pending future, _set_ts_start resolves it before replacing it by the value
    # (the resolving function: _set_ts_start, or _start itself when the helper is written out there)
    k_st = "node._set_ts_start" if "node._set_ts_start" in view.results else "node._start"
    r_rs, r_st = view.results["node._reset"], view.results[k_st]
    fut = r_rs.attr("self", "_ts_start")
    chk.add("C05.reset", "episode clock: reset installs a pending start time", fut[0] == "call" and T.call_name(fut).endswith("Future") and not fut[2],
            f"node._reset stores self._ts_start = {T.show(fut)[:80]}, expected a fresh Future() (otherwise a reader that comes before _start uses the previous episode's start time)",
            chk.loc(view.fi("node._reset")))
    res = [e for e in r_st.events if e.kind == "call" and e.name == "self._ts_start.set_result"]
    sto = [e for e in r_st.events if e.kind == "store_attr" and e.name == "self._ts_start"]
    ok = len(res) == 1 and len(sto) == 1 and res[0].idx < sto[0].idx and len(res[0].args) == 1 and res[0].args[0][0] == "sym" and sto[0].term == res[0].args[0] and res[0].guard == T.TRUE
    chk.add("C05.reset", "episode clock: _set_ts_start wakes the waiting readers with the start time, then stores it", ok,
            "_set_ts_start must call self._ts_start.set_result(ts_start) on the pending future before replacing it", chk.loc(view.fi(k_st)))
    for k_ in ("node.now", "node.throttle"):
        waits = [e for e in view.results[k_].events if e.kind == "call" and e.name == "self._ts_start.result"]
        chk.add("C05.reset", f"episode clock: {k_.split('.')[1]} waits for a pending start time", len(waits) >= 1 and all(mentions(e.guard, "Future") for e in waits),
                f"{k_} must read self._ts_start.result() while the start time is still a Future", chk.loc(view.fi(k_)))
    rule_eps_filter(chk, view, "C05.eps")
    rule_api_phases(chk, view, "C05.api")
    # the supported class of graphs is parameterised by the look-ahead a node is started with (its source says so: "deadlocks may
    # occur when num_tokens is chosen too low ... at least the rate multiple + 1"); the reference value is a lower bound - lowering
    # it makes reset()/step() of graphs inside the documented class wait for ever
    rst = view.results["node._start"]
    ext = [e for e in rst.events if e.kind == "call" and e.name == "self.q_tick.extend"]
    n_tok = None
    if len(ext) == 1 and ext[0].args:
        a0 = ext[0].args[0]
        if a0[0] == "call" and a0[1] == "*" and len(a0[2]) == 2:
            seq_, cnt = (a0[2] if a0[2][0][0] in ("tuple", "list") else a0[2][::-1])
            if seq_[0] in ("tuple", "list") and len(seq_[1]) == 1 and seq_[1][0] == T.TRUE and T.const_value(cnt) is not None:
                n_tok = int(T.const_value(cnt))
        elif a0[0] in ("tuple", "list") and all(x == T.TRUE for x in a0[1]):
            n_tok = len(a0[1])
    chk.add("C05.trigger", "start-up look-ahead: at least the reference number of ticks queued at _start", n_tok is not None and n_tok >= REF_START_TOKENS and ext[0].guard == T.TRUE,
            f"_start queues {n_tok if n_tok is not None else '?'} tick tokens, reference {REF_START_TOKENS}: with fewer, a fast producer of a slower blocking consumer cannot run far enough "
            "ahead (rate multiple + 1) and the first step() never returns", chk.loc(view.fi("node._start"), ext[0].node if ext else None))
    # "each new episode starts from sequence number 0 and time 0": what a step sees is the per-episode tick / schedule, not whatever
    # the graph state handed to reset() carried over from an earlier episode
    from ..asyncrt import one, queue_ops
    rps = view.results["node.push_step"]
    f_ps = view.fi("node.push_step")
    pop = one(queue_ops(rps, "q_ts_start", "popleft"), "popleft on q_ts_start")
    calls = [e for e in rps.events if e.kind == "call" and e.name == "self._async_step"]
    ok = len(calls) == 1 and calls[0].args and T.mk_attr(calls[0].args[0], "seq") == T.mk_index(pop.term, T.ZERO)
    chk.add("C05.reset", "step numbering restarts with the episode: StepState.seq = the episode's tick", bool(ok),
            f"the step is called with seq = {T.show(T.mk_attr(calls[0].args[0], 'seq'))[:100] if calls and calls[0].args else None}, expected the tick popped from q_ts_start "
            "(the tick counter is reset at every episode start; a carried-over seq is not)", chk.loc(f_ps))
    sim = {S("self._clock"): T.sym("rex.constants.Clock.SIMULATED")}
    ts = T.subst(T.mk_attr(calls[0].args[0], "ts"), sim) if calls and calls[0].args else T.NONE
    chk.add("C05.reset", "step time restarts with the episode: StepState.ts = the scheduled start", ts == T.mk_index(pop.term, T.ONE),
            f"the step is called with ts = {T.show(ts)[:100]}, expected the start time popped from q_ts_start", chk.loc(f_ps))
