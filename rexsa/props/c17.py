"""C17 — parameter transforms are invertible and compose in order.

Rational normal forms for Denormalize (A7), fold order of Chain (A8), declared inverse pair exp/log, Identity,
leafwise fill rule of Extend, where/replace structure of Shared.  Not decided: the jax / equinox pytree primitives used by tree_extend /
eqx.filter, user lambdas of Shared, float rounding.
"""
from __future__ import annotations

from .. import terms as T
from ..asyncrt import mentions
from ..report import Check
from ..symeval import SymEval

S = T.sym


def _ret(model, q, **kw):
    fi = model.func(q)
    ev = SymEval(model, **kw)
    r = ev.run_function(fi)
    return fi, r


def _leafwise(t):
    """The leaf-wise reading of `tree_unflatten(treedef(x), [f(a, b) for a, b in zip(leaves(x), treedef(x).flatten_up_to(y))])`: f(x, y), as
    tree_map(f, x, y) is read (the two spellings of a map over the leaves of x with the matching entries of y)."""
    if not (t[0] == "call" and T.call_name(t) == "jax.tree_util.tree_unflatten" and len(t[2]) == 2 and t[2][1][0] == "comp" and t[2][1][1] == "list" and len(t[2][1][3]) == 1 and not t[2][1][4]):
        return t
    comp = t[2][1]
    it = comp[3][0][1]
    cols = list(it[2]) if it[0] == "call" and it[1] == "zip" else [it]

    def tree_of(col):
        if col[0] == "index" and col[2] == T.ZERO and col[1][0] == "call" and T.call_name(col[1]) == "jax.tree_util.tree_flatten" and col[1][2]:
            return col[1][2][0]
        if col[0] == "call" and (T.call_name(col).endswith(".flatten_up_to") or T.call_name(col) == "jax.tree_util.tree_leaves") and len(col[2]) == 1:
            return col[2][0]
        return None
    trees = [tree_of(c) for c in cols]
    els = [x for x in T.walk(comp[2]) if x[0] == "elem" and x[1] == it]
    if not els or any(tr is None for tr in trees):
        return t
    el = els[0]
    m = {T.mk_index(el, T.const(i)): tr for i, tr in enumerate(trees)} if len(cols) > 1 else {el: trees[0]}
    return T.subst(comp[2], m)


def run(chk: Check, model):
    chk.rule("C17.denorm", "Denormalize (A7, rational normal forms): offset = (min + max)/2, scale = (max - min)/2; normalize(denormalize(x)) == x and "
                           "denormalize(normalize(y)) == y as identities; denormalize(-1) == min, denormalize(+1) == max; the coefficient of x is scale; apply/inv dispatch")
    chk.rule("C17.chain", "Chain (A8): apply folds t.apply over the members first-to-last, inv folds t.inv over the reversed sequence, both starting from the argument")
    chk.rule("C17.pairs", "Exponential maps through exp / log (declared inverse pair); Identity returns its argument; Shared replaces `where` with replace_fn(params) / inverse_fn(params); "
                          "Extend takes the base leaf exactly where the supplied leaf is None")
    # ---------------------------------------------------------------- Denormalize
    fi, r = _ret(model, "base.Denormalize.init")
    chk.used(fi.qualname)
    ret = r.ret
    mn, mx = S("min_params"), S("max_params")
    ok = ret[0] == "obj" and ret[1] == "Denormalize"
    f = dict(ret[2]) if ok else {}
    half = T.const(T.F(1, 2))
    chk.add("C17.denorm", "offset = (min + max) / 2", f.get("offset") == T.mul(half, T.add(mn, mx)), f"offset = {T.show(f.get('offset', T.NONE))[:100]}", chk.loc(fi))
    chk.add("C17.denorm", "scale = (max - min) / 2", f.get("scale") == T.mul(half, T.sub(mx, mn)), f"scale = {T.show(f.get('scale', T.NONE))[:100]}", chk.loc(fi))
    zero = [e for e in r.events if e.kind == "raise"]
    chk.add("C17.denorm", "zero scale is rejected", len(zero) >= 1, "Denormalize.init must raise for a zero scale (min == max)", chk.loc(fi))
    # (the arithmetic lives in normalize / denormalize and apply / inv call them, or the other way round: each pair is read with the other inlined)
    pair = ("apply", "inv", "normalize", "denormalize")
    f_n, rn = _ret(model, "base.Denormalize.normalize", inline=pair)
    f_d, rd = _ret(model, "base.Denormalize.denormalize", inline=pair)
    norm, den = rn.ret, rd.ret
    x = S("x")
    p = S("params")
    nd = T.subst(norm, {p: T.subst(den, {p: x})})
    dn = T.subst(den, {p: T.subst(norm, {p: x})})
    chk.add("C17.denorm", "normalize(denormalize(x)) == x", nd == x, f"normalize(denormalize(x)) = {T.show(nd)[:160]} (normalize = {T.show(norm)[:80]}, denormalize = {T.show(den)[:80]})", chk.loc(f_n))
    chk.add("C17.denorm", "denormalize(normalize(y)) == y", dn == x, f"denormalize(normalize(y)) = {T.show(dn)[:160]}", chk.loc(f_d))
    vals = {S("self.scale"): f.get("scale", S("?")), S("self.offset"): f.get("offset", S("?"))}
    lo = T.subst(T.subst(den, {p: T.const(-1)}), vals)
    hi = T.subst(T.subst(den, {p: T.ONE}), vals)
    chk.add("C17.denorm", "denormalize(-1) == min", lo == mn, f"denormalize(-1) = {T.show(lo)[:100]}", chk.loc(f_d))
    chk.add("C17.denorm", "denormalize(+1) == max", hi == mx, f"denormalize(+1) = {T.show(hi)[:100]}", chk.loc(f_d))
    chk.add("C17.denorm", "denormalize is x * scale + offset (monotone for min < max)", den == T.add(T.mul(p, S("self.scale")), S("self.offset")), f"denormalize = {T.show(den)[:120]}", chk.loc(f_d))
    for name, tgt in (("apply", "denormalize"), ("inv", "normalize")):
        fa, ra = _ret(model, f"base.Denormalize.{name}", inline=pair)
        chk.add("C17.denorm", f"{name} dispatches to {tgt}", ra.ret == (den if tgt == "denormalize" else norm),
                f"Denormalize.{name} computes {T.show(ra.ret)[:100]}, expected what {tgt} computes", chk.loc(fa))
    # ---------------------------------------------------------------- Chain
    for name, rev in (("apply", False), ("inv", True)):
        fc, rc = _ret(model, f"base.Chain.{name}")
        chk.used(fc.qualname)
        loops = [l for l in rc.loops.values() if l.kind == "for"]
        ok = len(loops) == 1
        if ok:
            l = loops[0]
            tr = S("self.transforms")
            fwd = [tr, T.mk_call("list", [tr]), T.mk_call("tuple", [tr])]
            bwd = [("slice", t_, None, None, T.const(-1)) for t_ in fwd] + [T.mk_call("reversed", [t_]) for t_ in fwd]
            carried = list(l.env_in.items())
            ok = l.iter in (bwd if rev else fwd) and len(carried) == 1
            if ok:
                nme, sym_in = carried[0]
                el = ("elem", l.iter, l.uid)
                body = l.env_out.get(nme)
                ok = body is not None and body[0] == "call" and body[1] == ("attr", el, name) and body[2] == (sym_in,) and l.pre.get(nme) == p \
                    and rc.ret == S(f"loopout{l.uid}:{nme}") and l.live_out == T.TRUE
                if not ok and l.pre.get(nme) == ("list", (p,)):
                    # the intermediate results kept in a list: stages = [params]; each member is applied to the last stage and its result
                    # appended (once per member, nothing else touches the list); the result is the last stage
                    last = T.mk_index(sym_in, T.const(-1))
                    apps = [e for e in rc.events if e.kind == "call" and e.recv == sym_in]
                    calls = [e for e in rc.events if e.kind == "call" and e.loops == (l.uid,) and isinstance(e.term[1], tuple) and e.term[1] == ("attr", el, name)]
                    ok = len(apps) == 1 and apps[0].name.endswith(".append") and apps[0].guard == T.TRUE and apps[0].loops == (l.uid,) and len(calls) == 1 and calls[0].args == (last,) \
                        and apps[0].args == (calls[0].term,) and rc.ret == T.mk_index(S(f"loopout{l.uid}:{nme}"), T.const(-1)) and l.live_out == T.TRUE
        chk.add("C17.chain", f"Chain.{name}: {'last-to-first' if rev else 'first-to-last'} fold of t.{name}", bool(ok),
                f"Chain.{name} must be `x = params; for t in self.transforms{'[::-1]' if rev else ''}: x = t.{name}(x); return x` with no other member handling", chk.loc(fc))
    fci, rci = _ret(model, "base.Chain.init")
    ok = rci.ret[0] == "obj" and dict(rci.ret[2]).get("transforms") == S("*transforms")
    chk.add("C17.chain", "Chain.init keeps the members in the given order", ok, f"Chain.init returns {T.show(rci.ret)[:100]}", chk.loc(fci))
    # ---------------------------------------------------------------- pairs
    fe, re_ = _ret(model, "base.Exponential.apply")
    fl, rl = _ret(model, "base.Exponential.inv")
    chk.add("C17.pairs", "Exponential.apply == exp", re_.ret == T.mk_call("jax.numpy.exp", [p]), f"apply = {T.show(re_.ret)[:80]}", chk.loc(fe))
    chk.add("C17.pairs", "Exponential.inv == log", rl.ret == T.mk_call("jax.numpy.log", [p]), f"inv = {T.show(rl.ret)[:80]}", chk.loc(fl))
    for name in ("apply", "inv"):
        fi_, ri = _ret(model, f"base.Identity.{name}")
        chk.add("C17.pairs", f"Identity.{name} returns its argument", ri.ret == p, f"Identity.{name} = {T.show(ri.ret)[:80]}", chk.loc(fi_))
    for name, fn in (("apply", "replace_fn"), ("inv", "inverse_fn")):
        fs, rs = _ret(model, f"base.Shared.{name}")
        ret = rs.ret
        ok = ret[0] == "call" and T.call_name(ret) == "equinox.tree_at" and len(ret[2]) == 3 and ret[2][0] == S("self.where") and ret[2][1] == p \
            and ret[2][2][0] == "call" and T.call_name(ret[2][2]) == f"self.{fn}" and ret[2][2][2] == (p,)
        chk.add("C17.pairs", f"Shared.{name}", ok, f"Shared.{name} = {T.show(ret)[:140]}, expected eqx.tree_at(self.where, params, self.{fn}(params), ...)", chk.loc(fs))
    # Shared.init keeps the three functions it is given; without an inverse, inv puts None back at `where` (what the shared values were
    # before apply: one None for the selected node, whatever it is)
    fsi, rsi = _ret(model, "base.Shared.init")
    okf = rsi.ret[0] == "obj" and rsi.ret[1] == "Shared" and all(dict(rsi.ret[2]).get(k) == S(k) for k in ("where", "replace_fn", "inverse_fn"))
    a_ = fsi.node.args
    dflt = dict(zip([x.arg for x in a_.args][len(a_.args) - len(a_.defaults):], a_.defaults)).get("inverse_fn")
    import ast as _ast
    okd = isinstance(dflt, _ast.Lambda) and len(dflt.args.args) == 1 and isinstance(dflt.body, _ast.Constant) and dflt.body.value is None
    chk.add("C17.pairs", "Shared.init keeps where / replace_fn / inverse_fn; the default inverse returns None", bool(okf and okd),
            f"Shared.init returns {T.show(rsi.ret)[:160]} with default inverse_fn = {_ast.unparse(dflt) if dflt is not None else None}; expected the given functions, default `lambda tree: None`", chk.loc(fsi))
    fx, rx = _ret(model, "base.Extend.extend")
    ext = T.mk_call("rex.jax_utils.tree_extend", [S("self.base_params"), p])
    want = T.mk_ite(T.eq(ext, T.NONE, numeric=False), S("self.base_params"), ext)
    chk.add("C17.pairs", "Extend.extend: base leaf exactly where the supplied leaf is None", _leafwise(rx.ret) == want, f"extend = {T.show(rx.ret)[:200]}, expected leafwise (base if supplied is None else supplied) "
            "over tree_extend(base, params)", chk.loc(fx))
    # structure of the pytree surgery (what is flattened with which treedef; the jax / equinox primitives themselves are H5)
    ft, rt = _ret(model, "jax_utils.tree_extend")
    tdef = T.mk_index(T.mk_call("jax.tree_util.tree_flatten", [S("tree_template")], [("is_leaf", S("is_leaf"))]), T.ONE)
    want = T.mk_call("jax.tree_util.tree_unflatten", [tdef, T.mk_call("jax._src.api_util.flatten_axes", [T.const("tree_match"), tdef, S("tree")])])
    got = rt.ret
    if got[0] == "call" and len(got[2]) == 2 and got[2][1][0] == "call":  # ignore the call uid of flatten_axes
        inner = got[2][1]
        got = ("call", got[1], (got[2][0], ("call", inner[1], inner[2], inner[3], None)), got[3], None)
    chk.add("C17.pairs", "tree_extend: the partial tree is flattened against, and rebuilt with, the template's tree definition", got == want,
            f"tree_extend = {T.show(rt.ret)[:240]}", chk.loc(ft))
    ff, rf = _ret(model, "base.Extend.filter")
    mask_ex = T.mk_call("rex.jax_utils.tree_extend", [S("self.base_params"), S("self.mask")])
    want = T.mk_call("jax.tree_util.tree_unflatten", [T.mk_index(T.mk_call("jax.tree_util.tree_flatten", [S("self.mask")]), T.ONE),
                                                      T.mk_index(T.mk_call("jax.tree_util.tree_flatten", [T.mk_call("equinox.filter", [S("params_extended"), mask_ex])]), T.ZERO)])
    chk.add("C17.pairs", "Extend.filter: keeps the leaves selected by the mask (extended to the base structure) and rebuilds the mask's structure", rf.ret == want,
            f"filter = {T.show(rf.ret)[:240]}", chk.loc(ff))
    fn_, rn = _ret(model, "base.Extend.init")
    ok = rn.ret[0] == "obj" and dict(rn.ret[2]).get("base_params") == S("base_params") and dict(rn.ret[2]).get("mask") == T.mk_not(T.eq(S("opt_params"), T.NONE, numeric=False))
    chk.add("C17.pairs", "Extend.init: mask marks exactly the supplied (non-None) leaves", bool(ok), f"init = {T.show(rn.ret)[:160]}", chk.loc(fn_))
    for name, tgt in (("apply", "extend"), ("inv", "filter")):
        fa, ra = _ret(model, f"base.Extend.{name}")
        chk.add("C17.pairs", f"Extend.{name} dispatches to {tgt}", T.call_name(ra.ret) == f"self.{tgt}" and ra.ret[2] == (p,), f"Extend.{name} = {T.show(ra.ret)[:80]}", chk.loc(fa))
