"""C19 — RL environment wrappers account episodes, actions and statistics correctly.

Provenance of Environment.step and of the auto-reset pass-through (A4), closed forms of the log wrapper for done in {0, 1}
(A7), squash/unsquash as mutual inverses and in bounds (A7, declared inverse pair tanh/arctanh), agreement of the three
running-moment clones with Chan's parallel formula (A9/A7).  Not decided: numerical equality with a batch mean/variance.
"""
from __future__ import annotations

from .. import flow
from .. import terms as T
from ..asyncrt import mentions
from ..report import Check
from ..symeval import SymEval

S = T.sym


def _owner(model, q, fi):
    """the class a method is asked for, when the method itself now lives in a base class of it"""
    owner = q.rsplit(".", 1)[0]
    return owner if owner in model.classes and owner != fi.cls and fi.parent is None else None


def _r(model, q):
    fi = model.func(q)
    return fi, SymEval(model).run_function(fi, as_class=_owner(model, q, fi))


def normalize_expansion(model, recv, x, clip: bool, subtract_mean: bool):
    """What `recv.normalize(x, clip=, subtract_mean=)` computes, written out: NormalizeVec.normalize evaluated under the two flags
    with self and x substituted (a call site that spells the arithmetic out has exactly this value)."""
    _, r = _r(model, "rl.NormalizeVec.normalize")
    t = T.assume(T.assume(r.ret, S("clip"), clip), S("subtract_mean"), subtract_mean)
    return T.subst(t, {S("self"): recv, S("x"): x})


def _cancel_tanh(t):
    """Declared inverse pairs: tanh(arctanh(z)) == z and arctanh(tanh(y)) == y."""
    for _ in range(4):
        m = {}
        for x in T.walk(t):
            if x[0] == "call" and len(x[2]) == 1 and x[2][0][0] == "call" and len(x[2][0][2]) == 1:
                a, b = T.call_name(x), T.call_name(x[2][0])
                if {a, b} == {"jax.numpy.tanh", "jax.numpy.arctanh"}:
                    m[x] = x[2][0][2][0]
        if not m:
            return t
        t = T.subst(t, m)
    return t


def chan(old_mean, old_var, old_count, bm, bv, bn):
    delta = T.sub(bm, old_mean)
    tot = T.add(old_count, bn)
    new_mean = T.add(old_mean, T.div(T.mul(delta, bn), tot))
    m2 = T.add(T.add(T.mul(old_var, old_count), T.mul(bv, bn)), T.div(T.mul(T.mul(T.mul(delta, delta), old_count), bn), tot))
    return new_mean, T.div(m2, tot), tot


def _stored(r, it, key, new_term, returned) -> bool:
    """The returned graph state is <state returned by the wrapped env>.replace_aux({key: new}) (or the same spelled
    .replace(aux=<that state>.aux.copy({key: new})))."""
    inner_gs = T.mk_index(it, T.ZERO)
    want = ("dict", ((T.const(key), new_term),))
    for e in r.events:
        if e.kind != "call" or e.term != returned:
            continue
        if e.name.endswith(".replace_aux") and e.args and e.args[0] == want and e.recv == inner_gs:
            return True
        if e.name.endswith(".replace") and e.recv == inner_gs and not e.args and len(e.kwargs) == 1 and e.kwargs[0][0] == "aux":
            a = e.kwargs[0][1]
            if a[0] == "call" and a[2] == (want,) and not a[3] and isinstance(a[1], tuple) and a[1] == T.mk_attr(T.mk_attr(inner_gs, "aux"), "copy"):
                return True
    return False


def run(chk: Check, model):
    chk.rule("C19.env", "Environment.step dataflow (A4): action -> get_output -> third argument of graph.step; second argument is the supervisor's step state of the pre-step "
                        "graph state; reward / truncated / terminated from the stepped state; observation and info from the post-step state; returned in gym order")
    chk.rule("C19.autoreset", "auto-reset pass-through (A4): reward, terminated, truncated come straight from the inner step; graph state, observation and info are the "
                              "inner ones unless done = terminated or truncated, then the stored (or freshly drawn) initial ones with the current aux")
    chk.rule("C19.log", "LogWrapper closed form (A7) for done in {0, 1}: done=1: returns' = 0, lengths' = 0, returned_returns' = returns + reward, returned_lengths' = lengths + 1; "
                        "done=0: returns' = returns + reward, lengths' = lengths + 1, returned_* unchanged; timestep' = timestep + 1; done = terminated or truncated")
    chk.rule("C19.squash", "squash (A7): unsquash(scale(x)) == x and scale(unsquash(y)) == y (tanh/arctanh inverse pair); unsquash(y) = low + (tanh y + 1)/2 (high - low); "
                           "without squashing and in ClipActionWrapper the action passes clip(., low, high); the wrappers hand the transformed action to the inner step")
    chk.rule("C19.moments", "running moments (A9/A7): the three copies of the batch update equal Chan's parallel formula with batch statistics jnp.mean / jnp.var over axis 0 and "
                            "batch count = number of environments; the normalised value uses the updated state; the return estimate uses gamma * (1 - done)")
    # ---------------------------------------------------------------- Environment.init
    f_in = model.func("rl.Environment.init")
    chk.used(f_in.qualname)
    r_in = SymEval(model).run_function(f_in)
    inits = [e for e in r_in.events if e.kind == "call" and e.name == "self.graph.init"]
    resets = [e for e in r_in.events if e.kind == "call" and e.name == "self.graph.reset"]
    oi = S("self.only_init")
    # without graph.reset() the first partition has not run: the graph must be initialised *at* step 1, otherwise the first env.step is
    # taken for the "before the first partition" case and drops the action
    def _start_of(e):
        return dict(e.kwargs).get("starting_step", T.NONE)
    ok, detail, settings = True, [], []
    for val, want_start in ((True, 1), (False, 0)):
        live = [e for e in inits if T.assume(e.guard, oi, val) != T.FALSE]
        rlive = [e for e in resets if T.assume(e.guard, oi, val) != T.FALSE]
        if len(live) != 1:
            ok = False
            detail.append(f"only_init={val}: {len(live)} graph.init call(s)")
            continue
        st = T.assume(_start_of(live[0]), oi, val)
        detail.append(f"only_init={val}: starting_step={T.show(st)}, {len(rlive)} graph.reset call(s)")
        ok = ok and T.const_value(st) == want_start and len(rlive) == (0 if val else 1) and (val or (rlive[0].args and T.assume(rlive[0].args[0], oi, val) == T.assume(live[0].term, oi, val)))
        settings.append(({k: T.assume(v, oi, val) for k, v in live[0].kwargs if k != "starting_step"}, tuple(T.assume(a_, oi, val) for a_ in live[0].args)))
    chk.add("C19.env", "init: only_init starts at step 1, otherwise init at step 0 followed by graph.reset", bool(ok), "; ".join(detail), chk.loc(f_in))
    same = len(settings) == 2 and settings[0] == settings[1]
    chk.add("C19.env", "init: both modes initialise the graph with the same settings", bool(same), "params / starting_eps / randomize_eps / order / rng must be passed identically in both modes", chk.loc(f_in))
    # ---------------------------------------------------------------- Environment.step
    fi, r = _r(model, "rl.Environment.step")
    chk.used(fi.qualname)
    ret = r.ret
    gs, act = S("graph_state"), S("action")
    calls = {e.name: e for e in r.events if e.kind == "call" and e.name.startswith("self.")}
    need = ["self.get_output", "self.update_graph_state_pre_step", "self.graph.step", "self.get_reward", "self.get_truncated", "self.get_terminated", "self.update_graph_state_post_step",
            "self.get_info", "self.get_observation", "self.get_step_state"]
    if not all(n in calls for n in need) or ret[0] != "tuple" or len(ret[1]) != 6:
        chk.add("C19.env", "step structure", False, f"Environment.step lacks one of {need} or does not return a 6-tuple", chk.loc(fi))
    else:
        out, pre, stp = calls["self.get_output"], calls["self.update_graph_state_pre_step"], calls["self.graph.step"]
        chk.add("C19.env", "output from the action", out.args == (gs, act), f"get_output{tuple(T.show(a) for a in out.args)}", chk.loc(fi, out.node))
        chk.add("C19.env", "pre-step update", pre.args == (gs, act), f"update_graph_state_pre_step{tuple(T.show(a) for a in pre.args)}", chk.loc(fi, pre.node))
        ok = len(stp.args) == 3 and stp.args[0] == pre.term and stp.args[1] == calls["self.get_step_state"].term and calls["self.get_step_state"].args == (pre.term,) and stp.args[2] == out.term
        chk.add("C19.env", "graph.step(pre-step state, its supervisor step state, output)", ok, f"graph.step gets {[T.show(a)[:60] for a in stp.args]}", chk.loc(fi, stp.node))
        gs_step = T.mk_index(stp.term, T.ZERO)
        rew, tru, ter, post = calls["self.get_reward"], calls["self.get_truncated"], calls["self.get_terminated"], calls["self.update_graph_state_post_step"]
        ok = rew.args == (gs_step, act) and tru.args == (gs_step,) and ter.args == (gs_step,) and post.args == (gs_step, act)
        chk.add("C19.env", "reward / flags / post-step update from the stepped state", ok, "get_reward, get_truncated, get_terminated, update_graph_state_post_step must take the stepped graph state", chk.loc(fi))
        ok = calls["self.get_info"].args == (post.term, act) and calls["self.get_observation"].args == (post.term,)
        chk.add("C19.env", "observation and info from the post-step state", ok, "get_info / get_observation must take the post-step graph state", chk.loc(fi))
        want = ("tuple", (post.term, calls["self.get_observation"].term, rew.term, ter.term, tru.term, calls["self.get_info"].term))
        chk.add("C19.env", "return order (state, obs, reward, terminated, truncated, info)", ret == want, f"step returns {T.show(ret)[:200]}", chk.loc(fi))
    fi2, r2 = _r(model, "rl.Environment.get_step_state")
    name = T.mk_ite(T.eq(S("name"), T.NONE, numeric=False), S("self.graph.supervisor.name"), S("name"))
    rcv = r2.ret[1][1] if r2.ret[0] == "call" and isinstance(r2.ret[1], tuple) and r2.ret[1][0] == "attr" else T.NONE
    ok = r2.ret[0] == "call" and T.call_name(r2.ret).endswith(".get") and r2.ret[2][0] == name and (rcv == ("obj", "_StepStateDict", (("graph_state", S("graph_state")),)) or rcv == S("graph_state.step_state"))
    chk.add("C19.env", "get_step_state defaults to the supervisor", ok, f"get_step_state returns {T.show(r2.ret)[:140]}", chk.loc(fi2))
    # ---------------------------------------------------------------- AutoResetWrapper
    fi, r = _r(model, "rl.AutoResetWrapper.step")
    chk.used(fi.qualname)
    ret = r.ret
    inner = [e for e in r.events if e.kind == "call" and e.name == "self._env.step"]
    if len(inner) != 1 or ret[0] != "tuple" or len(ret[1]) != 6:
        chk.add("C19.autoreset", "structure", False, "AutoResetWrapper.step must call the inner step once and return a 6-tuple", chk.loc(fi))
    else:
        it = inner[0].term
        I = [T.mk_index(it, T.const(i)) for i in range(6)]
        chk.add("C19.autoreset", "inner step gets the unmodified arguments", inner[0].args == (S("graph_state"), S("action")), f"inner step gets {[T.show(a) for a in inner[0].args]}", chk.loc(fi))
        for pos, nm in ((2, "reward"), (3, "terminated"), (4, "truncated")):
            chk.add("C19.autoreset", f"{nm} passes through", ret[1][pos] == I[pos], f"returned {nm} = {T.show(ret[1][pos])[:120]}, expected the inner step's", chk.loc(fi))
        done = T.mk_or([I[3], I[4]])
        fixed = S("self.fixed_init")
        for pos, nm in ((0, "graph state"), (1, "observation"), (5, "info")):
            v = T.assume(ret[1][pos], fixed, True)
            nd = T.assume(v, done, False)
            chk.add("C19.autoreset", f"{nm}: unchanged while not done", nd == I[pos], f"not done: {nm} = {T.show(nd)[:140]}, expected the inner step's", chk.loc(fi))
            d = T.assume(v, done, True)
            init = T.mk_index(T.mk_attr(I[0], "aux"), T.const("init"))
            if pos == 0:
                want = T.mk_replace(T.mk_attr(init, "graph_state"), (("rng", T.mk_attr(I[0], "rng")), ("aux", T.mk_attr(I[0], "aux"))))
            else:
                want = T.mk_attr(init, "obs" if pos == 1 else "info")
            chk.add("C19.autoreset", f"{nm}: stored initial one when done", d == want, f"done: {nm} = {T.show(d)[:160]}, expected {T.show(want)[:120]}", chk.loc(fi))
            chk.add("C19.autoreset", f"{nm}: selected by terminated or truncated", T.assume(T.assume(v, I[3], True), I[4], False) == d and T.assume(T.assume(v, I[3], False), I[4], True) == d,
                    f"{nm} must switch on terminated OR truncated", chk.loc(fi))
        # fresh reset branch: the inner environment is reset with a key split from the state's rng
        resets = [e for e in r.events if e.kind == "call" and e.name == "self._env.reset"]
        ok = len(resets) == 1 and T.assume(resets[0].guard, fixed, False) != T.FALSE and resets[0].args and mentions(resets[0].args[0], "split")
        chk.add("C19.autoreset", "non-fixed init draws a fresh initial state from a split key", ok, "with fixed_init=False the wrapper must call self._env.reset(rng_init) with rng_init from jax.random.split(gs.rng[name])", chk.loc(fi))
    fi, r = _r(model, "rl.AutoResetWrapper.reset")
    ret = T.assume(r.ret, S("self.fixed_init"), True)
    inner = [e for e in r.events if e.kind == "call" and e.name == "self._env.reset"]
    ok = len(inner) == 1 and ret[0] == "tuple"
    if ok:
        it = inner[0].term
        aux = [e for e in r.events if e.kind == "call" and e.name.endswith(".replace_aux")]
        want_init = ("obj", "InitialState", (("graph_state", T.mk_index(it, T.ZERO)), ("obs", T.mk_index(it, T.ONE)), ("info", T.mk_index(it, T.const(2)))))
        ok = len(aux) == 1 and aux[0].args[0] == ("dict", ((T.const("init"), want_init),)) and ret[1][0] == aux[0].term and ret[1][1] == T.mk_index(it, T.ONE)
    chk.add("C19.autoreset", "reset stores (graph state, obs, info) as the initial state", bool(ok), "reset must store InitialState(gs, obs, info) under aux['init'] when fixed_init", chk.loc(fi))
    # ---------------------------------------------------------------- LogWrapper
    fi, r = _r(model, "rl.LogWrapper.step")
    chk.used(fi.qualname)
    ret = r.ret
    inner = [e for e in r.events if e.kind == "call" and e.name == "self._env.step"]
    aux = [e for e in r.events if e.kind == "call" and e.name.endswith(".replace_aux")]
    if len(inner) != 1 or len(aux) != 1 or ret[0] != "tuple":
        chk.add("C19.log", "structure", False, "LogWrapper.step must call the inner step once and store the log state once", chk.loc(fi))
    else:
        it = inner[0].term
        I = [T.mk_index(it, T.const(i)) for i in range(6)]
        done = T.mk_or([I[3], I[4]])
        log = T.mk_index(T.mk_attr(I[0], "aux"), T.const("log"))
        new = aux[0].args[0][1][0][1] if aux[0].args[0][0] == "dict" else T.NONE
        f = dict(new[2]) if new[0] == "replace" and new[1] == log else {}
        if new[0] == "obj" and new[1] == "LogState" and {k for k, _ in new[2]} == set(model.dataclass_fields(model.cls("rl.LogState"))) \
                and any(x == log for v in dict(new[2]).values() for x in T.walk(v)):
            f = dict(new[2])  # the new log state spelled as a full construction from the old one's fields
        chk.add("C19.log", "log state read from the stepped graph state and stored back", bool(f) and aux[0].args[0][1][0][0] == T.const("log") and ret[1][0] == aux[0].term,
                "the log state must be gs.aux['log'].replace(...) stored under 'log' of the returned state", chk.loc(fi))
        used_done = [x for v in f.values() for x in T.walk(v) if x[0] == "or"]
        chk.add("C19.log", "done = terminated or truncated", bool(used_done) and all(x == done for x in used_done), f"the episode-end flag used is {[T.show(x)[:80] for x in set(used_done)]}, expected terminated or truncated "
                "for every accumulator", chk.loc(fi))
        R, Ln, RR, RL, Ts = (T.mk_attr(log, k) for k in ("episode_returns", "episode_lengths", "returned_episode_returns", "returned_episode_lengths", "timestep"))
        rew = I[2]
        closed = {1: {"episode_returns": T.ZERO, "episode_lengths": T.ZERO, "returned_episode_returns": T.add(R, rew), "returned_episode_lengths": T.add(Ln, T.ONE), "timestep": T.add(Ts, T.ONE)},
                  0: {"episode_returns": T.add(R, rew), "episode_lengths": T.add(Ln, T.ONE), "returned_episode_returns": RR, "returned_episode_lengths": RL, "timestep": T.add(Ts, T.ONE)}}
        for dv, want in closed.items():
            for k, w in want.items():
                v = f.get(k, T.NONE)
                m = {x: T.num_const(dv) for x in T.walk(v) if x[0] == "or"}
                got = T.where_to_ite(T.subst(v, m))
                chk.add("C19.log", f"done={dv}: {k}", got == w, f"with done={dv} {k}' = {T.show(got)[:140]}, expected {T.show(w)[:100]}", chk.loc(fi))
        for pos in (1, 2, 3, 4):
            chk.add("C19.log", f"position {pos} passes through", ret[1][pos] == I[pos], f"returned element {pos} = {T.show(ret[1][pos])[:100]}", chk.loc(fi))
        infos = {e.key[1]: e.term for e in r.events if e.kind == "store_sub" and e.key is not None and e.key[0] == "const"}
        ok = infos.get("returned_episode_returns") == f.get("returned_episode_returns") and infos.get("returned_episode_lengths") == f.get("returned_episode_lengths") and infos.get("returned_episode") == done
        chk.add("C19.log", "info reports the updated returned_* values and the done flag", ok, f"info entries: {sorted(infos)}", chk.loc(fi))
    fi, r = _r(model, "rl.LogWrapper.reset")
    ls = [e for e in r.events if e.kind == "call" and e.name == "new:LogState"]
    ok = len(ls) == 1 and all(T.const_value(v) == 0 for _, v in ls[0].term[2])
    chk.add("C19.log", "log state starts at zero", ok, "LogWrapper.reset must start all accumulators at 0", chk.loc(fi))
    # ---------------------------------------------------------------- squash
    f_s, rs = _r(model, "rl.SquashState.scale")
    f_u, ru = _r(model, "rl.SquashState.unsquash")
    chk.used(f_s.qualname, f_u.qualname)
    sq = S("self.squash")
    x = S("x")
    sc, un = T.assume(rs.ret, sq, True), T.assume(ru.ret, sq, True)
    lo, hi = S("self.low"), S("self.high")
    lam = T.mul(T.const(T.F(1, 2)), T.add(T.mk_call("jax.numpy.tanh", [x]), T.ONE))
    chk.add("C19.squash", "unsquash(y) = low + (tanh y + 1)/2 (high - low)", un == T.add(lo, T.mul(lam, T.sub(hi, lo))), f"unsquash = {T.show(un)[:200]}", chk.loc(f_u))
    a = _cancel_tanh(T.subst(un, {x: sc}))
    chk.add("C19.squash", "unsquash(scale(x)) == x", a == x, f"unsquash(scale(x)) = {T.show(a)[:200]}", chk.loc(f_u))
    b = _cancel_tanh(T.subst(sc, {x: un}))
    chk.add("C19.squash", "scale(unsquash(y)) == y", b == x, f"scale(unsquash(y)) = {T.show(b)[:200]}", chk.loc(f_s))
    chk.add("C19.squash", "scale without squashing is the identity", T.assume(rs.ret, sq, False) == x, f"scale (no squash) = {T.show(T.assume(rs.ret, sq, False))[:100]}", chk.loc(f_s))
    chk.add("C19.squash", "unsquash without squashing clips to [low, high]", T.assume(ru.ret, sq, False) == T.mk_call("jax.numpy.clip", [x, lo, hi]), f"unsquash (no squash) = {T.show(T.assume(ru.ret, sq, False))[:120]}", chk.loc(f_u))
    # (SquashState.unsquash is analysed inline here: clipping through a non-squashing SquashState is the same clip, decided above)
    fi = model.func("rl.ClipActionWrapper.step")
    r = SymEval(model, inline=("rl.SquashState.unsquash",)).run_function(fi, as_class=_owner(model, "rl.ClipActionWrapper.step", fi))
    ret = r.ret
    ok = ret[0] == "call" and T.call_name(ret) == "self._env.step" and len(ret[2]) == 2 and ret[2][0] == S("graph_state")
    if ok:
        a = ret[2][1]
        sp = [e for e in r.events if e.kind == "call" and e.name == "self._env.action_space"]
        ok = len(sp) == 1 and a == T.mk_call("jax.numpy.clip", [S("action"), T.mk_attr(sp[0].term, "low"), T.mk_attr(sp[0].term, "high")]) and sp[0].args == (S("graph_state"),)
    chk.add("C19.squash", "ClipActionWrapper clips to the action space and steps with the clipped action", bool(ok), f"ClipActionWrapper.step = {T.show(ret)[:160]}", chk.loc(fi))
    fi, r = _r(model, "rl.SquashActionWrapper.step")
    ret = r.ret
    sc_t = T.mk_index(S("graph_state.aux"), T.const("act_scaling"))
    ok = ret[0] == "call" and T.call_name(ret) == "self._env.step" and len(ret[2]) == 2 and ret[2][0] == S("graph_state") and ret[2][1][0] == "call" and ret[2][1][1] == ("attr", sc_t, "unsquash") \
        and ret[2][1][2] == (S("action"),)
    chk.add("C19.squash", "SquashActionWrapper steps with unsquash(action) of the stored scaling", ok, f"SquashActionWrapper.step = {T.show(ret)[:160]}", chk.loc(fi))
    fi, r = _r(model, "rl.SquashActionWrapper.reset")
    ss = [e for e in r.events if e.kind == "call" and e.name == "new:SquashState"]
    ok = len(ss) == 1
    if ok:
        f = dict(ss[0].term[2])
        sp = [e for e in r.events if e.kind == "call" and e.name == "self._env.action_space"]
        ok = len(sp) == 1 and f.get("low") == T.mk_attr(sp[0].term, "low") and f.get("high") == T.mk_attr(sp[0].term, "high") and f.get("squash") == S("self.squash")
        aux = [e for e in r.events if e.kind == "call" and e.name.endswith(".replace_aux")]
        ok = ok and len(aux) == 1 and aux[0].args[0] == ("dict", ((T.const("act_scaling"), ss[0].term),))
    chk.add("C19.squash", "scaling stored from the inner action space (low, high not swapped)", bool(ok), "reset must store SquashState(low=space.low, high=space.high, squash=self.squash) under 'act_scaling'", chk.loc(fi))
    # ---------------------------------------------------------------- running moments
    def check_clone(q, X_of, old, count_src, which):
        fi, r = _r(model, q)
        chk.used(q)
        nv = [e for e in r.events if e.kind == "call" and e.name == "new:NormalizeVec"]
        if not nv:
            chk.add("C19.moments", f"{which}: update", False, "no NormalizeVec construction", chk.loc(fi))
            return None, None, None
        new = nv[-1]
        f = dict(new.term[2])
        inner = [e for e in r.events if e.kind == "call" and e.name in ("self._env.step", "self._env.reset")]
        it = inner[0].term
        X = X_of(it, r)
        bm = T.mk_reduce(X, "mean", [("axis", T.ZERO)])
        bv = T.mk_reduce(X, "var", [("axis", T.ZERO)])
        bn = T.mk_index(T.mk_attr(count_src(it), "shape"), T.ZERO)
        om, ov, oc = old
        wm, wv, wc = chan(om, ov, oc, bm, bv, bn)
        chk.add("C19.moments", f"{which}: mean' = mean + delta n_b / n", f.get("mean") == wm, f"mean' = {T.show(f.get('mean', T.NONE))[:200]}", chk.loc(fi, new.node))
        chk.add("C19.moments", f"{which}: var' = (m_a + m_b + delta^2 n_a n_b / n) / n", f.get("var") == wv, f"var' = {T.show(f.get('var', T.NONE))[:240]} — expected Chan's formula with batch variance jnp.var(x, axis=0)", chk.loc(fi, new.node))
        chk.add("C19.moments", f"{which}: count' = n_a + n_b", f.get("count") == wc, f"count' = {T.show(f.get('count', T.NONE))[:120]}", chk.loc(fi, new.node))
        return fi, r, new

    ob_old = lambda key: (T.mk_attr(T.mk_index(S("graph_state.aux"), T.const(key)), "mean"), T.mk_attr(T.mk_index(S("graph_state.aux"), T.const(key)), "var"), T.mk_attr(T.mk_index(S("graph_state.aux"), T.const(key)), "count"))
    fi, r, new = check_clone("rl.NormalizeVecObservationWrapper.step", lambda it, r: T.mk_index(it, T.ONE), ob_old("norm_obs"), lambda it: T.mk_index(it, T.ONE), "obs step")
    if new is not None:
        ret = r.ret
        norm = [e for e in r.events if e.kind == "call" and e.name.endswith(".normalize")]
        it = [e for e in r.events if e.kind == "call" and e.name == "self._env.step"][0].term
        ok = len(norm) == 1 and norm[0].recv == new.term and norm[0].args == (T.mk_index(it, T.ONE),) and dict(norm[0].kwargs) == {"clip": T.TRUE, "subtract_mean": T.TRUE} and ret[1][1] == norm[0].term
        ok = ok or (not norm and ret[1][1] == normalize_expansion(model, new.term, T.mk_index(it, T.ONE), True, True))
        chk.add("C19.moments", "obs step: normalised with the updated state (clip, subtract mean)", ok, "the returned observation must be new_state.normalize(obs, clip=True, subtract_mean=True)", chk.loc(fi))
        chk.add("C19.moments", "obs step: updated state stored", _stored(r, it, "norm_obs", new.term, ret[1][0]), "the updated statistics must be stored under aux['norm_obs'] of the "
                "state the wrapped environment returned, and that state handed back", chk.loc(fi))
    fi0, r0 = _r(model, "rl.NormalizeVecObservationWrapper.reset")
    nv = [e for e in r0.events if e.kind == "call" and e.name == "new:NormalizeVec"]
    if len(nv) in (1, 2):
        it = [e for e in r0.events if e.kind == "call" and e.name == "self._env.reset"][0].term
        obs = T.mk_index(it, T.ONE)
        if len(nv) == 2:
            f0 = dict(nv[0].term[2])
        else:
            # the prior kept in plain locals instead of a throw-away NormalizeVec: its mean / var are the zeros_like / ones_like
            # terms the updated state is computed from, its count the reference 1e-4 (confirmed by the equality below)
            z = sorted({x for x in T.walk(nv[0].term) if x[0] == "call" and T.call_name(x) == "jax.numpy.zeros_like"}, key=T.skey)
            o = sorted({x for x in T.walk(nv[0].term) if x[0] == "call" and T.call_name(x) == "jax.numpy.ones_like"}, key=T.skey)
            f0 = {"mean": z[0] if len(z) == 1 else T.NONE, "var": o[0] if len(o) == 1 else T.NONE, "count": T.const(T.F(1, 10000))}
            nv = [nv[0], nv[0]]
        ok = T.const_value(f0.get("count", T.NONE)) == T.F(1, 10000) and T.call_name(f0.get("mean", T.NONE)) == "jax.numpy.zeros_like" and T.call_name(f0.get("var", T.NONE)) == "jax.numpy.ones_like"
        chk.add("C19.moments", "obs reset: prior mean 0, var 1, count 1e-4", ok, f"prior = {T.show(nv[0].term)[:160]}", chk.loc(fi0))
        wm, wv, wc = chan(f0["mean"], f0["var"], f0["count"], T.mk_reduce(obs, "mean", [("axis", T.ZERO)]), T.mk_reduce(obs, "var", [("axis", T.ZERO)]), T.mk_index(T.mk_attr(obs, "shape"), T.ZERO))
        f1 = dict(nv[1].term[2])
        chk.add("C19.moments", "obs reset: same update as step", (f1.get("mean"), f1.get("var"), f1.get("count")) == (wm, wv, wc), "the reset-time update must be the same Chan update applied to the prior", chk.loc(fi0))
    else:
        chk.add("C19.moments", "obs reset: structure", False, f"expected prior and updated NormalizeVec in reset, found {len(nv)}", chk.loc(fi0))

    def ret_val(it, r):
        old = T.mk_index(S("graph_state.aux"), T.const("norm_reward"))
        done = T.mk_or([T.mk_index(it, T.const(3)), T.mk_index(it, T.const(4))])
        return T.add(T.mul(T.mul(T.mk_attr(old, "return_val"), S("self.gamma")), T.sub(T.ONE, done)), T.mk_index(it, T.const(2)))
    fi, r, new = check_clone("rl.NormalizeVecReward.step", ret_val, ob_old("norm_reward"), lambda it: T.mk_index(it, T.ONE), "reward step")
    if new is not None:
        it = [e for e in r.events if e.kind == "call" and e.name == "self._env.step"][0].term
        f = dict(new.term[2])
        chk.add("C19.moments", "reward step: updated state stored", _stored(r, it, "norm_reward", new.term, r.ret[1][0] if r.ret[0] == "tuple" and r.ret[1] else T.NONE),
                "the updated statistics must be stored under aux['norm_reward'] of the state the wrapped environment returned (not of the incoming state: the inner "
                "wrappers' own aux updates of this step would be lost), and that state handed back", chk.loc(fi))
        chk.add("C19.moments", "reward step: return estimate = old * gamma * (1 - done) + reward", f.get("return_val") == ret_val(it, r), f"return_val' = {T.show(f.get('return_val', T.NONE))[:200]}", chk.loc(fi))
        norm = [e for e in r.events if e.kind == "call" and e.name.endswith(".normalize")]
        ok = len(norm) == 1 and norm[0].recv == new.term and norm[0].args == (T.mk_index(it, T.const(2)),) and dict(norm[0].kwargs) == {"clip": T.TRUE, "subtract_mean": T.FALSE} and r.ret[1][2] == norm[0].term
        ok = ok or (not norm and r.ret[1][2] == normalize_expansion(model, new.term, T.mk_index(it, T.const(2)), True, False))
        chk.add("C19.moments", "reward step: reward scaled with the updated state (clip, no mean subtraction)", ok, "the returned reward must be new_state.normalize(reward, clip=True, subtract_mean=False)", chk.loc(fi))
    # the reward statistics start at the bare prior: no return has been observed at reset (the zero return accumulators are not samples)
    fi_rr, r_rr = _r(model, "rl.NormalizeVecReward.reset")
    chk.used("rl.NormalizeVecReward.reset")
    nv_rr = [e for e in r_rr.events if e.kind == "call" and e.name == "new:NormalizeVec"]
    inner_rr = [e for e in r_rr.events if e.kind == "call" and e.name == "self._env.reset"]
    if len(nv_rr) == 1 and inner_rr and r_rr.ret[0] == "tuple" and r_rr.ret[1]:
        f_rr = dict(nv_rr[0].term[2])
        rv = f_rr.get("return_val", T.NONE)
        okp = T.const_value(f_rr.get("mean", T.NONE)) == 0 and T.const_value(f_rr.get("var", T.NONE)) == 1 and T.const_value(f_rr.get("count", T.NONE)) == T.F(1, 10000) \
            and T.call_name(rv) in ("jax.numpy.zeros", "jax.numpy.zeros_like")
        chk.add("C19.moments", "reward reset: bare prior (mean 0, var 1, count 1e-4), zero return accumulators", okp, f"reset stores {T.show(nv_rr[0].term)[:220]}: nothing has been "
                "observed at reset, so the statistics must start at the prior alone", chk.loc(fi_rr, nv_rr[0].node))
        chk.add("C19.moments", "reward reset: state stored", _stored(r_rr, inner_rr[0].term, "norm_reward", nv_rr[0].term, r_rr.ret[1][0]),
                "the initial statistics must be stored under aux['norm_reward'] of the state the wrapped environment returned", chk.loc(fi_rr))
    else:
        chk.unknown("C19.moments", "reward reset", f"expected one NormalizeVec construction in NormalizeVecReward.reset, found {len(nv_rr)}", chk.loc(fi_rr))
    fi, r = _r(model, "rl.NormalizeVec.normalize")
    ret = r.ret
    z = T.div(T.sub(S("x"), S("self.mean")), T.mk_call("jax.numpy.sqrt", [T.add(S("self.var"), T.const(T.F(1, 10 ** 8)))]))
    v = T.assume(T.assume(ret, S("clip"), True), S("subtract_mean"), True)
    chk.add("C19.moments", "normalize = clip((x - mean) / sqrt(var + 1e-8), -clip, clip)", v == T.mk_call("jax.numpy.clip", [z, T.neg(S("self.clip")), S("self.clip")]), f"normalize = {T.show(v)[:200]}", chk.loc(fi))
