"""C13 — recording is faithful and never changes the execution.

Same-origin provenance (A4/A5): each recorded field is the value handed to / returned by the very step call;
non-interference (A12): nothing derived from record settings or record state reaches step inputs, outputs,
buffers, queues or scheduling; -1 rows and no-op write-back at the index that was read (A3/A4); truncation.
"""
from __future__ import annotations

import ast

from .. import flow
from .. import terms as T
from ..asyncflow import AsyncView
from ..asyncrt import CLOCK, SIMULATED, WALL, mentions, one, queue_of, queue_ops
from ..compiled import CompiledView, slot_elem
from ..report import AnalysisError, Check
from ..symeval import SymEval

S = T.sym
REC_SOURCES = ("_record_setting", "record_setting", "_max_records", "max_records", "_record_steps", "_discarded", "self._record", "_record_messages")


def _rec_tainted(t):
    if t is None:
        return None
    for x in T.walk(t):
        if x[0] == "sym" and any(s in x[1] for s in REC_SOURCES):
            return x[1]
    return None


def _flags(t, value: bool):
    """Specialise the record-setting selectors self._record_setting[...] to `value`."""
    for _ in range(3):
        conds = [x[1] for x in T.walk(t) if x[0] == "ite" and x[1][0] == "index" and mentions(x[1][1], "_record_setting")]
        if not conds:
            break
        for c in conds:
            t = T.assume(t, c, value)
    return t


def _no_isinstance(t, value=False):
    for _ in range(3):
        conds = [a for x in T.walk(t) if x[0] == "ite" for a in T.walk(x[1]) if a[0] == "call" and a[1] == "isinstance"]
        if not conds:
            break
        for c in conds:
            t = T.assume(t, c, value)
    return t


def rule_settings(chk: Check, view: AsyncView):
    """set_record_settings: a value that is given (True *or* False) replaces the setting, None keeps it -- otherwise a part of the
    recording that was switched off stays on."""
    key = "node.set_record_settings"
    r = view.results.get(key)
    if r is None:
        chk.unknown("C13.origin", "record settings", "node.set_record_settings not found")
        return
    fi = view.fi(key)
    chk.used(fi.qualname)
    table = T.mk_attr(S("self"), "_record_setting")
    n = 0
    for e in r.events:
        if e.kind == "store_sub" and e.name == "self._record_setting" and e.key is not None and e.key[0] == "const" and e.key[1] in ("params", "rng", "inputs", "state", "output"):
            k = e.key[1]
            n += 1
            want = T.mk_ite(T.eq(S(k), T.NONE, numeric=False), T.mk_index(table, e.key), S(k))
            chk.add("C13.origin", f"setting {k}: a given value replaces it", (e.term == want and e.guard == T.TRUE) or (e.term == S(k) and e.guard == T.mk_not(T.eq(S(k), T.NONE, numeric=False))),
                    f"self._record_setting[{k!r}] = {T.show(e.term)[:120]}, expected the argument `{k}` whenever it is not None (False switches that part off)", chk.loc(fi, e.node))
        if e.kind == "call" and e.name == "self._record_setting.update" and len(e.args) == 1:
            a = e.args[0]
            if a[0] == "comp" and a[1] == "dict" and a[2][0] == "tuple":
                val = a[2][1][1]
                ok = len(a[4]) == 1 and a[4][0] == T.mk_not(T.eq(val, T.NONE, numeric=False)) and e.guard == T.TRUE
                n += 5 if ok else 0
                chk.add("C13.origin", "settings: a given value replaces them", ok, f"self._record_setting.update({T.show(a)[:140]}): the filter must keep every value that is "
                        "not None (False switches that part off)", chk.loc(fi, e.node))
                n = max(n, 5)
    chk.floor("C13.origin", "record settings assigned", n, 5)


def async_part(chk: Check, view: AsyncView):
    rule_settings(chk, view)
    r = view.results["node.push_step"]
    fi = view.fi("node.push_step")
    chk.used(fi.qualname)
    pop = one(queue_ops(r, "q_ts_start", "popleft"), "popleft on q_ts_start")
    p = [T.mk_index(pop.term, T.const(i)) for i in range(4)]
    steps = [e for e in r.events if e.kind == "call" and e.name == "self._async_step"]
    if len(steps) != 1:
        raise AnalysisError("push_step does not call _async_step exactly once")
    call = steps[0]
    arg = call.args[0]
    apps = [e for e in r.events if e.kind == "call" and e.name == "self._record_steps.append"]
    chk.floor("C13.origin", "record appends in push_step", len(apps), 1)
    def _regular(e):
        # the append also happens for an ordinary step: its guard stays satisfiable when the tests on `skipped_steps` fail
        g = e.guard
        for a in [a for a in flow.bool_atoms(g, []) if mentions(a, "skipped_steps")]:
            g = T.assume(g, a, False)
        return g
    normal = [e for e in apps if _regular(e) != T.FALSE]
    if len(normal) != 1:
        chk.unknown("C13.origin", "async record", f"expected one regular record append in push_step, found {len(normal)}", chk.loc(fi))
        return
    app = normal[0]
    loc = chk.loc(fi, app.node)
    # a row appended for a step that was skipped (the supervisor's pending step at stop / reset) carries no output of its own:
    # every output leaf is None (get_record drops it); it must not be filled from another step
    for e in [x for x in apps if x is not app or mentions(x.guard, "skipped_steps")]:
        rs = _no_isinstance(e.args[0], True)
        outv = dict(rs[2]).get("output") if rs[0] == "replace" else None
        ok_sk = outv == T.NONE  # tree_map(lambda x: None, <template>) is None on every leaf
        chk.add("C13.rows", "row of a skipped step carries no output", bool(ok_sk), f"the row appended for a skipped supervisor step gets output = {T.show(outv)[:120] if outv else None}, "
                "expected an all-None tree (a never-executed step must not show an output)", chk.loc(fi, e.node))
    rec0 = _no_isinstance(T.assume(app.args[0], _regular(app), True) if _regular(app) not in (T.TRUE, T.FALSE) else app.args[0], False)
    for clock, cterm in (("SIMULATED", SIMULATED), ("WALL_CLOCK", WALL)):
        rec = T.subst(rec0, {CLOCK: cterm})
        if rec[0] != "replace" or rec[1] != p[3]:
            chk.add("C13.origin", f"async[{clock}] record object", False, f"the appended record is {T.show(rec)[:200]}, expected the record queued with this tick, updated", loc)
            continue
        f_on = dict(_flags(rec, True)[2])
        f_off = dict(_flags(rec, False)[2])
        want_on = {"rng": T.mk_attr(arg, "rng"), "state": T.mk_attr(arg, "state"), "output": T.mk_index(call.term, T.ONE)}
        for f, w in want_on.items():
            chk.add("C13.origin", f"async[{clock}] {f}", f_on.get(f) == w, f"recorded {f} = {T.show(f_on.get(f, T.NONE))[:160]}, expected what the step call "
                    f"{'returned' if f == 'output' else 'was given'}: {T.show(w)[:120]}", loc)
            chk.add("C13.origin", f"async[{clock}] {f} off", f_off.get(f) == T.NONE, f"with recording of {f} disabled the record holds {T.show(f_off.get(f, T.NONE))[:100]}, expected None", loc)
        ins = f_on.get("inputs", T.NONE)
        chk.add("C13.origin", f"async[{clock}] inputs", T.mk_call("flax.core.FrozenDict", [ins]) == T.mk_attr(arg, "inputs"),
                f"recorded inputs = {T.show(ins)[:160]}, expected the input states handed to the step", loc)
        ts_start, ts_end, delay, sent = f_on.get("ts_start"), f_on.get("ts_end"), f_on.get("delay"), f_on.get("sent")
        if None in (ts_start, ts_end, delay, sent):
            chk.add("C13.origin", f"async[{clock}] timing fields", False, "ts_start / ts_end / delay / sent are not all written in push_step", loc)
            continue
        chk.add("C13.origin", f"async[{clock}] delay == ts_end - ts_start", delay == T.sub(ts_end, ts_start) or T.sub(T.add(ts_start, delay), ts_end) == T.ZERO,
                f"recorded delay {T.show(delay)[:140]} is not recorded ts_end - ts_start ({T.show(ts_end)[:80]} - {T.show(ts_start)[:80]})", loc)
        ok = sent[0] == "obj" and dict(sent[2]).get("ts") == ts_end and dict(sent[2]).get("seq") == p[0]
        chk.add("C13.origin", f"async[{clock}] sent header", ok, f"recorded header is {T.show(sent)[:160]}, expected seq = tick and ts = recorded ts_end", loc)
        if clock == "SIMULATED":
            chk.add("C13.origin", "async[SIMULATED] ts_start is the step's ts", ts_start == T.mk_attr(arg, "ts") and ts_start == p[1],
                    f"recorded ts_start = {T.show(ts_start)[:120]}, StepState.ts handed to the step = {T.show(T.mk_attr(arg, 'ts'))[:120]}", loc)
            chk.add("C13.origin", "async[SIMULATED] delay is the sampled delay", delay == p[2], f"recorded delay = {T.show(delay)[:120]}", loc)
        else:
            # the recorded start is the (possibly step-adjusted) start that the delay was measured from
            new_ts = T.mk_attr(T.mk_index(call.term, T.ZERO), "ts")
            chk.add("C13.origin", "async[WALL_CLOCK] ts_start follows an adjusted step_state.ts", new_ts in set(T.walk(ts_start)),
                    f"recorded ts_start = {T.show(ts_start)[:160]} ignores the ts returned by the step", loc)
    chk.add("C13.origin", "async seq handed to the step is the tick", T.mk_attr(arg, "seq") == p[0], f"StepState.seq = {T.show(T.mk_attr(arg, 'seq'))[:100]}", loc)
    # state before k+1 = state returned by k
    st = [e for e in r.events if e.kind == "store_attr" and e.name == "self._step_state"]
    ok = len(st) == 1 and st[0].term == T.mk_index(call.term, T.ZERO) and arg[0] == "replace" and arg[1] == S("self._step_state") and set(dict(arg[2])) == {"seq", "ts", "inputs"}
    chk.add("C13.origin", "async state chain", ok, "the next step must start from the step state returned by this step (only seq, ts, inputs are replaced)", chk.loc(fi))
    # truncation
    chk.add("C13.truncate", "async max_records", flow.implies(app.guard, T.lt(T.mk_call("len", [S("self._record_steps")]), S("self._max_records"))),
            "records are appended beyond max_records", loc)
    # non-interference
    n = 0
    for key in ("node.push_step", "node.push_phase_shift", "node.push_scheduled_ts", "conn.push_selection", "conn.push_zip", "conn.push_ts_input", "conn.push_input"):
        rr = view.results[key]
        for e in rr.events:
            sink = False
            if e.kind == "call":
                last = e.name.split(".")[-1]
                if e.name.startswith("self._record") or last == "log":
                    continue
                sink = bool(queue_of(e)) or last in ("_submit", "_async_step", "throttle") or e.name.startswith("self.push_") or e.name == "new:Header"
            elif e.kind == "store_attr":
                sink = e.name not in ("self._discarded", "self._record", "self._record_steps", "self._record_messages")
            if not sink:
                continue
            n += 1
            src = _rec_tainted(e.guard) or _rec_tainted(e.term if e.kind == "store_attr" else None)
            for a in e.args:
                if e.name == "self.q_ts_start.append":
                    # the queued tuple carries the record object itself (element 3); the rest must be clean
                    a = ("tuple", a[1][:3]) if a[0] == "tuple" and len(a[1]) == 4 else a
                src = src or _rec_tainted(a)
            chk.add("C13.noninterference", f"{key}:{e.name.split('.')[-2] + '.' if queue_of(e) else ''}{e.name.split('.')[-1]}@{[x for x in rr.events if x.name == e.name].index(e)}",
                    src is None, f"{e.name} in {key} depends on recording state/settings via {src}", chk.loc(view.fi(key), e.node))
    chk.floor("C13.noninterference", "async sinks", n, 30)
    # message record filter (shared with C03.window) is part of truncation
    gr = view.results["conn.get_record"]
    flt = [e for e in gr.events if e.kind == "call" and e.name == "filter"]
    chk.add("C13.truncate", "message records filtered by last recorded step", len(flt) == 1 and flt[0].args[1] == S("self._record_messages"), "get_record must filter the message records", chk.loc(view.fi("conn.get_record")))
    from .c03 import rule_message_record
    rule_message_record(chk, view, "C13.truncate")


def compiled_part(chk: Check, model, cv: CompiledView):
    # ---------------------------------------------------------------- _run_node
    sub = cv.run_node
    fi = cv.fi("_run_node")
    chk.used(fi.qualname)
    steps = [e for e in sub.events if e.kind == "call" and e.name.endswith(".step") and e.depth >= 1 and e.func == fi.qualname]
    if len(steps) != 1:
        raise AnalysisError("_run_node does not call step exactly once")
    call = steps[0]
    ss = call.args[0]
    recs = [e for e in sub.events if e.kind == "call" and e.name == "new:StepRecord" and e.func == fi.qualname]
    if len(recs) != 1:
        chk.unknown("C13.origin", "compiled record", f"expected one StepRecord construction in _run_node, found {len(recs)}", chk.loc(fi))
    else:
        rec = dict(recs[0].term[2])
        loc = chk.loc(fi, recs[0].node)
        want = {"eps": T.mk_attr(ss, "eps"), "seq": T.mk_attr(ss, "seq"), "ts_start": T.mk_attr(ss, "ts"), "ts_end": S("timings_node.ts_end"),
                "delay": T.sub(S("timings_node.ts_end"), T.mk_attr(ss, "ts"))}
        for f, w in want.items():
            chk.add("C13.origin", f"compiled {f}", rec.get(f) == w, f"StepRecord.{f} = {T.show(rec.get(f, T.NONE))[:140]}, expected {T.show(w)[:140]}", loc)
        for f, w in (("rng", T.mk_attr(ss, "rng")), ("inputs", T.mk_attr(ss, "inputs")), ("state", T.mk_attr(ss, "state")), ("output", T.mk_index(call.term, T.ONE))):
            v = rec.get(f, T.NONE)
            conds = [x[1] for x in T.walk(v) if x[0] == "ite"]
            on, off = v, v
            for c in conds:
                on, off = T.assume(on, c, False if c[0] in ("eq",) else True), T.assume(off, c, True if c[0] in ("eq",) else False)
            ok = (on == w and off == T.NONE) or (off == w and on == T.NONE)
            gate_ok = all(mentions(c, f) and mentions(c, "steps") for c in conds) and len(conds) == 1
            chk.add("C13.origin", f"compiled {f}", ok and gate_ok, f"StepRecord.{f} = {T.show(v)[:200]}, expected the value {'returned by' if f == 'output' else 'handed to'} "
                    f"the step, present iff record.steps.{f} is allocated", loc)
        chk.add("C13.origin", "compiled seq/ts handed to the step", T.mk_attr(ss, "seq") == S("timings_node.seq") and T.mk_attr(ss, "ts") == S("timings_node.ts_start"),
                f"step gets seq = {T.show(T.mk_attr(ss, 'seq'))[:80]}, ts = {T.show(T.mk_attr(ss, 'ts'))[:80]}", loc)
    ret = sub.ret
    ok = ret[0] == "tuple" and len(ret[1]) == 3 and ret[1][1] == T.mk_index(call.term, T.ONE) and \
        ret[1][0] == T.mk_replace(T.mk_index(call.term, T.ZERO), (("seq", T.add(T.mk_attr(T.mk_index(call.term, T.ZERO), "seq"), T.ONE)),))
    chk.add("C13.origin", "compiled state chain", ok, f"_run_node returns {T.show(ret)[:200]}, expected (state returned by the step with seq+1, its output, record)", chk.loc(fi))
    for what, t in (("step argument", ss), ("returned state/output", ("tuple", ret[1][:2]) if ret[0] == "tuple" else ret)):
        bad = [x for x in T.walk(t) if (x[0] == "sym" and ("aux" in x[1].split(".") or "record" in x[1])) or (x[0] == "call" and "aux" in T.call_name(x))]
        chk.add("C13.noninterference", f"_run_node {what}", not bad, f"the {what} depends on graph_state.aux / the record: {[T.show(b)[:60] for b in bad[:3]]}", chk.loc(fi))

    # ---------------------------------------------------------------- _run_generation
    sub = cv.run_generation
    fi = cv.fi("_run_generation")
    chk.used(fi.qualname)
    el = slot_elem(sub)
    if el is None:
        raise AnalysisError("per-slot loop over timings_gen.items() not found in _run_generation")
    tn = T.mk_index(el, T.ONE)
    seq = T.mk_attr(tn, "seq")
    st = [e for e in sub.events if e.kind == "store_sub" and e.term[0] == "replace" and "steps" in dict(e.term[2])]
    if len(st) != 1:
        chk.unknown("C13.rows", "record write-back", f"expected one new_records[...] store, found {len(st)}", chk.loc(fi))
    else:
        v = st[0].term
        steps_new = dict(v[2]).get("steps") if v[0] == "replace" else None
        ok = steps_new is not None and steps_new[0] == "call" and isinstance(steps_new[1], tuple) and steps_new[1][0] == "attr" and steps_new[1][2] == "set"
        idx = steps_new[1][1][2] if ok and steps_new[1][1][0] == "index" else None
        chk.add("C13.rows", "row written = the slot's sequence number", idx == seq, f"the step record is written at row {T.show(idx)[:120] if idx else None}, expected timings_node.seq", chk.loc(fi, st[0].node))
        if ok:
            val = steps_new[2][0]
            conds = {x[1] for x in T.walk(val) if x[0] == "ite" and x[1][0] == "attr" and x[1][2] == "run"}
            noop = T.assume(val, st[0].guard)
            for c in conds:
                noop = T.assume(noop, c, False)
            reads = [x for x in T.walk(noop) if x[0] == "call" and T.call_name(x) == "rex.jax_utils.tree_take"]
            ok2 = noop[0] == "call" and T.call_name(noop) == "rex.jax_utils.tree_take" and len(noop[2]) == 2 and noop[2][1] == idx and mentions(noop[2][0], "steps")
            chk.add("C13.rows", "masked slot writes back the row it read", ok2, f"for a masked slot the value written is {T.show(noop)[:200]}, expected the record row read at the same index", chk.loc(fi, st[0].node))
    # buffers / step states independent of the record
    for name in ("step state / output tables",):
        for e in [x for x in sub.events if x.kind == "store_sub" and not x.name.startswith("self.") and not (x.term[0] == "replace" and "steps" in dict(x.term[2]))]:
            bad = [x for x in T.walk(e.term) if (x[0] == "sym" and ("aux" in x[1].split(".") or "record" in x[1])) or (x[0] == "call" and ".aux." in T.call_name(x))]
            bad += [x for x in T.walk(e.guard) if (x[0] == "call" and ".aux." in T.call_name(x))]
            chk.add("C13.noninterference", f"_run_generation {name}", not bad, f"{name} depends on the record: {[T.show(b)[:60] for b in bad[:3]]}", chk.loc(fi, e.node))
    # ---------------------------------------------------------------- _run_S supervisor record
    sub = cv.run_S
    fi = cv.fi("_run_S")
    chk.used(fi.qualname)
    recs = [e for e in sub.events if e.kind == "call" and e.name == "new:StepRecord" and e.func == fi.qualname]
    if len(recs) == 1:
        rec = dict(recs[0].term[2])
        upd = [e for e in sub.events if e.kind == "call" and e.func == fi.qualname and e.name.startswith("<update_input_fns") or (e.kind == "call" and e.func == fi.qualname and "update_input" in e.name)]
        rs = [e for e in sub.events if e.kind == "call" and e.name.endswith(".replace_step_states") and e.func == fi.qualname and e.args and e.args[0][0] == "dict"]
        base = rs[0].args[0][1][0][1] if len(rs) == 1 and len(rs[0].args[0][1]) == 1 else None
        ok = all(rec.get(f) == T.mk_attr(base, g) for f, g in (("eps", "eps"), ("seq", "seq"), ("ts_start", "ts"))) if base is not None else False
        for f in ("rng", "inputs", "state"):
            v = rec.get(f, T.NONE)
            cs = [x[1] for x in T.walk(v) if x[0] == "ite" and mentions(x[1], "steps") and x[1][0] in ("eq", "not")]
            on = v
            for c in cs:
                on = T.assume(on, c, False if c[0] == "eq" else True)
            ok = ok and base is not None and len(cs) == 1 and on == T.mk_attr(base, f)
        chk.add("C13.origin", "supervisor record eps/seq/ts_start/rng/inputs/state", ok, f"supervisor StepRecord = {T.show(recs[0].term)[:240]}: fields must be those of the supervisor step state "
                "stored into the graph state", chk.loc(fi, recs[0].node))
        d = rec.get("delay")
        chk.add("C13.origin", "supervisor record delay", d == T.sub(rec.get("ts_end", T.NONE), rec.get("ts_start", T.NONE)), f"delay = {T.show(d)[:120] if d else None}", chk.loc(fi, recs[0].node))
        chk.add("C13.origin", "supervisor output recorded after its step", rec.get("output") == T.NONE, "the pre-step supervisor record must leave output to make_update_state", chk.loc(fi, recs[0].node))
    else:
        chk.unknown("C13.origin", "supervisor record", f"expected one StepRecord construction in _run_S, found {len(recs)}", chk.loc(fi))
    # ---------------------------------------------------------------- make_update_state: output record row
    sub = cv.update_state
    f3 = model.func("partition_runner.make_update_state._update_state")
    chk.used(f3.qualname)
    sets = [e for e in sub.events if e.kind == "call" and e.name.endswith(".set") and mentions(e.recv, "steps")]
    ok = len(sets) == 1 and sets[0].recv[0] == "index" and sets[0].recv[2] == S("timing.seq") and sets[0].args == (S("output_record"),)
    chk.add("C13.rows", "supervisor output row", ok, "the supervisor's output must be recorded at row timing.seq from output_record", chk.loc(f3))
    ret = sub.ret
    conds = [x[1] for x in T.walk(ret) if x[0] == "ite" and mentions(x[1], "aux")]
    plain = ret
    for c in conds:
        plain = T.assume(plain, c, False)
    # the record lives in graph_state.aux next to whatever else is kept there (the RL wrappers' log / normalisation / scaling entries, user
    # data): the compiled runtime never installs a fresh aux mapping - it merges (`aux.copy({...})`, replace_aux) or replaces a leaf (tree_at)
    n_aux = 0
    for q_, f_ in model.functions.items():
        if f_.module not in ("partition_runner", "graph", "base") or f_.parent is not None and f_.module == "base":
            continue
        for n_ in ast.walk(f_.node):
            if isinstance(n_, ast.Call) and isinstance(n_.func, ast.Attribute) and n_.func.attr == "replace" and any(k.arg == "aux" for k in n_.keywords):
                if any(n_ is x for g_ in ast.walk(f_.node) if isinstance(g_, (ast.FunctionDef, ast.Lambda)) and g_ is not f_.node for x in ast.walk(g_)):
                    continue  # (reported for the nested function itself)
                n_aux += 1
                v_ = [k.value for k in n_.keywords if k.arg == "aux"][0]
                if isinstance(v_, ast.Name):
                    bs_ = [a for a in ast.walk(f_.node) if isinstance(a, ast.Assign) and len(a.targets) == 1 and isinstance(a.targets[0], ast.Name) and a.targets[0].id == v_.id]
                    v_ = bs_[0].value if len(bs_) == 1 else v_
                merged = isinstance(v_, ast.Call) and isinstance(v_.func, ast.Attribute) and v_.func.attr == "copy" and isinstance(v_.func.value, ast.Attribute) and v_.func.value.attr == "aux"
                chk.add("C13.noninterference", f"aux is merged, never replaced wholesale: {q_}", merged, f"{q_} stores aux = {ast.unparse(v_)[:100]}: every other aux entry is dropped "
                        "(expected <state>.aux.copy({...}))", chk.loc(f_, n_))
    chk.floor("C13.noninterference", "writes of graph_state.aux", n_aux, 2)
    # with a record, the result is the same updated graph state with only the record's output leaf replaced
    rec_on = ret
    for c in conds:
        rec_on = T.assume(rec_on, c, True)
    ok_on = rec_on[0] == "call" and T.call_name(rec_on) == "equinox.tree_at" and len(rec_on[2]) == 3 and rec_on[2][1] == plain
    if ok_on:
        where = sub.ev.invoke(rec_on[2][0], [S("_gs")], sub.frame) if rec_on[2][0][0] == "closure" else T.NONE
        ok_on = mentions(where, "aux") and where[0] in ("attr", "sym") and T.show(where).endswith(".steps.output")
    chk.add("C13.noninterference", "update_state with record == without record + the record's output leaf", bool(conds) and bool(ok_on),
            f"with a record update_state returns {T.show(rec_on)[:200]}: it must be eqx.tree_at(<record output leaf>, <the state returned without a record>, ...)", chk.loc(f3))
    chk.add("C13.noninterference", "update_state without record", bool(conds) and not mentions(plain, "tree_at") and mentions(plain, "replace_step_states"),
            "without a record update_state must return the plain updated graph state", chk.loc(f3))
    upd = [e for e in sub.events if e.kind == "store_sub" and not e.name.startswith("self.") and not mentions(e.term, "tree_at")]
    for e in upd:
        bad = [x for x in T.walk(e.term) if x[0] == "sym" and x[1] in ("output_record",)] + [x for x in T.walk(e.term) if x[0] == "call" and ".aux." in T.call_name(x)]
        chk.add("C13.noninterference", f"update_state {e.name}", not bad, f"{e.name} depends on the record", chk.loc(f3, e.node))
    # ---------------------------------------------------------------- Graph.run_supervisor: no-op output record
    r = cv.run_supervisor
    fi = model.func("graph.Graph.run_supervisor")
    chk.used(fi.qualname)
    from ..compiled import skip_condition
    us = [e for e in r.events if e.kind == "call" and len(e.args) == 5 and ("update_state" in e.name or e.name.startswith("<"))]
    conds = [e for e in r.events if e.kind == "call" and e.name == "jax.lax.cond"]
    if len(us) == 1 and len(conds) == 1:
        skip = skip_condition(conds[0].term)
        rec_arg = us[0].args[4]
        no_rec = T.eq(T.mk_call("graph_state.aux.get", [T.const("record"), T.NONE]), T.NONE, numeric=False)
        def _not_none(t):
            # a value read out of the record (tree_take(...)) is not None
            for _ in range(3):
                cs = [x for x in T.walk(t) if x[0] == "eq" and T.NONE in x[1] and any(y[0] == "call" and T.call_name(y) == "rex.jax_utils.tree_take" for y in x[1])]
                if not cs:
                    break
                for c in cs:
                    t = T.assume(t, c, False)
            return t
        skipped = _not_none(T.assume(T.assume(rec_arg, skip, True), no_rec, False))
        # a skipped supervisor step (before the first partition) writes back the row it read from the record: never-executed rows stay -1
        ok = skipped[0] == "call" and T.call_name(skipped) == "rex.jax_utils.tree_take" and mentions(skipped[2][0], "steps") and any(x == T.const("record") for x in T.walk(skipped[2][0])) and not mentions(skipped, "buffer")
        chk.add("C13.rows", "skipped supervisor step writes back the record row it read", ok, f"for a skipped supervisor step the recorded output is {T.show(skipped)[:200]}, expected the row read from the "
                "record (the buffered output would mark a never-executed row as executed)", chk.loc(fi, us[0].node))
        ran = T.assume(_not_none(T.assume(T.assume(rec_arg, skip, False), no_rec, False)), T.mk_and([T.eq(S("step_state"), T.NONE, numeric=False), T.eq(S("output"), T.NONE, numeric=False)]), True)
        out_arg = T.assume(T.assume(us[0].args[3], skip, False), T.mk_and([T.eq(S("step_state"), T.NONE, numeric=False), T.eq(S("output"), T.NONE, numeric=False)]), True)
        chk.add("C13.origin", "executed supervisor step records the output it produced", ran == out_arg and mentions(ran, "step"), f"recorded output = {T.show(ran)[:160]}, output handed on = {T.show(out_arg)[:160]}", chk.loc(fi, us[0].node))
        off = T.assume(rec_arg, no_rec, True)
        chk.add("C13.noninterference", "no record -> no output record", off == T.NONE, f"without a record the output record is {T.show(off)[:120]}", chk.loc(fi, us[0].node))
    else:
        chk.unknown("C13.rows", "supervisor output record", f"expected one update_state call and one lax.cond in run_supervisor, found {len(us)}/{len(conds)}", chk.loc(fi))
    # ---------------------------------------------------------------- init_record: -1 everywhere
    fi = model.func("graph.Graph.init_record")
    chk.used(fi.qualname)
    ev = SymEval(model)
    rr = ev.run_function(fi)
    recs = [e for e in rr.events if e.kind == "call" and e.name == "new:StepRecord"]
    ok = len(recs) == 1
    if ok:
        rec = dict(recs[0].term[2])
        for f in ("eps", "seq", "ts_start", "ts_end", "delay"):
            v = rec.get(f, T.NONE)
            okf = v[0] == "call" and v[1] == "numpy.array" or T.const_value(v) == -1
            okf = T.const_value(v) == -1 or (v[0] == "call" and v[2] and T.const_value(v[2][0]) == -1)
            chk.add("C13.rows", f"init_record template {f} = -1", okf, f"StepRecord template {f} = {T.show(v)[:80]}", chk.loc(fi, recs[0].node))
        # every optional field is switched by its own record setting and shaped after its own entry of the graph state (a template
        # shaped after another field cannot take the rows written to it)
        SETTINGS = {"params", "rng", "inputs", "state", "output"}
        SOURCE = {"rng": "rng", "inputs": "inputs", "state": "state", "output": "buffer"}
        n_f = 0
        for f, src in SOURCE.items():
            v = rec.get(f, T.NONE)
            if v[0] != "ite":
                continue
            keys = {x[2][1] for x in T.walk(v[1]) if x[0] == "index" and x[2][0] == "const" and isinstance(x[2][1], str)} | {x[2] for x in T.walk(v[1]) if x[0] == "attr"}
            keys &= SETTINGS
            if not keys:  # (no table of settings: the per-node flag tables, parameters named like the settings, are consulted directly)
                keys = {x[1].split(".")[0] for x in T.walk(v[1]) if x[0] == "sym"} & SETTINGS
            srcs = {x[2] for x in T.walk(v[2]) if x[0] == "attr" and x[1] == S("graph_state")} | \
                   {x[1].split(".")[1] for x in T.walk(v[2]) if x[0] == "sym" and x[1].startswith("graph_state.")}
            if not keys or not srcs:
                continue
            n_f += 1
            chk.add("C13.rows", f"init_record template {f}: own setting, own source", keys == {f} and srcs == {src},
                    f"StepRecord template {f} is switched by setting(s) {sorted(keys)} and shaped after graph_state.{sorted(srcs)}, expected {f!r} and graph_state.{src}", chk.loc(fi, recs[0].node))
        chk.floor("C13.rows", "optional template fields", n_f, 4)
    else:
        chk.unknown("C13.rows", "init_record template", f"expected one StepRecord template in init_record, found {len(recs)}", chk.loc(fi))
    # number of rows per node: the node's runs summed over *all* partitions of the schedule (the last partition of the horizon is
    # executed too), accumulated over its slots, maximum over the episodes
    cnt = [e for e in rr.events if e.kind == "store_sub" and e.key is not None and e.key[0] == "attr" and e.key[2] == "kind"]
    okc = len(cnt) == 1
    if okc:
        slot = cnt[0].key[1]
        runs = T.mk_call(("attr", T.mk_attr(slot, "run"), "sum"), [], [("axis", T.const(-1))])
        t = cnt[0].term
        okc = t[0] == "num" and any(x == runs for x in T.walk(t)) and not any(x[0] == "slice" for x in T.walk(t)) and T.dict_value(slot) is not None
    if not cnt:
        # grouped first, summed afterwards: every slot's runs appended to the list of its kind (whole, no slicing), then per kind the
        # whole list folded with + from zeros and the maximum over the episodes stored under the kind
        app = [e for e in rr.events if e.kind == "call" and e.name.endswith(".append") and e.recv is not None and e.recv[0] == "call" and T.call_name(e.recv).endswith(".setdefault")
               and len(e.recv[2]) == 2 and e.recv[2][0][0] == "attr" and e.recv[2][0][2] == "kind" and len(e.args) == 1]
        if len(app) == 1:
            slot = app[0].recv[2][0][1]
            runs = T.mk_call(("attr", T.mk_attr(slot, "run"), "sum"), [], [("axis", T.const(-1))])
            table = app[0].recv[1][1] if isinstance(app[0].recv[1], tuple) and app[0].recv[1][0] == "attr" else None
            okc = app[0].args[0] == runs and T.dict_value(slot) is not None and e_once(app[0]) and table is not None
            folds = [l for l in rr.loops.values() if l.kind == "for" and l.iter[0] == "index" and T.const_value(l.iter[2]) == 1 and l.iter[1][0] == "elem"
                     and l.iter[1][1] == T.mk_call(("attr", table, "items") if table is not None else "?", []) and len(l.env_in) == 1]
            okc = okc and len(folds) == 1
            if okc:
                l = folds[0]
                (nm, sym_in), = l.env_in.items()
                okc = l.env_out.get(nm) == T.add(sym_in, ("elem", l.iter, l.uid)) and T.call_name(l.pre.get(nm, T.NONE)).endswith("zeros_like")
                out = S(f"loopout{l.uid}:{nm}")
                fin = [e for e in rr.events if e.kind == "store_sub" and e.key == T.mk_index(l.iter[1], T.ZERO)]
                okc = okc and len(fin) == 1 and fin[0].term in (T.mk_reduce(out, "max", []), T.mk_call(("attr", out, "max"), []))
            cnt = app
    chk.add("C13.rows", "one row per scheduled run (all partitions counted)", bool(okc), f"rows per node = {T.show(cnt[0].term)[:200] if cnt else None}, expected the sum of slot.run over every partition, "
            "accumulated per node kind (a truncated count makes the writes of the last partition fall outside the record)", chk.loc(fi))
    steps_terms = [dict(e.term[2]).get("steps") for e in rr.events if e.kind == "call" and e.name == "new:NodeRecord"]
    ok = False
    for stt in steps_terms:
        if stt is None:
            continue
        # (ones(shape) * -1): a numeric term with coefficient -1 on the ones(...) atom
        if stt[0] == "num":
            P = stt[1]
            ok = len(P) == 1 and P[0][1] == -1 and len(P[0][0]) == 1 and P[0][0][0][0][0] == "call" and T.call_name(P[0][0][0][0]) == "jax.numpy.ones"
    chk.add("C13.rows", "init_record fills every leaf with -1", ok, f"record rows are initialised with {T.show(steps_terms[0])[:160] if steps_terms else None}, expected ones(...) * -1", chk.loc(fi))


def e_once(e) -> bool:
    """the event sits directly in one loop (executed once per element of it)"""
    return len(e.loops) == 1


def run(chk: Check, model):
    chk.rule("C13.origin", "same-origin (A4/A5): every recorded field is a projection of the very StepState handed to the step / of that call's result; "
                           "recorded delay == ts_end - ts_start; the next step starts from the returned state")
    chk.rule("C13.noninterference", "non-interference (A12): no queue operation, _submit, step argument, state/buffer update or header depends on record settings or record state")
    chk.rule("C13.rows", "-1 rows (A3/A4): record templates are -1 filled; a masked slot writes back the row read at the same index; rows are written at the slot's sequence number")
    chk.rule("C13.truncate", "truncation: step records stop at max_records; message records are filtered by the last recorded step")
    view = AsyncView(model)
    async_part(chk, view)
    # a node's record is assembled once per episode, steps and input message records together: the message records are cut at the last step of
    # the steps they are stored with, so both parts are built under the same "not built yet" discipline (rebuilding one while the other stays
    # cached leaves steps whose messages are missing)
    rgr = view.results["node.get_record"]
    sts = {}
    for e in rgr.events:
        if e.kind == "store_attr" and e.name == "self._record" and e.term[0] == "replace":
            for k, _v in e.term[2]:
                if k in ("steps", "inputs"):
                    sts.setdefault(k, []).append(e)
    okc = all(len(sts.get(k, [])) == 1 for k in ("steps", "inputs"))
    if okc:
        once = {k: flow.implies(sts[k][0].guard, T.eq(T.mk_attr(S("self._record"), k), T.NONE, numeric=False)) for k in ("steps", "inputs")}
        okc = once["steps"] == once["inputs"] and sts["steps"][0].idx < sts["inputs"][0].idx
    chk.add("C13.truncate", "steps and input message records are assembled together (both once, or both on every request)", bool(okc),
            "node.get_record builds `steps` under " + (T.show(sts["steps"][0].guard)[:80] if sts.get("steps") else "?") + " and `inputs` under " +
            (T.show(sts["inputs"][0].guard)[:80] if sts.get("inputs") else "?"), chk.loc(view.fi("node.get_record")))
    cv = CompiledView(model)
    compiled_part(chk, model, cv)
