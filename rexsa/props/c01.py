"""C01 — compiled replay reproduces the recorded asynchronous execution step for step.

The statement is an equivalence of two runtimes over all graphs and seeds; that relation is NOT decided.  Decided are
structural necessary conditions: rng ownership (A1/A16), agreement of the step protocol of the two runtimes (A9/A4),
role-preserving copies along record -> graph -> windows -> timings -> input states (A5/A4), ring-shift agreement (A9).
"""
from __future__ import annotations

import ast

from .. import terms as T
from ..asyncflow import AsyncView
from ..asyncrt import mentions, one, queue_ops
from ..compiled import CompiledView
from ..report import AnalysisError, Check
from ..roles import rule_apply_window, rule_record_to_graph, rule_to_timings
from .c07 import rule_exec_order
from .c08 import rule_map, rule_sizes
from ..symeval import SymEval

S = T.sym
RUNTIME = ("asynchronous", "partition_runner", "graph")
RNG_WRITERS = {"asynchronous.AsyncGraph.init", "graph.Graph.init"}


def rule_rng(chk: Check, model, rid: str, view: AsyncView, cv: CompiledView):
    chk.rule(rid, "rng ownership (A1/A16): in the runtime files only Graph.init / AsyncGraph.init construct or replace a step rng; the step state handed to a "
                  "step carries rng, state and params unchanged from the previous result; delay samplers are seeded from the step rng without writing it back")
    sites = []
    for q, fi in model.functions.items():
        if fi.module not in RUNTIME:
            continue
        for n in _own_nodes(fi.node):
            if isinstance(n, ast.Call) and any(k.arg == "rng" for k in n.keywords):
                fn = ast.unparse(n.func)
                ctor = fn.split(".")[-1] in ("StepState", "GraphState")
                repl = isinstance(n.func, ast.Attribute) and n.func.attr == "replace" and not any(w in ast.unparse(n.func.value) for w in ("record", "steps", "dist"))
                if ctor or repl:
                    sites.append((q, n, fi))
    seen = set()
    for q, n, fi in sites:
        seen.add((fi.path, n.lineno))
        chk.add(rid, f"rng written in {q}", q in RNG_WRITERS, f"{q} passes rng=... to {ast.unparse(n.func)[:60]}: only graph initialisation may set a step rng "
                "(a runtime that advances the rng makes the other runtime diverge)", chk.loc(fi, n))
    chk.floor(rid, "rng construction sites", len(seen), 2)
    # async: fields replaced before the step
    r = view.results["node.push_step"]
    call = [e for e in r.events if e.kind == "call" and e.name == "self._async_step"]
    if len(call) != 1:
        raise AnalysisError("push_step does not call _async_step exactly once")
    arg = call[0].args[0]
    a_fields = set(dict(arg[2])) if arg[0] == "replace" else None
    chk.add(rid, "async: carried rng/state/params", a_fields is not None and arg[1] == S("self._step_state") and not (a_fields & {"rng", "state", "params"}),
            f"push_step replaces {sorted(a_fields) if a_fields else '?'} on the carried step state", chk.loc(view.fi("node.push_step"), call[0].node))
    ui = cv.update_inputs.ret
    c_fields = set(dict(ui[2])) if ui[0] == "replace" else None
    base_ok = ui[0] == "replace" and ui[1] == T.mk_index(T.mk_call("graph_state.step_state", []) if False else S("graph_state.step_state"), S("node.name")) or (
        ui[0] == "replace" and ui[1][0] == "index" and mentions(ui[1], "step_state") or ui[0] == "replace" and ui[1][0] == "index")
    chk.add(rid, "compiled: carried rng/state/params", c_fields is not None and base_ok and not (c_fields & {"rng", "state", "params"}),
            f"_update_inputs replaces {sorted(c_fields) if c_fields else '?'} on graph_state.step_state[node]", chk.loc(model.func("partition_runner.make_update_inputs._update_inputs")))
    return a_fields, c_fields, arg, ui


def _own_nodes(fn):
    stack = list(ast.iter_child_nodes(fn))
    while stack:
        n = stack.pop()
        if isinstance(n, (ast.FunctionDef, ast.AsyncFunctionDef, ast.ClassDef)):
            continue
        yield n
        stack.extend(ast.iter_child_nodes(n))


def rule_protocol(chk: Check, model, rid: str, view: AsyncView, cv: CompiledView, a_fields, c_fields, arg, ui):
    chk.rule(rid, "step protocol agreement (A9/A4): both runtimes replace the same fields before a step (seq, ts, inputs; the compiled one also eps, which both "
                  "take from the caller's graph state) with the scheduled tick / start time / window, and both increment seq by exactly 1 on the returned state")
    chk.add(rid, "same replaced fields", a_fields is not None and c_fields is not None and a_fields | {"eps"} == c_fields and a_fields == {"seq", "ts", "inputs"},
            f"async replaces {sorted(a_fields or [])}, compiled replaces {sorted(c_fields or [])}; expected {{seq, ts, inputs}} (+ eps in the compiled runtime)",
            chk.loc(model.func("partition_runner.make_update_inputs._update_inputs")))
    r = view.results["node.push_step"]
    pop = one(queue_ops(r, "q_ts_start", "popleft"), "popleft on q_ts_start")
    ad = dict(arg[2]) if arg[0] == "replace" else {}
    chk.add(rid, "async: seq/ts from the schedule", ad.get("seq") == T.mk_index(pop.term, T.ZERO) and ad.get("ts") == T.mk_index(pop.term, T.ONE),
            f"async step gets seq = {T.show(ad.get('seq', T.NONE))[:80]}, ts = {T.show(ad.get('ts', T.NONE))[:80]}", chk.loc(view.fi("node.push_step")))
    cd = dict(ui[2]) if ui[0] == "replace" else {}
    chk.add(rid, "compiled: seq/ts/eps from the schedule", cd.get("seq") == S("timings_node.seq") and cd.get("ts") == S("timings_node.ts_start") and cd.get("eps") == S("graph_state.eps"),
            f"compiled step gets seq = {T.show(cd.get('seq', T.NONE))[:60]}, ts = {T.show(cd.get('ts', T.NONE))[:60]}, eps = {T.show(cd.get('eps', T.NONE))[:60]}",
            chk.loc(model.func("partition_runner.make_update_inputs._update_inputs")))
    # seq + 1 at every site that stores a step result
    ev = SymEval(model)
    ra = ev.run_function(model.func("asynchronous._AsyncNodeWrapper.async_step"))
    call = [e for e in ra.events if e.kind == "call" and e.name == "self.node.step"]
    ok = len(call) == 1
    if ok:
        ns = T.mk_index(call[0].term, T.ZERO)
        st = ra.ret[1][0] if ra.ret[0] == "tuple" else T.NONE
        ok = T.assume(st, T.eq(ns, T.NONE, numeric=False), False) == T.mk_replace(ns, (("seq", T.add(T.mk_attr(ns, "seq"), T.ONE)),))
    chk.add(rid, "seq+1: async_step", ok, "async_step must return the step's state with seq + 1", chk.loc(model.func("asynchronous._AsyncNodeWrapper.async_step")))
    sub = cv.run_node
    steps = [e for e in sub.events if e.kind == "call" and e.name.endswith(".step") and e.func == cv.fi("_run_node").qualname]
    ok = len(steps) == 1 and sub.ret[0] == "tuple"
    if ok:
        ns = T.mk_index(steps[0].term, T.ZERO)
        ok = sub.ret[1][0] == T.mk_replace(ns, (("seq", T.add(T.mk_attr(ns, "seq"), T.ONE)),))
    chk.add(rid, "seq+1: _run_node", ok, "_run_node must return the step's state with seq + 1", chk.loc(cv.fi("_run_node")))
    us = cv.update_state
    ss = [e for e in us.events if e.kind == "call" and e.name.endswith(".replace_step_states")]
    ok = len(ss) == 1 and ss[0].args[0][0] == "dict" and ss[0].args[0][1][0][1] == T.mk_replace(S("step_state"), (("seq", T.add(S("step_state.seq"), T.ONE)),))
    chk.add(rid, "seq+1: supervisor (compiled)", ok, "_update_state must store the supervisor's state with seq + 1", chk.loc(model.func("partition_runner.make_update_state._update_state")))
    rs = view.ar.eval("asynchronous.AsyncGraph.run_supervisor")
    sets = [e for e in rs.events if e.kind == "call" and e.name.endswith(".set_result")]
    ok = len(sets) == 1
    if ok:
        tup = sets[0].args[0]
        none = T.mk_and([T.eq(S("step_state"), T.NONE, numeric=False), T.eq(S("output"), T.NONE, numeric=False)])
        ovr = T.assume(tup, none, False)
        ok = ovr[0] == "tuple" and ovr[1][0] == T.mk_replace(S("step_state"), (("seq", T.add(S("step_state.seq"), T.ONE)),)) and ovr[1][1] == S("output")
    chk.add(rid, "seq+1: supervisor override (async)", ok, "an overriding step state must be passed on with seq + 1, like the supervisor's own result", chk.loc(model.func("asynchronous.AsyncGraph.run_supervisor")))


def rule_chain(chk: Check, model, rid: str, cv: CompiledView):
    f_fo = model.func("base.InputState.from_outputs")
    ev = SymEval(model)
    ret = ev.run_function(f_fo).ret
    ok = ret[0] == "obj" and ret[1] == "InputState"
    if ok:
        kw = dict(ret[2])
        ok = all(kw.get(k) == S(k) for k in ("seq", "ts_sent", "ts_recv", "delay_dist")) and T.assume(kw.get("data", T.NONE), S("is_data"), True) == S("outputs")
    params = [a.arg for a in f_fo.node.args.args[1:]]
    chk.add(rid, "InputState.from_outputs binds its parameters to the same-named fields", ok and params[:4] == ["seq", "ts_sent", "ts_recv", "outputs"],
            f"from_outputs returns {T.show(ret)[:200]} with parameters {params}", chk.loc(f_fo))
    ci = model.cls("base.InputState")
    fields = model.dataclass_fields(ci)
    chk.add(rid, "InputState field order", fields[:5] == ["seq", "ts_sent", "ts_recv", "data", "delay_dist"], f"InputState fields are {fields}", chk.loc(model.func("base.InputState.push")))
    for cls, want in (("Window", ["seq", "ts_sent", "ts_recv"]), ("Vertex", ["seq", "ts_start", "ts_end"]), ("Edge", ["seq_out", "seq_in", "ts_recv"])):
        f = model.dataclass_fields(model.cls(f"base.{cls}"))
        chk.add(rid, f"{cls} field order", f == want, f"{cls} fields are {f}, expected {want} (positional constructions rely on it)", "rex/base.py")
    # ring shift agreement
    rets = {}
    for cls in ("Window", "InputState"):
        fs = model.func(f"base.{cls}._shift")
        ev = SymEval(model)
        rets[cls] = ev.run_function(fs).ret
    chk.add(rid, "ring shift agreement (Window._shift == InputState._shift)", rets["Window"] == rets["InputState"] and mentions(rets["Window"], "roll"),
            f"Window._shift = {T.show(rets['Window'])[:120]} vs InputState._shift = {T.show(rets['InputState'])[:120]}", chk.loc(model.func("base.Window._shift")))
    want = T.mk_call(T.mk_attr(T.mk_index(T.mk_attr(T.mk_call("jax.numpy.roll", [S("a"), T.const(-1)], [("axis", T.ZERO)]), "at"), T.const(-1)), "set"), [S("new")])
    chk.add(rid, "ring shift: oldest first", rets["Window"] == want, f"_shift = {T.show(rets['Window'])[:160]}, expected roll(a, -1, axis=0).at[-1].set(new)", chk.loc(model.func("base.Window._shift")))


def run(chk: Check, model):
    view = AsyncView(model)
    cv = CompiledView(model)
    a_fields, c_fields, arg, ui = rule_rng(chk, model, "C01.rng", view, cv)
    rule_protocol(chk, model, "C01.protocol", view, cv, a_fields, c_fields, arg, ui)
    chk.rule("C01.chain", "role-preserving copies (A5/A4) along record -> EpisodeRecord.to_graph -> apply_window -> to_timings -> InputState.from_outputs: every store binds "
                          "a field to the field of the same role (Window.ts_sent <- sender ts_end[seq_out]); positional constructions match the dataclass field order; "
                          "the offline and online ring shifts agree")
    rule_record_to_graph(chk, model, "C01.chain")
    rule_apply_window(chk, model, "C01.chain")
    rule_to_timings(chk, model, "C01.chain")
    rule_chain(chk, model, "C01.chain", cv)
    chk.rule("C01.buffer", "payload lookup: the compiled runtime reads each window entry's payload at the same ring index the producer wrote it to (see C08.map)")
    rule_map(chk, model, cv, "C01.buffer")
    rule_sizes(chk, model, "C01.buffer")
    # which recorded episode / partition the replay executes: the requested index, clipped to the number of episodes / partitions
    from .c09 import rule_clip
    rule_clip(chk, model, "C01.order", cv)
    rule_exec_order(chk, model, "C01.order", cv)
