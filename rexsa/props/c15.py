"""C15 — delay distributions give non-negative, replayable samples and true quantiles.

Sanitiser on every sample (A3), PRNG key linearity and replay (A16), purity (A11), closed forms of the quantiles that
are closed-form (A7), default expected delay (A9/A4), classification and construction of the estimator's result.
Not decided: mixture grid quantiles, the estimator's fitted values (numeric).
"""
from __future__ import annotations

from .. import terms as T
from ..asyncrt import mentions
from ..report import Check
from ..symeval import SymEval
from .c09 import effects_of

S = T.sym


def _ev(model, q, **kw):
    fi = model.func(q)
    ev = SymEval(model, **kw)
    return fi, ev, ev.run_function(fi)


def flow_equiv_not(g_ret, g_raise) -> bool:
    """the result is returned exactly when the span test did not raise"""
    from .. import flow
    return flow.equivalent(g_ret, T.mk_not(g_raise))


def run(chk: Check, model):
    chk.rule("C15.nonneg", "non-negativity (A3): every static sample passes clip(., 0, None); a trainable delay is min + alpha (max - min) with 0 <= min < max, 0 <= alpha <= 1")
    chk.rule("C15.rng", "key linearity and replay (A16): sample splits the stored key once, returns one half in the new state and feeds the other to exactly one sampler; "
                        "reset stores the given key; sample_pure delegates")
    chk.rule("C15.pure", "purity (A11): sample / reset / quantile / mean / pdf of both distribution classes have no effect outside the call")
    chk.rule("C15.quantile", "closed forms (A7): Deterministic -> its mean for every q; Normal -> ndtri(q) * scale + loc for every q; trainable -> min + alpha (max - min); "
                             "the mixture delegates to the grid routine on its own distribution; unknown distributions raise")
    chk.rule("C15.grid", "mixture grid quantile (A4/A6, structure only): the CDF is evaluated on the same linspace(grid_min, grid_max, N) grid that the result indexes; the result is "
                         "grid[first index with cdf > p] for the requested probabilities; the mixture fallback is sum(component cdf * weights); a grid that does not span the "
                         "requested probabilities raises")
    chk.rule("C15.default", "default expected delay: nodes and connections default to float(delay_dist.quantile(0.99)) and assert it non-negative")
    chk.rule("C15.estimator", "estimator result: data with zero spread is classified deterministic for every mean and exported as Deterministic(mean); otherwise a mixture "
                              "with normalised weights (last operation) and scales exp(log scale) rescaled by the data's std and mean")
    # ---------------------------------------------------------------- StaticDist.sample
    fi, ev, r = _ev(model, "base.StaticDist.sample")
    chk.used(fi.qualname)
    ret = r.ret
    split = T.mk_call("jax.random.split", [S("self.rng")], [("num", T.const(2))])
    def _leaves(t):
        if t[0] == "ite":
            return _leaves(t[2]) + _leaves(t[3])
        return [t]
    cases = _leaves(ret)  # every way sample() can return (e.g. a shortcut for shape=None) must obey the same rules
    ok = all(c[0] == "tuple" and len(c[1]) == 2 for c in cases)
    if ok:
        news = [c[1][0] for c in cases]
        smps = [c[1][1] for c in cases]
        bad_new = [n for n in news if n != T.mk_replace(S("self"), (("rng", T.mk_index(split, T.ZERO)),))]
        chk.add("C15.rng", "new state carries the first half of the split", not bad_new, f"sample returns state {T.show((bad_new or news)[0])[:120]}", chk.loc(fi))
        clipped = [smp[0] == "call" and T.call_name(smp) == "jax.numpy.clip" and len(smp[2]) == 3 and T.const_value(smp[2][1]) == 0 and smp[2][2] == T.NONE for smp in smps]
        bad = [smp for smp, c in zip(smps, clipped) if not c]
        chk.add("C15.nonneg", "StaticDist.sample clips at 0", not bad, f"samples = {T.show((bad or smps)[0])[:160]}, expected jnp.clip(samples, 0.0, None) on every return path", chk.loc(fi))
        inners = [smp[2][0] if c else smp for smp, c in zip(smps, clipped)]
        bad_i = [i for i in inners if not (i[0] == "call" and T.call_name(i) == "self.dist.sample" and dict(i[3]).get("seed") == T.mk_index(split, T.ONE))]
        chk.add("C15.rng", "sampler seeded with the second half", not bad_i, f"the distribution is sampled with {T.show((bad_i or inners)[0])[:160]}, expected seed = split(self.rng, 2)[1]", chk.loc(fi))
        uses = [e for e in r.events if e.kind == "call" and S("self.rng") in (list(e.args) + [v for _, v in e.kwargs])]
        chk.add("C15.rng", "stored key consumed exactly once (by the split)", len(uses) == 1 and uses[0].name == "jax.random.split", f"self.rng is used by {[u.name for u in uses]}", chk.loc(fi))
    else:
        chk.unknown("C15.rng", "StaticDist.sample", f"sample returns {T.show(ret)[:160]}", chk.loc(fi))
    fi, ev, r = _ev(model, "base.StaticDist.reset")
    chk.add("C15.rng", "reset stores the given key", r.ret == T.mk_replace(S("self"), (("rng", S("rng")),)), f"reset returns {T.show(r.ret)[:100]}", chk.loc(fi))
    fi, ev, r = _ev(model, "base.DelayDistribution.sample_pure")
    chk.add("C15.rng", "sample_pure delegates to sample", r.ret == T.mk_call("delay_dist.sample", [S("shape")]), f"sample_pure returns {T.show(r.ret)[:100]}", chk.loc(fi))
    fi, ev, r = _ev(model, "base.TrainableDist.reset")
    chk.add("C15.rng", "TrainableDist.reset is the identity", r.ret == S("self"), f"reset returns {T.show(r.ret)[:80]}", chk.loc(fi))
    d_ref = T.add(S("self.min"), T.mul(S("self.alpha"), T.sub(S("self.max"), S("self.min"))))
    fi, ev, r = _ev(model, "base.TrainableDist.sample")
    ones = {x: T.ONE for x in T.walk(r.ret) if x[0] == "call" and T.call_name(x) == "jax.numpy.ones"}
    val = T.subst(r.ret, ones)
    chk.add("C15.nonneg", "TrainableDist.sample == (self, min + alpha (max - min))", val == ("tuple", (S("self"), d_ref)), f"sample returns {T.show(val)[:160]}", chk.loc(fi))
    fi, ev, r = _ev(model, "base.TrainableDist.create", inline=("_get_alpha",))
    asserts = [e.term for e in r.events if e.kind == "assert"]
    alpha = T.div(T.sub(S("delay"), S("min")), T.sub(S("max"), S("min")))
    need = [T.lt(S("min"), S("max")), T.mk_and([T.le(T.ZERO, alpha), T.le(alpha, T.ONE)]), T.le(T.ZERO, S("min"))]
    chk.add("C15.nonneg", "TrainableDist.create asserts 0 <= min < max and 0 <= alpha <= 1", all(n in asserts for n in need), f"asserts: {[T.show(a)[:50] for a in asserts]}", chk.loc(fi))
    # ---------------------------------------------------------------- purity
    for q in ("base.StaticDist.sample", "base.StaticDist.reset", "base.StaticDist.quantile", "base.StaticDist.mean", "base.StaticDist.pdf", "base.TrainableDist.sample",
              "base.TrainableDist.reset", "base.TrainableDist.quantile", "base.TrainableDist.mean", "base.TrainableDist.pdf", "base.TrainableDist.window",
              "base.TrainableDist.get_alpha", "base.DelayDistribution.sample_pure", "base.DelayDistribution.quantile_pure", "base.DelayDistribution.mean_pure"):
        fi = model.func(q)
        eff = effects_of(fi)
        chk.add("C15.pure", q, not eff, f"{q} has effects: {eff[:2]}", chk.loc(fi))
    # ---------------------------------------------------------------- quantiles
    fi, ev, r = _ev(model, "base.StaticDist.quantile")
    chk.used(fi.qualname)
    ret = r.ret
    det = T.mk_call("isinstance", [S("self.dist"), S("distrax.Deterministic")])
    nrm = T.mk_call("isinstance", [S("self.dist"), S("distrax.Normal")])
    mix = T.mk_call("isinstance", [S("self.dist"), S("distrax.MixtureSameFamily")])
    v_det = T.assume(ret, det, True)
    ones = {x: T.ONE for x in T.walk(v_det) if x[0] == "call" and T.call_name(x) == "numpy.ones"}
    chk.add("C15.quantile", "Deterministic: the mean for every q", T.subst(v_det, ones) == T.mk_call("self.dist.mean", []), f"Deterministic quantile = {T.show(v_det)[:160]}", chk.loc(fi))
    v_n = T.assume(T.assume(ret, det, False), nrm, True)
    want = T.add(T.mul(T.mk_call("jax.scipy.special.ndtri", [S("q")]), S("self.dist.scale")), S("self.dist.loc"))
    chk.add("C15.quantile", "Normal: ndtri(q) * scale + loc for every q", v_n == want, f"Normal quantile = {T.show(v_n)[:200]}, expected ndtri(q) * scale + loc (any clamp of q breaks agreement with the CDF)", chk.loc(fi))
    v_m = T.assume(T.assume(T.assume(ret, det, False), nrm, False), mix, True)
    mq = [x for x in T.walk(v_m) if x[0] == "call" and T.call_name(x) == "rex.utils.mixture_distribution_quantiles"]

    def _paths(t):
        return _paths(t[2]) + _paths(t[3]) if t[0] == "ite" else [t]
    # every way the mixture branch can return goes through the grid routine (no closed-form shortcut for "almost one component")
    all_grid = all(any(x[0] == "call" and T.call_name(x) == "rex.utils.mixture_distribution_quantiles" for x in T.walk(pth)) for pth in _paths(v_m))
    kw = model.bind_call("utils.mixture_distribution_quantiles", mq[0][2], mq[0][3]) if mq else {}
    ok = all_grid and len(mq) == 1 and kw.get("dist") == S("self.dist") and mentions(kw.get("probs", T.NONE), "q") if mq else False
    if ok:
        lo, hi = kw.get("grid_min", T.NONE), kw.get("grid_max", T.NONE)
        ok = mentions(lo, "ndtri") and mentions(hi, "ndtri") and mentions(lo, "min") and mentions(hi, "max")
    chk.add("C15.quantile", "mixture: grid routine on the own distribution, grid spanning the components' tails", bool(ok), f"mixture quantile = {T.show(v_m)[:200]}", chk.loc(fi))
    raises = [e for e in r.events if e.kind == "raise" and e.func == fi.qualname]
    chk.add("C15.quantile", "unknown distribution raises", len(raises) == 1 and T.assume(T.assume(T.assume(raises[0].guard, det, False), nrm, False), mix, False) == T.TRUE,
            "an unsupported distribution must raise NotImplementedError", chk.loc(fi))
    for name in ("quantile", "mean"):
        fi, ev, r = _ev(model, f"base.TrainableDist.{name}")
        chk.add("C15.quantile", f"TrainableDist.{name} == min + alpha (max - min)", r.ret == d_ref, f"{name} returns {T.show(r.ret)[:120]}", chk.loc(fi))
    fi, ev, r = _ev(model, "base.StaticDist.mean")
    chk.add("C15.quantile", "StaticDist.mean is the distribution's mean", r.ret == T.mk_call("self.dist.mean", []), f"mean returns {T.show(r.ret)[:100]}", chk.loc(fi))
    # ---------------------------------------------------------------- mixture grid routine
    fi, ev, r = _ev(model, "utils.mixture_distribution_quantiles")
    # everything is read off the returned term and the events (no local variable names)
    ret = r.ret
    kw = dict(ret[3]) if ret[0] == "call" else {}
    pos = list(ret[2]) if ret[0] == "call" else []
    clo = kw.get("func1d", pos[0] if pos else T.NONE)
    # the grid is the array the result indexes
    G = T.NONE
    if clo[0] == "closure":
        q0 = ev.invoke(clo, [S("c")], r.frame)
        G = q0[1] if q0[0] == "index" else T.NONE
    okg = G[0] == "call" and T.call_name(G) == "numpy.linspace" and G[2][:2] == (S("grid_min"), S("grid_max"))
    chk.add("C15.grid", "grid = linspace(grid_min, grid_max, N)", bool(okg), f"grid = {T.show(G)[:120]}", chk.loc(fi))
    cdfs = [e for e in r.events if e.kind == "call" and e.name.endswith(".cdf")]
    chk.add("C15.grid", "every CDF is evaluated on the grid", len(cdfs) == 2 and all(any(x == G for x in T.walk(e.args[0])) for e in cdfs if e.args),
            f"cdf calls on {[T.show(e.args[0])[:80] for e in cdfs if e.args]}", chk.loc(fi))
    axis = kw.get("axis", pos[1] if len(pos) > 1 else T.NONE)
    cdf_grid = kw.get("arr", pos[2] if len(pos) > 2 else T.NONE)
    ok = ret[0] == "call" and T.call_name(ret) == "numpy.apply_along_axis" and clo[0] == "closure" and axis == T.ZERO
    chk.add("C15.grid", "the per-observation routine is applied along the grid axis of the cdf", bool(ok), f"result = {T.show(ret)[:200]}", chk.loc(fi))
    direct = cdf_grid[3] if cdf_grid[0] == "ite" else cdf_grid
    ok = direct[0] == "call" and T.call_name(direct) == "dist.cdf"
    okf = False
    if cdf_grid[0] == "ite":
        fb = cdf_grid[2]
        okf = fb[0] == "call" and isinstance(fb[1], tuple) and fb[1][0] == "attr" and fb[1][2] == "sum" and dict(fb[3]).get("axis") == T.const(-1) and not fb[2]
        if okf:
            prod = fb[1][1]
            comp = [x for x in T.walk(prod) if x[0] == "call" and T.call_name(x) == "dist.components_distribution.cdf"]
            w = [x for x in T.walk(prod) if x == S("dist.mixture_distribution.probs")]
            okf = len(comp) >= 1 and len(w) >= 1 and prod == T.mul(comp[0], T.mk_index(S("dist.mixture_distribution.probs"), T.NONE))
    chk.add("C15.grid", "cdf = dist.cdf(grid), fallback sum_k w_k cdf_k(grid) over the last axis", bool(ok and okf), f"cdf grid = {T.show(cdf_grid)[:260]}", chk.loc(fi))
    if clo[0] == "closure":
        q1 = ev.invoke(clo, [S("c")], r.frame)
        am = q1[2] if q1[0] == "index" else T.NONE
        ok = q1[0] == "index" and q1[1] == G and am[0] == "call" and isinstance(am[1], tuple) and am[1][0] == "attr" and am[1][2] == "argmax" and dict(am[3]).get("axis") == T.ONE
        cmpok, P = False, T.NONE
        if ok:
            c = am[1][1]
            if c[0] == "call" and T.call_name(c) in ("numpy.greater", "numpy.less") and len(c[2]) == 2:
                a_, b_ = c[2] if T.call_name(c) == "numpy.greater" else (c[2][1], c[2][0])
                cmpok, P = a_ == S("c"), b_
            elif c[0] == "lt0":
                for cand in [x for x in T.walk(c) if x[0] == "call" and T.call_name(x) in ("numpy.transpose", "numpy.tile", "numpy.broadcast_to")]:
                    if c == T.lt(cand, S("c")):
                        cmpok, P = True, cand
                        break
        chk.add("C15.grid", "quantile = grid[first index with cdf > p]", bool(ok and cmpok), f"per-observation result = {T.show(q1)[:240]}", chk.loc(fi))
        chk.add("C15.grid", "probabilities compared are the requested ones", any(x[0] == "call" and T.call_name(x) in ("numpy.tile", "numpy.broadcast_to", "numpy.repeat") and x[2] and x[2][0] == S("probs") for x in T.walk(P)) or P == S("probs"), f"probs grid = {T.show(P)[:160]}", chk.loc(fi))
    else:
        chk.add("C15.grid", "quantile = grid[first index with cdf > p]", False, "per-observation routine not found", chk.loc(fi))
    # the span test is the guard of the RuntimeError: min(probs) / max(probs) must lie within the cdf values of the grid
    def _no_exc(g):
        for x in {x for x in T.walk(g) if x[0] == "sym" and x[1].startswith("exc")}:
            g = T.assume(g, x, False)
        return g
    raises = [e for e in r.events if e.kind == "raise" and e.func == fi.qualname and _no_exc(e.guard) != T.FALSE]
    ok = len(raises) == 1
    gc = raises[0].guard if ok else T.NONE
    want_lo = [x for x in T.walk(gc) if x[0] == "call" and T.call_name(x) == "min" and x[2] == (S("probs"),)]
    want_hi = [x for x in T.walk(gc) if x[0] == "call" and T.call_name(x) == "max" and x[2] == (S("probs"),)]
    uses_cdf = any(x == cdf_grid for x in T.walk(gc)) if cdf_grid != T.NONE else False
    rets = [e for e in r.events if e.kind == "return" and e.func == fi.qualname]
    ok = ok and bool(want_lo) and bool(want_hi) and uses_cdf and len(rets) == 1 and flow_equiv_not(_no_exc(rets[0].guard), _no_exc(gc))
    chk.add("C15.grid", "a grid not spanning [min p, max p] raises", bool(ok), f"raise guard = {T.show(gc)[:240]}", chk.loc(fi))
    # ---------------------------------------------------------------- default delay
    for cls in ("Connection", "BaseNode"):
        fi, ev, r = _ev(model, f"node.{cls}.__init__")
        d = T.assume(r.attr("self", "delay"), T.eq(S("delay"), T.NONE, numeric=False), True)
        d = T.assume(d, T.eq(S("delay_dist"), T.NONE, numeric=False), False)
        for c in [x[1] for x in T.walk(d) if x[0] == "ite" and x[1][0] == "call" and x[1][1] == "isinstance" and x[1][2] and x[1][2][0][0] == "sym"]:
            d = T.assume(d, c, False)  # (the distrax -> StaticDist wrapping test on the parameter itself; any other test stays visible)
        ok = d == T.mk_call("delay_dist.quantile", [T.const(T.F(99, 100))])
        chk.add("C15.default", f"{cls}: default delay = quantile(0.99)", ok, f"default delay = {T.show(d)[:160]}", chk.loc(fi))
        given = T.assume(r.attr("self", "delay"), T.eq(S("delay"), T.NONE, numeric=False), False)
        chk.add("C15.default", f"{cls}: an explicit delay (incl. 0.0) is kept", given == S("delay"), f"explicit delay becomes {T.show(given)[:120]}", chk.loc(fi))
        nonneg = [e for e in r.events if e.kind == "assert" and e.term[0] in ("le0", "ite") and mentions(e.term, "delay")]
        chk.add("C15.default", f"{cls}: delay asserted >= 0", len(nonneg) >= 1, "no assert self.delay >= 0", chk.loc(fi))
    # ---------------------------------------------------------------- estimator
    fi, ev, r = _ev(model, "gmm_estimator.GMMEstimator.__init__")
    chk.used(fi.qualname)
    isdet = r.attr("self", "is_deterministic")
    std = [x for x in T.walk(isdet) if x[0] == "call" and T.call_name(x).endswith(".std")]
    mean = [x for x in T.walk(isdet) if x[0] == "call" and T.call_name(x).endswith(".mean")]
    ok = bool(std)
    bad = []
    if ok:
        try:
            for sv, want in ((T.F(0), True), (T.F(1), False)):
                for mv in (T.F(-1), T.F(0), T.F(1)):
                    val = {std[0]: sv, S("threshold"): T.F(1, 10 ** 7)}
                    for mm in mean:
                        val[mm] = mv
                    for x in T.walk(isdet):
                        if x[0] == "call" and x[1] == "abs" and x[2] and x[2][0] in val:
                            val[x] = abs(val[x[2][0]])
                    got = bool(T.evaluate(isdet, val))
                    if got != want:
                        bad.append((f"std={sv}", f"mean={mv}", got))
        except T.NoValue as ex:
            ok = False
            bad.append(str(ex))
    chk.add("C15.estimator", "zero-spread data is deterministic for every mean", ok and not bad, f"is_deterministic = {T.show(isdet)[:160]} deviates at {bad[:3]} (constant data, incl. all zeros, must be "
            "classified deterministic; spread data must not)", chk.loc(fi))
    # the standardisation of the data and _rescale are inverse to each other: the exported parameters are in the units of the data
    STD, MEAN = S("STD"), S("MEAN")
    canon = {T.mk_call("data.std", []): STD, T.mk_call("data.mean", []): MEAN}
    norm = T.subst(r.attr("self", "_data_norm"), canon)
    for c in [x[1] for x in T.walk(norm) if x[0] == "ite"]:
        norm = T.assume(norm, c, False) if T.assume(norm, c, False) != S("data") else T.assume(norm, c, True)
    # max(std, eps) with eps not above the deterministic threshold is std for every data set that is standardised at all
    for mx in [x for x in T.walk(norm) if x[0] == "max" and STD in x[1]]:
        others = [T.const_value(y) for y in mx[1] if y != STD]
        if all(o is not None and o <= T.F(1, 10 ** 7) for o in others):
            norm = T.subst(norm, {mx: STD})
    back = T.add(T.mul(norm, T.subst(r.attr("self", "_std"), canon)), T.subst(r.attr("self", "_mean"), canon))
    chk.add("C15.estimator", "standardisation and _rescale are inverse (data * std + mean)", back == S("data"), f"standardised data = {T.show(norm)[:160]}; mapped back with the stored std / mean it "
            f"gives {T.show(back)[:160]}, expected the data (otherwise the exported mixture is not in the units of the data)", chk.loc(fi))
    fi, ev, r = _ev(model, "gmm_estimator.GMMEstimator.get_dist")
    chk.used(fi.qualname)
    ret = r.ret
    dflag = S("self.is_deterministic")
    v = T.assume(ret, dflag, True)
    want = T.mk_call("rex.base.StaticDist.create", [T.mk_call("distrax.Deterministic", [], [("loc", T.mk_call("self.data.mean", [], [("dtype", T.const("float32"))]))])])
    chk.add("C15.estimator", "deterministic data -> Deterministic(mean)", v == want, f"deterministic export = {T.show(v)[:160]}", chk.loc(fi))
    v = T.assume(ret, dflag, False)
    mixs = [x for x in T.walk(v) if x[0] == "call" and T.call_name(x) == "distrax.MixtureSameFamily"]
    ok = len(mixs) == 1
    if ok:
        kw = dict(mixs[0][3])
        cat, comp = kw.get("mixture_distribution", T.NONE), kw.get("components_distribution", T.NONE)
        probs = dict(cat[3]).get("probs", T.NONE) if cat[0] == "call" else T.NONE
        chk.add("C15.estimator", "weights normalised as the last operation", probs[0] == "call" and T.call_name(probs).endswith("normalize_weights"), f"mixture weights = {T.show(probs)[:120]}", chk.loc(fi))
        scale = dict(comp[3]).get("scale", T.NONE) if comp[0] == "call" else T.NONE
        base = scale
        while base[0] in ("index", "slice"):
            base = base[1]
        chk.add("C15.estimator", "scales are exp(log scale) (positive)", base[0] == "call" and T.call_name(base) == "jax.numpy.exp" and mentions(base, "_rescale"), f"component scales = {T.show(scale)[:120]}", chk.loc(fi))
        loc = dict(comp[3]).get("loc", T.NONE) if comp[0] == "call" else T.NONE

        def _chain(t):
            ch = []
            while t[0] in ("index", "slice") and not (t[0] == "index" and t[1][0] == "call" and T.call_name(t[1]) == "self._rescale"):
                ch.append((t[0],) + tuple(t[2:]))
                t = t[1]
            return t, ch
        wbase, wch = _chain(probs[2][0]) if probs[0] == "call" and probs[2] else (T.NONE, None)
        lbase, lch = _chain(loc)
        sbase, sch = _chain(scale)
        resc = [x for x in T.walk(v) if x[0] == "call" and T.call_name(x) == "self._rescale"]
        rs = resc[0] if resc else T.NONE
        roles_ok = bool(resc) and lbase == T.mk_index(rs, T.const(2)) and sbase == T.mk_call("jax.numpy.exp", [T.mk_index(rs, T.const(3))]) \
            and wbase[0] == "call" and T.call_name(wbase).endswith("normalize_weights") and wbase[2] == (T.mk_call("jax.numpy.exp", [T.mk_index(rs, T.ZERO)]),)
        chk.add("C15.estimator", "weights, means and scales are sorted and pruned together", roles_ok and wch == lch == sch and bool(wch),
                f"selection applied to weights {[T.show(('index', S('w')) + c[1:])[:60] if c[0] == 'index' else 'slice' for c in (wch or [])]}, means {len(lch)} step(s), scales {len(sch)} step(s): every component "
                "parameter must go through the same argsort / pruning, or components get another component's scale", chk.loc(fi))
        chk.add("C15.estimator", "means and scales come from the rescaled parameters", mentions(loc, "_rescale") and T.call_name(comp) == "distrax.Normal", f"component means = {T.show(loc)[:120]}", chk.loc(fi))
    else:
        chk.unknown("C15.estimator", "mixture export", f"non-deterministic export = {T.show(v)[:160]}", chk.loc(fi))
    fi, ev, r = _ev(model, "gmm_estimator.GMMEstimator._rescale")
    ret = r.ret
    p = S("params")
    want = ("tuple", (T.mk_index(p, T.ZERO), T.mk_index(p, T.ONE), T.add(T.mul(T.mk_index(p, T.const(2)), S("self._std")), S("self._mean")),
                      T.add(T.mk_index(p, T.const(3)), T.mk_call("jax.numpy.log", [S("self._std")]))))
    chk.add("C15.estimator", "_rescale: mu * std + mean, log scale + log std (units of the data)", ret == want, f"_rescale returns {T.show(ret)[:200]}", chk.loc(fi))
