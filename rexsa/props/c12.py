"""C12 — generated and augmented graphs are well-formed and match the node configuration.

Max-plus bounds of the per-node timestamp scan (A7), the message-assignment tie rule as a truth table and its
agreement between the search loop and the final test (A6), horizon masks (A6), augment never overwrites (A3),
unsupported settings are rejected (A8).  Not decided: acyclicity as such, sample distributions.
"""
from __future__ import annotations

from .. import flow, order
from .. import terms as T
from ..asyncrt import mentions
from ..report import AnalysisError, Check
from ..symeval import SymEval

S = T.sym


def _setup(chk, model):
    fi = model.func("artificial._generate_graphs")
    chk.used(fi.qualname)
    ev = SymEval(model)
    r = ev.run_function(fi)
    for n in ("_scan_body_seq", "episode"):
        c = ev.callable_of(r, f"artificial._generate_graphs.{n}")
        if c is None or c[0] not in ("closure", "sym"):
            raise AnalysisError(f"closure {n} not found in _generate_graphs")
    return ev, r


def _is_copy_of(t, src) -> bool:
    """t is {k: v for k, v in src.items()} / dict(src) / src.copy() / {**src}: the same entries, nothing filtered or replaced."""
    if t == src:
        return True  # the given table itself is consulted (the new entries are collected separately and merged over a copy of it afterwards)
    items = T.mk_call(T.mk_attr(src, "items"), [])
    if t[0] == "comp" and t[1] == "dict" and len(t[3]) == 1 and not t[4] and t[3][0][1] == items and t[2][0] == "tuple" and len(t[2][1]) == 2:
        k, v = t[2][1]
        if k[0] == "tuple" and len(k[1]) == 2 and k[1][0][0] == "index" and k[1] == (T.mk_index(k[1][0][1], T.ZERO), T.mk_index(k[1][0][1], T.ONE)):
            k = k[1][0][1]  # a pair key spelled by its two components
        return k[0] == "index" and k[2] == T.ZERO and k[1][0] == "elem" and k[1][1] == items and v == T.mk_index(k[1], T.ONE)
    if t[0] == "call" and T.call_name(t) in ("dict", "collections.OrderedDict") and t[2] == (src,) and not t[3]:
        return True
    if t[0] == "call" and t[1] == T.mk_attr(src, "copy") if isinstance(t[1], tuple) else (t[0] == "call" and t[1] == src[1] + ".copy" if src[0] == "sym" else False):
        return not t[2]
    return False


def _keeps(t, src):
    """Does the table term `t` hold every entry of `src`?  True / False / None (a shape not read here)."""
    if _is_copy_of(t, src):
        return True
    if t[0] == "ite":
        a, b = _keeps(t[2], src), _keeps(t[3], src)
        return None if a is None or b is None else (a and b)
    if t[0] == "dict":
        stars = [v for k, v in t[1] if k == ("const", "**")]
        if not stars:
            return False  # a literal with individually listed entries
        ks = [_keeps(v, src) for v in stars]
        return True if any(k is True for k in ks) else (None if any(k is None for k in ks) else False)
    if t[0] == "comp" and t[1] == "dict":
        return False if not any(x == src for x in T.walk(t[3][0][1])) or t[4] else None
    if t[0] == "call" and T.call_name(t) in ("dict", "collections.OrderedDict") and not t[2] and not t[3]:
        return False
    return None


def _episode(ev, r):
    """Events of one evaluation of the per-episode generator on symbolic (rng_eps, _graphs, _ts_max)."""
    n0 = len(ev.events)
    ev.invoke(ev.callable_of(r, "artificial._generate_graphs.episode"), [S("rng_eps"), S("_graphs"), S("_ts_max")], r.frame)
    return ev.events[n0:]


def rule_scan(chk: Check, model, rule, ev=None, r=None):
    """Per-node timestamp scan of the graph generator (shared with C04: the same start-time law)."""
    if ev is None:
        ev, r = _setup(chk, model)
    f_gen = model.func("artificial._generate_graphs")
    # ---------------------------------------------------------------- step
    # taken from its use: the function handed to the lax.scan whose result becomes a node's vertex set, with whatever it was
    # bound to there (the node's name, or the node's rate and delay directly); NAME = the key the result is stored under
    sub = _episode(ev, r)
    scans = [e for e in sub if e.kind == "call" and e.name == "jax.lax.scan" and e.args and e.args[0][0] == "closure"]
    vst = [(e, sc) for e in sub if e.kind == "store_sub" for sc in scans if e.term == T.mk_index(sc.term, T.ONE)]
    if len(vst) != 1:
        chk.unknown(rule, "step", f"expected one lax.scan whose result is stored as a node's vertex set, found {len(vst)}", chk.loc(f_gen))
        return
    step_c = vst[0][1].args[0]
    cl = ev.closures.get(step_c[1])
    inner = cl.inner if cl is not None and cl.kind == "partial" else step_c
    iq = ev.closures[inner[1]].qualname if inner[0] == "closure" and inner[1] in ev.closures else (inner[1][4:] if inner[0] == "sym" and inner[1].startswith("rex.") else None)
    f_step = model.functions.get(iq) or f_gen
    chk.used(f_step.qualname)
    vst = [vst[0][0]]
    NAME, TSMAX = vst[0].key, S("_ts_max")
    carry = ("tuple", (S("ts_prev"), S("rng_prev")))
    out = ev.invoke(step_c, [carry, S("i")], r.frame)
    ok = out[0] == "tuple" and len(out[1]) == 2 and out[1][0][0] == "tuple" and out[1][1][0] == "obj" and out[1][1][1] == "Vertex"
    if not ok:
        chk.unknown(rule, "step", f"step returns {T.show(out)[:200]}", chk.loc(f_step))
    else:
        (ts_next, rng_next), vertex = out[1][0][1], {k: T.where_to_ite(v) for k, v in out[1][1][2]}
        split = T.mk_call("jax.random.split", [S("rng_prev")], [("num", T.const(2))])
        samples = [x for x in T.walk(vertex["ts_end"]) if x[0] == "index" and x[1][0] == "call" and T.call_name(x[1]).endswith(".sample")]
        d = samples[0] if samples else None
        chk.add(rule, "ts_start is the carried time", vertex.get("ts_start") == S("ts_prev"), f"Vertex.ts_start = {T.show(vertex.get('ts_start', T.NONE))[:100]}", chk.loc(f_step))
        chk.add(rule, "ts_end = ts_start + sampled delay", d is not None and T.const_value(d[2]) == 1 and vertex.get("ts_end") == T.add(S("ts_prev"), d),
                f"Vertex.ts_end = {T.show(vertex.get('ts_end', T.NONE))[:160]}", chk.loc(f_step))
        if d is not None:
            recv = d[1][1][1] if isinstance(d[1][1], tuple) and d[1][1][0] == "attr" else None  # receiver of .sample
            ok = recv is not None and recv[0] == "replace" and dict(recv[2]).get("rng") == T.mk_index(split, T.ZERO) and mentions(recv[1], "delay_dist") and NAME in set(T.walk(recv[1]))
            chk.add(rule, "delay sampled from the node's own distribution with a fresh key", bool(ok), f"the sample is drawn from {T.show(recv)[:160] if recv else None}, expected computation_delays[name].replace(rng=split[0])", chk.loc(f_step))
            chk.add(rule, "rng chain is linear", rng_next == T.mk_index(split, T.ONE), f"next carry rng = {T.show(rng_next)[:100]}, expected the other half of split(rng_prev, 2)", chk.loc(f_step))
            rate = T.mk_attr(T.mk_index(S("nodes"), NAME), "rate")
            want = T.mk_max([T.add(S("ts_prev"), d), T.add(S("ts_prev"), T.div(T.ONE, rate))])
            chk.add(rule, "ts_next = max(ts_end, ts_start + 1/rate)", ts_next == want, f"next start = {T.show(ts_next)[:200]}, expected max(ts_end, ts_prev + 1 / rate)", chk.loc(f_step))
            want_seq = T.mk_ite(T.lt(TSMAX, T.add(S("ts_prev"), d)), T.const(-1), S("i"))
            chk.add(rule, "seq = -1 iff ts_end > horizon", vertex.get("seq") == want_seq, f"Vertex.seq = {T.show(vertex.get('seq', T.NONE))[:160]}, expected where(ts_end > ts_max, -1, i)", chk.loc(f_step))


def run(chk: Check, model):
    chk.rule("C12.scan", "timestamp scan (A7): ts_start(k) is the carried value, ts_end = ts_start + sampled computation delay, ts_start(k+1) = max(ts_end, ts_start + 1/rate) "
                         "(no overlap, at least one period apart), ts_start(0) is the node's phase, the rng is split linearly, seq = -1 iff ts_end > horizon")
    chk.rule("C12.tie", "assignment tie rule (A6): a receiver step is accepted for a message iff its start >= the arrival (> if the connection is skipped); the search loop "
                        "and the final test use the same predicate; an unassigned message gets seq_in = -1")
    chk.rule("C12.mask", "horizon masks (A6): a message of a vertex that ends after the horizon (or was never sent) has seq_out = seq_in = -1; seq_in beyond the receiver's "
                         "last valid step is -1; ts_recv = sender ts_end + sampled communication delay (-1 if never sent)")
    chk.rule("C12.augment", "augment never overwrites (A3): a vertex set / edge is generated exactly when its key is missing from the given graph, and stored under that key")
    chk.rule("C12.reject", "unsupported settings are rejected (A8): advance, PHASE scheduling, blocking and BUFFER raise NotImplementedError before anything is generated for them")
    ev, r = _setup(chk, model)
    fi = model.func("artificial._generate_graphs")
    rule_scan(chk, model, "C12.scan", ev, r)
    # ---------------------------------------------------------------- tie rule
    f_sb = model.func("artificial._generate_graphs._scan_body_seq")
    n0 = len(ev.events)
    out = ev.invoke(ev.callable_of(r, "artificial._generate_graphs._scan_body_seq"), [S("skip"), S("ts_start"), S("seq"), S("ts_recv")], r.frame)
    wl = [e for e in ev.events[n0:] if e.kind == "call" and e.name == "jax.lax.while_loop"]
    if len(wl) != 1 or out[0] != "tuple":
        chk.unknown("C12.tie", "search loop", "expected one lax.while_loop in _scan_body_seq", chk.loc(f_sb))
    else:
        w = wl[0]
        cond_c, body_c, init = w.args
        q = S("q")
        cond = ev.invoke(cond_c, [q], r.frame)
        body = ev.invoke(body_c, [q], r.frame)
        chk.add("C12.tie", "search starts at the previous message's step and advances by 1", init == S("seq") and body == T.add(q, T.ONE), f"while_loop(init={T.show(init)}, body -> {T.show(body)[:60]})", chk.loc(f_sb))
        n = T.mk_index(S("ts_start.shape"), T.ZERO)
        s_at = T.mk_index(S("ts_start"), T.mk_call("%", [q, n]))
        ref_larger = lambda s, m, sk: (s > m) if sk else (s >= m)
        bad = []
        try:
            for rel, (vs, vm) in order.REL.items():
                for sk in (False, True):
                    for last in (False, True):
                        nv = T.F(5)
                        qv = T.F(4) if last else T.F(1)
                        val = {s_at: vs, S("ts_recv"): vm, S("skip"): sk, n: nv, q: qv}
                        got = bool(T.evaluate(cond, val))
                        want = not (ref_larger(vs, vm, sk) or last)
                        if got != want:
                            bad.append(((rel, sk, last), got, want))
            chk.add("C12.tie", "search loop continues until the first accepted step (or the last step)", not bad, f"loop condition deviates at {bad[:4]} ((start vs arrival, skip, is_last) -> got, expected)", chk.loc(f_sb))
        except T.NoValue as ex:
            chk.unknown("C12.tie", "search loop condition", f"not comparison-only: {ex}", chk.loc(f_sb))
        found = w.term
        clipped = T.where_to_ite(out[1][1])
        chk.add("C12.tie", "scan carries the found step", out[1][0] == found, "the scan must carry the step found for this message to the next message", chk.loc(f_sb))
        s_f = T.mk_index(S("ts_start"), found)
        ok = clipped[0] == "ite" and clipped[2] == found and T.const_value(clipped[3]) == -1
        bad = []
        if ok:
            try:
                for rel, (vs, vm) in order.REL.items():
                    for sk in (False, True):
                        got = bool(T.evaluate(clipped[1], {s_f: vs, S("ts_recv"): vm, S("skip"): sk}))
                        if got != ref_larger(vs, vm, sk):
                            bad.append(((rel, sk), got, ref_larger(vs, vm, sk)))
            except T.NoValue as ex:
                ok = False
        chk.add("C12.tie", "final acceptance test == loop predicate (>= , > under skip), else -1", ok and not bad, f"final test deviates at {bad[:4]} / result {T.show(clipped)[:160]}: a message "
                "stopped at a tied step must not be rejected by a different predicate", chk.loc(f_sb))
    # ---------------------------------------------------------------- episode: augment, masks, rejects
    f_ep = model.func("artificial._generate_graphs.episode")
    sub = _episode(ev, r)
    # the two local tables of an episode are recognised by what is stored: vertex sets come out of a scan, edges are Edge objects
    loc_st = [e for e in sub if e.kind == "store_sub" and e.func == f_ep.qualname and not e.name.startswith("self.")]
    vst = [e for e in loc_st if e.term[0] == "index" and e.term[1][0] == "call" and T.call_name(e.term[1]) == "jax.lax.scan"]
    est = [e for e in loc_st if e.term[0] == "obj" and e.term[1] == "Edge"]
    raises = [e for e in sub if e.kind == "raise" and e.func == f_ep.qualname]
    for what, sts, existing in (("vertices", vst, "_graphs.vertices"), ("edges", est, "_graphs.edges")):
        if len(sts) != 1:
            chk.add("C12.augment", f"{what}: one generation site", False, f"{len(sts)} stores into {what}", chk.loc(f_ep))
            continue
        e = sts[0]
        ins = [a for a in flow.bool_atoms(e.guard, []) if a[0] == "in" and a[1] == e.key]
        ok = len(ins) == 1 and mentions(ins[0][2], existing) and flow.implies(e.guard, T.mk_not(ins[0]))
        chk.add("C12.augment", f"{what}: never overwritten", ok, f"{what}[{T.show(e.key)[:60]}] is generated under {T.show(e.guard)[:200]}; it must be guarded by `key not in` the given {what}", chk.loc(f_ep, e.node))
        if ok:
            # the table the new items are added to starts as the given one, whole: every recorded vertex set / edge is kept,
            # whether or not `nodes` mentions its node
            chk.add("C12.augment", f"{what}: every existing entry is kept", _is_copy_of(ins[0][2], S(existing)), f"the {what} table starts as {T.show(ins[0][2])[:200]}, expected a full copy "
                    f"of {existing} (entries of recorded nodes that are not in `nodes` must survive augmentation)", chk.loc(f_ep, e.node))
        # ... and the table that is handed back (the one the generated entries were stored into) starts as that copy too: a table
        # that starts empty and is filled per configured node / connection forgets the recorded entries nobody configured
        rets = [x for x in sub if x.kind == "return" and x.func == f_ep.qualname and x.term is not None and x.term[0] == "obj" and x.term[1] == "Graph"]
        if ok and len(rets) == 1:
            kept = _keeps(dict(rets[0].term[2]).get(what, T.NONE), S(existing))
            if kept is not None:
                chk.add("C12.augment", f"{what}: the returned table starts from every existing entry", kept, f"the episode returns {what} = "
                        f"{T.show(dict(rets[0].term[2]).get(what, T.NONE))[:160]}, expected a table that starts as a full copy of {existing}", chk.loc(f_ep, rets[0].node))
        if ok:
            g = e.guard
            for rz in raises:
                if rz.loops[:1] == e.loops[:1]:
                    for a in flow.bool_atoms(rz.guard, []):
                        if a != ins[0]:
                            for v in (True, False):
                                pass
            # with no unsupported setting the item is generated whenever it is missing
            others = [a for a in flow.bool_atoms(g, []) if a != ins[0]]
            g2 = g
            for a in others:
                # choose the polarity that keeps the guard satisfiable (the non-raising value)
                t_, f_ = T.assume(g2, a, True), T.assume(g2, a, False)
                g2 = t_ if t_ != T.FALSE else f_
            chk.add("C12.augment", f"{what}: generated exactly when missing", g2 == T.mk_not(ins[0]), f"besides the rejections of unsupported settings, {what} generation is additionally "
                    f"conditioned: {T.show(g)[:240]}", chk.loc(f_ep, e.node))
    # the horizon of a graph that is being augmented: per episode, the latest end time over all recorded vertices
    gl = [l for l in r.loops.values() if l.kind == "for" and l.iter == T.mk_call("graphs.vertices.items", []) and len(l.env_in) == 1]
    okh = len(gl) == 1
    if okh:
        l = gl[0]
        (nm, sym_in), = l.env_in.items()
        v_el = T.mk_index(("elem", l.iter, l.uid), T.ONE)
        latest = T.mk_call(T.mk_attr(T.mk_attr(v_el, "ts_end"), "max"), [], [("axis", T.ONE)])
        body = l.env_out.get(nm, T.NONE)
        okh = body == T.mk_max([sym_in, latest]) \
            and l.pre.get(nm, T.NONE)[0] == "call" and T.call_name(l.pre[nm]) == "jax.numpy.zeros"
    chk.add("C12.mask", "augment: horizon = latest end time over all recorded vertices, per episode", bool(okh), "ts_max of a given graph must be the running maximum(ts_max, v.ts_end.max(axis=1)) over "
            "graphs.vertices, started at zeros (padded slots hold -1: the last entry of a shorter episode is not its latest end time)", chk.loc(fi))
    kinds = {"advance": 0, "PHASE": 0, "blocking": 0, "BUFFER": 0}
    for rz in raises:
        for k in kinds:
            g = rz.guard
            for a in [a for a in flow.bool_atoms(g, []) if a[0] == "call" and a[1] == "isinstance" and len(a[2]) == 2 and mentions(a[2][1], "TrainableDist")]:
                g = T.assume(g, a, False)  # the rejection must not depend on the delay being trainable
            if g != T.FALSE and (mentions(g, k) or any(x[0] == "sym" and x[1].endswith(k) for x in T.walk(g))):
                kinds[k] += 1
    for k, c in kinds.items():
        chk.add("C12.reject", f"{k} rejected", c >= 1, f"no raise guarded by {k} in the generator", chk.loc(f_ep))
    for rz in raises:
        # which generation the rejection belongs to: the setting its guard *requires* (a later rejection also carries the negation of the
        # earlier ones when those sit in a helper that has already returned)
        about_node = any(flow.implies(rz.guard, a) for a in flow.bool_atoms(rz.guard, []) if mentions(a, "advance") or mentions(a, "scheduling"))
        tgt = vst if about_node else est
        ok = bool(tgt) and rz.idx < tgt[0].idx and T.call_name(rz.term).startswith("NotImplementedError")
        chk.add("C12.reject", f"rejection precedes generation (line {rz.lineno - f_ep.lineno})", ok, "an unsupported setting must raise NotImplementedError before its vertices / edges are generated", chk.loc(f_ep, rz.node))
    # vertices come from the scan of `step` started at the node's phase
    if vst:
        scans = [e for e in sub if e.kind == "call" and e.name == "jax.lax.scan" and e.func == f_ep.qualname and e.idx < vst[0].idx]
        ok = len(scans) == 1 and vst[0].term == T.mk_index(scans[0].term, T.ONE)
        if ok:
            sc = scans[0]
            init = sc.args[1]
            ok = init[0] == "tuple" and len(init[1]) == 2 and T.call_name(init[1][0][1]).endswith(".sample") if init[0] == "tuple" and init[1][0][0] == "index" else False
            # (the distribution that is sampled, not the random key handed to it: the key's split count mentions every table)
            smp_rcv = init[1][0][1][1][1] if ok and init[1][0][1][1][0] == "attr" else init
            smp_rcv = smp_rcv[1] if smp_rcv[0] == "replace" else smp_rcv
            ph = [x for x in T.walk(smp_rcv[1] if smp_rcv[0] == "index" else smp_rcv) if x[0] == "call" and T.call_name(x) == "distrax.Deterministic"]
            ok = ok and len(ph) >= 1 and all(dict(x[3]).get("loc") is not None and dict(x[3])["loc"][0] == "attr" and dict(x[3])["loc"][2] == "phase" for x in ph)
            # (what the scanned function is bound to - the node stored under this key, the episode's horizon - is checked on the
            # function as bound at this very call: rule_scan)
        chk.add("C12.scan", "first start = the node's phase; scanned with step(name, horizon)", bool(ok), "vertices[n] must be scan(partial(step, n, _ts_max), (phase sample, rng), arange(num_steps))[1] "
                "with the phase distribution Deterministic(loc=node.phase)", chk.loc(f_ep))
    # edge construction
    if est:
        e = est[0]
        ed = {k: T.where_to_ite(v) for k, v in e.term[2]} if e.term[0] == "obj" and e.term[1] == "Edge" else None
        if ed is None:
            chk.unknown("C12.mask", "Edge", f"edges[...] = {T.show(e.term)[:120]}", chk.loc(f_ep, e.node))
        else:
            key = e.key
            # the (sender, receiver) key, spelled as a pair or kept whole (then its two components are key[0], key[1])
            o, i_ = key[1] if key[0] == "tuple" and len(key[1]) == 2 else (T.mk_index(key, T.ZERO), T.mk_index(key, T.ONE))
            vo = T.mk_index(_vert(sub, f_ep), o)
            seq0 = [x for x in T.walk(ed["seq_out"]) if x[0] == "attr" and x[2] == "seq"]
            so0 = seq0[0] if seq0 else None
            ok = so0 is not None and so0[1][0] == "index" and so0[1][2] == o
            chk.add("C12.mask", "seq_out taken from the sender's vertices", ok, f"seq_out derives from {T.show(so0)[:100] if so0 else None}, expected vertices[output_name].seq", chk.loc(f_ep, e.node))
            if ok:
                vsend = so0[1]
                te = T.mk_ite(T.eq(so0, T.const(-1), numeric=True), T.mk_call("float", []) if False else S("jax.numpy.inf"), T.mk_attr(vsend, "ts_end"))
                late = T.lt(S("_ts_max"), te)
                chk.add("C12.mask", "seq_out = -1 beyond the horizon / never sent", ed["seq_out"] == T.mk_ite(late, T.const(-1), so0), f"Edge.seq_out = {T.show(ed['seq_out'])[:200]}, expected where(ts_end > horizon, -1, seq_out) with ts_end = inf for unsent",
                        chk.loc(f_ep, e.node))
                sc2 = [x for x in sub if x.kind == "call" and x.name == "jax.lax.scan" and x.func == f_ep.qualname and x.idx > (vst[0].idx if vst else 0)]
                okm = len(sc2) == 1
                if okm:
                    clipped = T.mk_index(sc2[0].term, T.ONE)
                    recv_seq_max = [x for x in T.walk(ed["seq_in"]) if x[0] == "call" and T.call_name(x).endswith(".seq.max")]
                    want_in = T.mk_ite(T.lt(recv_seq_max[0], clipped), T.const(-1), T.mk_ite(late, T.const(-1), clipped)) if recv_seq_max else None
                    okm = want_in is not None and ed["seq_in"] == want_in and mentions(recv_seq_max[0], "vertices") and any(x == i_ for x in T.walk(recv_seq_max[0]))
                    chk.add("C12.mask", "seq_in = -1 beyond the horizon / beyond the receiver's last step", okm, f"Edge.seq_in = {T.show(ed['seq_in'])[:240]}", chk.loc(f_ep, e.node))
                    # scan inputs: skip flag of this connection, receiver start times, arrival times
                    cl = ev.closures.get(sc2[0].args[0][1]) if sc2[0].args[0][0] == "closure" else None
                    conn = None
                    okc = cl is not None and cl.kind == "partial" and cl.inner == ev.callable_of(r, "artificial._generate_graphs._scan_body_seq") and len(cl.bound_args) == 2
                    if okc:
                        skipt, tst = cl.bound_args
                        okc = skipt[0] == "attr" and skipt[2] == "skip" and tst[0] == "attr" and tst[2] == "ts_start" and tst[1][0] == "index" and tst[1][2] == i_
                        conn = skipt[1]
                    chk.add("C12.tie", "search uses the connection's skip flag and the receiver's start times", bool(okc), "scan(partial(_scan_body_seq, c.skip, vertices[input_name].ts_start), 0, ts_recv)", chk.loc(f_ep, sc2[0].node))
                    xs = T.where_to_ite(sc2[0].args[2]) if len(sc2[0].args) > 2 else T.NONE
                    unsent = T.eq(so0, T.const(-1), numeric=True)
                    okr = T.const_value(sc2[0].args[1]) == 0
                    for v in (True, False):
                        xv = T.assume(xs, unsent, v)
                        tev = T.assume(te, unsent, v)
                        smp = [x for x in T.walk(xv) if x[0] == "index" and x[1][0] == "call" and T.call_name(x[1]).endswith(".sample") and T.const_value(x[2]) == 1]
                        okr = okr and len(smp) == 1 and xv == T.add(tev, smp[0])
                        if okr:
                            rcv = smp[0][1][1][1]
                            okr = rcv[0] == "replace" and "rng" in dict(rcv[2]) and _own_entry(rcv[1], key, _conn_table(r, fi)[1])
                    chk.add("C12.mask", "arrival = sender ts_end + sampled communication delay of this connection", bool(okr), f"arrival times are {T.show(xs)[:200]}, expected ts_end + communication_delays[(out, in)].replace(rng=...).sample(...)[1]",
                            chk.loc(f_ep, sc2[0].node))
                    if okr:
                        want_tr = T.mk_ite(T.eq(so0, T.const(-1), numeric=True), T.const(-1), xs)
                        chk.add("C12.mask", "ts_recv recorded (-1 if never sent)", ed["ts_recv"] == want_tr, f"Edge.ts_recv = {T.show(ed['ts_recv'])[:200]}", chk.loc(f_ep, e.node))
                else:
                    ss = [x for x in sub if x.kind == "call" and x.name.rsplit(".", 1)[-1] == "searchsorted" and x.func == f_ep.qualname]
                    if ss and not sc2:
                        # a binary search assumes the receiver's start times are sorted; the start times of a given (stacked, padded) graph end in
                        # -1 entries, so the search lands in the padding: the assignment must walk the start times in order
                        chk.violation("C12.mask", "arrival assigned by walking the receiver's start times in order", "the receiver step of an arrival is found with searchsorted over "
                                      "vertices[input_name].ts_start, which is not sorted for padded episodes of a given graph", chk.loc(f_ep, ss[0].node))
                    else:
                        chk.unknown("C12.mask", "assignment scan", "expected one scan over the arrival times", chk.loc(f_ep))
    # per node: the computation delay generated with is the node's own delay distribution, its first start the node's phase
    per_node = [e for e in r.events if e.kind == "store_sub" and e.func == fi.qualname and len(e.loops) == 1 and e.key is not None and e.key[0] == "attr" and e.key[2] == "name"]
    comp_ = [e for e in per_node if not (e.term[0] == "call" and T.call_name(e.term).endswith("StaticDist.create"))]
    okn = len(comp_) == 1 and comp_[0].term == T.mk_attr(comp_[0].key[1], "delay_dist")
    chk.add("C12.scan", "each node is generated with its own computation-delay distribution", bool(okn), f"the computation delay stored for a node is "
            f"{T.show(comp_[0].term)[:160] if comp_ else None}, expected <node>.delay_dist of the same node", chk.loc(fi, comp_[0].node if comp_ else None))
    # communication delay table keyed by (sender, receiver) — and every connection of every node is covered
    st, comps = _conn_table(r, fi)
    ok = len(st) in (1, 2) and len(comps) == 2 and all(e.key == st[0].key for e in st) and st[0].key[0] == "tuple"
    if ok:
        k = st[0].key[1]
        ok = k[0][0] == "attr" and k[0][2] == "name" and k[0][1][2] == "output_node" and k[1][1][2] == "input_node" and any(len(e.loops) == 2 for e in st)
    # the communication delay stored for a connection is that connection's own distribution (Deterministic(min) for a trainable one)
    class _V:
        def __init__(self, term):
            self.term = term
    dd_st = [_V(v) for v, _ in comps if v[0] == "ite" or (v[0] == "attr" and v[2] == "delay_dist")]
    okd = len(dd_st) == 1
    if okd:
        conn = [_V(v) for v, _ in comps if v is not dd_st[0].term]
        c_t = conn[0].term if conn else T.NONE
        v = dd_st[0].term
        if v[0] == "ite":
            cnds = [x[1] for x in T.walk(v) if x[0] == "ite"]
            plain = v
            for c_ in cnds:
                plain = T.assume(plain, c_, False)
        else:
            plain = v
        okd = plain == T.mk_attr(c_t, "delay_dist")
    chk.add("C12.mask", "the delay sampled for a connection is the connection's own delay distribution", bool(okd),
            f"communication delay stored for a connection = {T.show(dd_st[0].term)[:200] if dd_st else None}, expected c.delay_dist of the same connection", chk.loc(fi))
    # augment_graphs: an un-batched graph gets one temporary episode axis, and exactly that axis is removed again
    f_aug = model.func("artificial.augment_graphs")
    chk.used(f_aug.qualname)
    ra = SymEval(model).run_function(f_aug)
    exp = [e for e in ra.events if e.kind == "call" and e.name == "jax.numpy.expand_dims"]
    sq = [e for e in ra.events if e.kind == "call" and e.name == "jax.numpy.squeeze"]
    oka = len(exp) == 1 and len(sq) == 1 and dict(exp[0].kwargs).get("axis", exp[0].args[1] if len(exp[0].args) > 1 else None) == T.ZERO \
        and dict(sq[0].kwargs).get("axis", sq[0].args[1] if len(sq[0].args) > 1 else None) == T.ZERO and flow.equivalent(exp[0].guard, sq[0].guard)
    chk.add("C12.augment", "augment_graphs removes exactly the episode axis it added", bool(oka), "an un-batched graph is expanded with expand_dims(x, axis=0) and must be restored with "
            "squeeze(x, axis=0) under the same condition (an axis-free squeeze also collapses length-1 vertex / message axes)", chk.loc(f_aug))
    chk.add("C12.augment", "connections keyed (sender, receiver) over all nodes' outputs", bool(ok), "communication delays and connections must be keyed (c.output_node.name, c.input_node.name) for every output of every node", chk.loc(fi))


def _conn_table(r, fi):
    """The per-connection table(s) of the generator: the stores keyed by a (sender, receiver) pair inside the loop over every node's
    outputs, and the components stored per connection with the projection that gets each back out of its entry (None: the entry
    itself).  The connection and its communication delay may sit in two tables or side by side in one entry (a pair, a record)."""
    # (filled inside the loop over the nodes' outputs, or in a second pass over the table that loop filled)
    from ..roles import stores_through_derived_tables
    st = [e for e in stores_through_derived_tables(r) if e.func == fi.qualname and e.key is not None and e.key[0] == "tuple" and len(e.key[1]) == 2 and len(e.loops) in (1, 2)
          and not (e.term[0] == "obj" and e.term[1] == "Edge")]
    comps = []
    for e in st:
        v = e.term
        if v[0] == "tuple":
            comps += [(x, ("index", i)) for i, x in enumerate(v[1])]
        elif v[0] == "obj":
            comps += [(x, ("attr", k)) for k, x in v[2]]
        else:
            comps.append((v, None))
    return st, comps


def _own_entry(t, key, comps) -> bool:
    """t is the communication delay stored for the connection `key`: table[key], or - iterating over the table's items - the delay
    component of the item whose key is `key`."""
    if t[0] == "index" and t[2] == key:
        return True
    # the delay looked up (by this key) in a table that a second pass derived from the connection table: the entry of the element whose key it
    # is, i.e. the delay computed from the connection stored under that key
    for x in T.walk(t):
        if x[0] == "elem" and x[1][0] == "call" and isinstance(x[1][1], tuple) and x[1][1][0] == "attr" and x[1][1][2] == "items" and x[1][1][1][0] == "comp" and x[1][1][1][2][0] == "tuple":
            v_ = x[1][1][1][2][1][1]
            dist_ = [v for v, _ in comps if v[0] == "ite" or (v[0] == "attr" and v[2] == "delay_dist")]
            if len(dist_) == 1 and T.subst(t, {T.mk_index(x, T.ONE): v_}) == dist_[0] and not any(y == T.mk_index(x, T.ZERO) for y in T.walk(t)):
                return True
    proj = None
    if t[0] == "attr":
        proj, base = ("attr", t[2]), t[1]
    elif t[0] == "index" and T.const_value(t[2]) is not None:
        proj, base = ("index", T.const_value(t[2])), t[1]
    if proj is None:
        return False
    dist = [p for v, p in comps if v[0] == "ite" or (v[0] == "attr" and v[2] == "delay_dist")]
    if dist != [proj]:
        return False
    K = key
    if key[0] == "tuple" and len(key[1]) == 2 and key[1][0][0] == "index" and key[1][1] == T.mk_index(key[1][0][1], T.ONE) and T.const_value(key[1][0][2]) == 0:
        K = key[1][0][1]
    return K[0] == "index" and T.const_value(K[2]) == 0 and base == T.mk_index(K[1], T.ONE)


def _vert(sub, f_ep):
    return S("vertices")
