"""C16 — node phases and node infos stay consistent with the configured delays.

A4 (setter parameter reaches the field), A8 (info writer / reader field agreement), A7 (phase recurrence),
plus the algebraic-loop handler re-raising on every path.
"""
from __future__ import annotations

import ast

from .. import flow
from .. import terms as T
from ..report import AnalysisError, Check
from ..symeval import SymEval

S = T.sym


def _ev(model, qual, **kw):
    fi = model.func(qual)
    ev = SymEval(model, **kw)
    return fi, ev, ev.run_function(fi)


def _drop_isinstance(t, value=False):
    """Specialise away isinstance(...) selectors (the distrax -> StaticDist wrapping is not under test)."""
    for _ in range(4):
        # only tests on a parameter / attribute itself (is it a raw distrax distribution, a string, ...): a test on something
        # derived from it selects between different computations and stays visible
        conds = [x[1] for x in T.walk(t) if x[0] == "ite" and x[1][0] == "call" and x[1][1] == "isinstance" and x[1][2] and x[1][2][0][0] == "sym"]
        if not conds:
            break
        for c in conds:
            t = T.assume(t, c, value)
    return t


def _given(t, param: str, given: bool):
    return _drop_isinstance(T.assume(t, T.eq(S(param), T.NONE, numeric=False), not given))


def rule_phase(chk: Check, model, rid: str):
    """phase = max(0, non-skipped input phases); phase_output = phase + delay; Connection.phase = sender phase_output + delay
    (shared with C04: the scheduled time of step k is k/rate + this phase)."""
    fi_p, ev, r = _ev(model, "node.BaseNode.phase")
    chk.used(fi_p.qualname)
    ph = r.ret
    ok = False
    detail = T.show(ph)[:240]
    if ph[0] == "call" and ph[1] == "max" and len(ph[2]) == 1 and ph[2][0][0] == "call" and ph[2][0][1] == "+":
        a, b = ph[2][0][2]
        if b[0] == "list":
            a, b = b, a
        if a[0] == "list" and len(a[1]) == 1 and T.const_value(a[1][0]) == 0 and b[0] == "comp":
            elt, gens, conds = b[2], b[3], b[4]
            el = [T.mk_index(x, T.ONE) for x in T.walk(elt) if x[0] == "elem"]
            ok = (len(el) == 1 and elt == T.mk_attr(el[0], "phase") and gens[0][1] == T.mk_call("self.inputs.items", [])
                  and len(conds) == 1 and conds[0] == T.mk_not(T.mk_attr(el[0], "skip")))
    chk.add(rid, "BaseNode.phase", ok, f"phase = {detail}, expected max([0.0] + [c.phase for c in inputs if not c.skip])", chk.loc(fi_p))
    fi, ev, r = _ev(model, "node.BaseNode.phase_output", inline_properties=False)
    chk.used(fi.qualname)
    chk.add(rid, "BaseNode.phase_output", r.ret == T.add(S("self.phase"), S("self.delay")),
            f"phase_output = {T.show(r.ret)[:160]}, expected self.phase + self.delay", chk.loc(fi))
    fi, ev, r = _ev(model, "node.Connection.phase", inline_properties=False)
    chk.used(fi.qualname)
    chk.add(rid, "Connection.phase", r.ret == T.add(S("self.output_node.phase_output"), S("self.delay")),
            f"Connection.phase = {T.show(r.ret)[:160]}, expected self.output_node.phase_output + self.delay", chk.loc(fi))


def run(chk: Check, model):
    chk.rule("C16.setter", "set_delay: each parameter that is given reaches the same-named attribute; an omitted one keeps the old value (A4)")
    chk.rule("C16.init", "constructor parameters reach their attributes; the default expected delay is the 0.99 quantile and asserted >= 0")
    chk.rule("C16.info", "info writer and from_info / connect_from_info reader agree field by field on every constructor parameter (A8)")
    chk.rule("C16.phase", "phase == max(0, {c.phase | c in inputs, not c.skip}); Connection.phase == output_node.phase_output + delay; "
                          "phase_output == phase + delay; infos read the properties (A7)")
    chk.rule("C16.loop", "the RecursionError handler of BaseNode.phase re-raises on every path")

    # ------------------------------------------------------------------ the simulation samples from what is configured
    chk.rule("C16.bind", "the simulated delays follow the configured distributions: every warmup() rebinds the node's and each input's delay samplers to the "
                         "current delay_dist (set_delay followed by init / warmup takes effect), unconditionally")
    from ..asyncflow import AsyncView
    view = AsyncView(model)
    for key, src in (("node.warmup", "self.node.delay_dist"), ("conn.warmup", "delay_dist")):
        rw = view.results[key]
        fw = view.fi(key)
        chk.used(fw.qualname)
        for attr, meth in (("_jit_reset", "reset"), ("_jit_sample", "sample_pure")):
            sts = [e for e in rw.events if e.kind == "store_attr" and e.name == f"self.{attr}"]
            ok = len(sts) == 1 and sts[0].guard == T.TRUE and not sts[0].loops
            inner = None
            if ok:
                c = rw.ev.closures.get(sts[0].term[1]) if sts[0].term[0] == "closure" else None
                inner = c.inner if c is not None else None
                ok = inner is not None and inner[0] in ("sym", "attr") and T.show(inner).endswith(f"delay_dist.{meth}") and src in T.show(inner)
            chk.add("C16.bind", f"{key}: self.{attr} <- {meth} of the current distribution", bool(ok), f"self.{attr} is bound {len(sts)} time(s)"
                    + (f" under {T.show(sts[0].guard)[:80]} to {T.show(inner)[:100] if inner else T.show(sts[0].term)[:60]}" if sts else "")
                    + f"; expected one unconditional jax.jit({src}.{meth}) per warmup (a warmup that returns early keeps sampling the old distribution)", chk.loc(fw, sts[0].node if sts else None))
    rw = view.results["node.warmup"]
    iw = [e for e in rw.events if e.kind == "call" and e.name.endswith(".warmup") and e.loops]
    chk.add("C16.bind", "node.warmup warms up every input", len(iw) == 1 and iw[0].guard == T.TRUE, "node.warmup must call warmup() of every input unconditionally", chk.loc(view.fi("node.warmup")))
    # ------------------------------------------------------------------ setters
    for cls in ("Connection", "BaseNode"):
        fi, ev, r = _ev(model, f"node.{cls}.set_delay")
        chk.used(fi.qualname)
        loc = chk.loc(fi)
        dd = r.attr("self", "delay_dist")
        got = _given(dd, "delay_dist", True)
        chk.add("C16.setter", f"{cls}.set_delay(delay_dist=...)", got == S("delay_dist"),
                f"with a delay_dist given, self.delay_dist becomes {T.show(got)[:200]}, expected the parameter", loc)
        got = _given(dd, "delay_dist", False)
        chk.add("C16.setter", f"{cls}.set_delay(delay_dist=None)", got == S("self.delay_dist"),
                f"without a delay_dist, self.delay_dist becomes {T.show(got)[:200]}, expected the old value", loc)
        # distrax distributions are wrapped, not dropped
        wrapped = _drop_isinstance(T.assume(dd, T.eq(S("delay_dist"), T.NONE, numeric=False), False), True)
        okw = wrapped[0] == "call" and str(wrapped[1]).endswith("StaticDist.create") and wrapped[2] == (S("delay_dist"),)
        chk.add("C16.setter", f"{cls}.set_delay wraps a distrax distribution", okw,
                f"a distrax distribution becomes {T.show(wrapped)[:200]}, expected StaticDist.create(delay_dist)", loc)
        d = r.attr("self", "delay")
        got = T.assume(d, T.eq(S("delay"), T.NONE, numeric=False), False)
        chk.add("C16.setter", f"{cls}.set_delay(delay=...)", got == S("delay"), f"with a delay given, self.delay becomes {T.show(got)[:200]}", loc)
        got = T.assume(d, T.eq(S("delay"), T.NONE, numeric=False), True)
        chk.add("C16.setter", f"{cls}.set_delay(delay=None)", got == S("self.delay"), f"without a delay, self.delay becomes {T.show(got)[:200]}", loc)
        if cls == "BaseNode":
            raises = [e for e in r.events if e.kind == "raise" and any(x[0] == "call" and "TrainableDist" in str(x[2]) or
                      (x[0] == "sym" and "TrainableDist" in x[1]) for x in T.walk(e.guard))]
            chk.add("C16.setter", "BaseNode.set_delay rejects a trainable computation delay", len(raises) >= 1,
                    "no raise guarded by isinstance(self.delay_dist, TrainableDist)", loc)

    # ------------------------------------------------------------------ constructors: parameter -> attribute
    ctor_attr = {}
    for cls, params in (("Connection", ["input_node", "output_node", "blocking", "delay", "delay_dist", "window", "skip", "jitter", "input_name"]),
                        ("BaseNode", ["name", "rate", "delay", "delay_dist", "advance", "scheduling", "color", "order"])):
        fi, ev, r = _ev(model, f"node.{cls}.__init__")
        chk.used(fi.qualname)
        loc = chk.loc(fi)
        have = [a.arg for a in fi.node.args.args[1:]]
        chk.add("C16.init", f"{cls}.__init__ parameters", have == params, f"parameters are {have}, reference table has {params}", loc)
        for p in params:
            attr = p
            v = r.attr("self", attr)
            got = _given(v, p, True)
            if p == "input_name":
                got = _drop_isinstance(v, True)
            chk.add("C16.init", f"{cls}.{attr} <- {p}", got == S(p), f"self.{attr} = {T.show(got)[:160]} when {p} is given, expected the parameter", loc)
            ctor_attr[(cls, p)] = attr
        # default expected delay
        d = _given(T.assume(r.attr("self", "delay"), T.eq(S("delay"), T.NONE, numeric=False), True), "delay_dist", True)
        want = T.mk_call("delay_dist.quantile", [T.const(T.F(99, 100))])
        ok = d[0] == "call" and d[1] == "delay_dist.quantile" and d[2] == (T.const(T.F(99, 100)),) and not d[3]
        chk.add("C16.init", f"{cls}: default delay is quantile(0.99) of the distribution", ok,
                f"default self.delay = {T.show(d)[:200]}, expected float(self.delay_dist.quantile(0.99))", loc)
        asserts = [e for e in r.events if e.kind == "assert"]
        nonneg = [e for e in asserts if _is_nonneg_assert(e.term)]
        chk.add("C16.init", f"{cls}: delay asserted non-negative", len(nonneg) >= 1, "no assert self.delay >= 0", loc)

    # ------------------------------------------------------------------ connect -> Connection(...)
    fi, ev, r = _ev(model, "node.BaseNode.connect")
    chk.used(fi.qualname)
    mk = [e for e in r.events if e.kind == "call" and e.name == "rex.node.Connection"]
    if len(mk) != 1:
        raise AnalysisError("BaseNode.connect does not construct exactly one Connection")
    cparams = ["input_node", "output_node", "blocking", "delay", "delay_dist", "window", "skip", "jitter", "input_name"]
    bound = dict(zip(cparams, mk[0].args))
    bound.update(dict(mk[0].kwargs))
    want = {"input_node": S("self"), "output_node": S("output_node"), "blocking": S("blocking"), "delay": S("delay"),
            "delay_dist": S("delay_dist"), "window": S("window"), "skip": S("skip"), "jitter": S("jitter")}
    for p, w in want.items():
        chk.add("C16.info", f"connect -> Connection.{p}", bound.get(p) == w, f"Connection({p}=...) gets {T.show(bound.get(p, T.NONE))}, expected {T.show(w)}",
                chk.loc(fi, mk[0].node))
    nm = _drop_isinstance(bound.get("input_name", T.NONE), True)
    chk.add("C16.info", "connect -> Connection.input_name", nm == S("name"), f"input_name gets {T.show(nm)} for a given name", chk.loc(fi, mk[0].node))
    regs_ev = [e for e in r.events if e.kind == "store_sub"]
    chk.add("C16.info", "connect always registers the connection it built", len(regs_ev) == 2 and all(e.guard == T.TRUE for e in regs_ev),
            "every call of connect must store the freshly built Connection in self.inputs and output_node.outputs (an in-place update of an older edge copies only some "
            "of the settings)", chk.loc(fi))
    # (a key read back from the new connection, `connection.input_name` / `connection.input_node.name`, is what the constructor stored under that
    # attribute - C16.init above: the parameter of the same role)
    attr_param = {a: p_ for (c_, p_), a in ctor_attr.items() if c_ == "Connection"}

    def _read_back(t):
        return T.subst(t, {("attr", mk[0].term, a): bound[p_] for a, p_ in attr_param.items() if p_ in bound})
    regs = {e.name: (_read_back(e.key), e.term) for e in r.events if e.kind == "store_sub"}
    nkey = _drop_isinstance(regs.get("self.inputs", (T.NONE, T.NONE))[0], True)
    chk.add("C16.info", "connect registers the input under its (shadow) name", nkey == S("name") and regs["self.inputs"][1] == mk[0].term,
            f"self.inputs[{T.show(nkey)}] = {T.show(regs.get('self.inputs', (T.NONE, T.NONE))[1])[:80]}", chk.loc(fi))
    ok = "output_node.outputs" in regs and regs["output_node.outputs"][0] == S("self.name") and regs["output_node.outputs"][1] == mk[0].term
    chk.add("C16.info", "connect registers the output under the input node's name", ok, "output_node.outputs[self.name] is not the new connection", chk.loc(fi))

    # ------------------------------------------------------------------ Connection.info written fields
    fi_ci, ev, r = _ev(model, "node.Connection.info")
    chk.used(fi_ci.qualname)
    cinfo = r.ret
    if cinfo[0] != "obj" or cinfo[1] != "InputInfo":
        raise AnalysisError("Connection.info does not return an InputInfo construction")
    written = dict(cinfo[2])  # field -> term over self.<attr>
    # reader: connect_from_info
    fi, ev, r = _ev(model, "node.BaseNode.connect_from_info")
    chk.used(fi.qualname)
    calls = [e for e in r.events if e.kind == "call" and e.name == "self.connect"]
    if len(calls) != 1 or not calls[0].loops:
        raise AnalysisError("connect_from_info does not call self.connect once per info")
    c = calls[0]
    chk.add("C16.info", "connect_from_info connects every given input", c.guard == T.TRUE, f"self.connect is called under {T.show(c.guard)[:160]}: an input that is skipped keeps whatever "
            "edge (delay, distribution, window, ...) the node had before, not the one of the info", chk.loc(fi, c.node))
    lp = r.loops[c.loops[0]]
    info_t = None
    kw = dict(c.kwargs)
    # the loop variable holding the InputInfo: <elem>[1] of infos.items() (or elem of infos.values())
    cands = {x for v in kw.values() for x in T.walk(v) if x[0] in ("index", "elem")}
    for x in cands:
        if x[0] == "index" and x[1][0] == "elem" and T.const_value(x[2]) == 1:
            info_t = x
    if info_t is None:
        for x in cands:
            if x[0] == "elem":
                info_t = x
    if info_t is None:
        raise AnalysisError("cannot identify the InputInfo loop variable in connect_from_info")
    # connect kwarg -> Connection ctor param -> attribute -> info field
    connect_to_ctor = {"blocking": "blocking", "delay": "delay", "delay_dist": "delay_dist", "window": "window", "skip": "skip",
                       "jitter": "jitter", "name": "input_name"}
    for k, p in connect_to_ctor.items():
        attr = ctor_attr[("Connection", p)]
        fields = [f for f, t in written.items() if t == S(f"self.{attr}")]
        inst = f"connect_from_info: {k}"
        if len(fields) != 1:
            chk.violation("C16.info", inst, f"InputInfo has {len(fields)} field(s) written from self.{attr} ({fields}); exactly one is needed "
                          "to restore the connection from its info", chk.loc(fi_ci))
            continue
        want = T.mk_attr(info_t, fields[0])
        chk.add("C16.info", inst, kw.get(k) == want,
                f"connect({k}=...) is restored from {T.show(kw.get(k, T.NONE))[:120]}, expected info.{fields[0]} (the field written from self.{attr})",
                chk.loc(fi, c.node))
    outf = [f for f, t in written.items() if t == S("self.output_node.name")]
    ok = len(outf) == 1 and len(c.args) >= 1 and c.args[0] == T.mk_index(S("nodes"), T.mk_attr(info_t, outf[0]))
    chk.add("C16.info", "connect_from_info: output node", ok, f"the output node is looked up as {T.show(c.args[0])[:120] if c.args else None}, expected nodes[info.output]",
            chk.loc(fi, c.node))

    # ------------------------------------------------------------------ BaseNode.info <-> from_info
    fi_ni, ev, r = _ev(model, "node.BaseNode.info")
    chk.used(fi_ni.qualname)
    ninfo = r.ret
    if ninfo[0] != "obj" or ninfo[1] != "NodeInfo":
        raise AnalysisError("BaseNode.info does not return a NodeInfo construction")
    nwritten = dict(ninfo[2])
    fi, ev, r = _ev(model, "node.BaseNode.from_info")
    chk.used(fi.qualname)
    ret = r.ret
    if ret[0] != "call":
        raise AnalysisError("from_info does not return a constructor call")
    rkw = dict(ret[3])
    for p in ["name", "rate", "delay_dist", "delay", "advance", "scheduling", "color", "order"]:
        attr = ctor_attr[("BaseNode", p)]
        fields = [f for f, t in nwritten.items() if t == S(f"self.{attr}") or (p == "color" and S("self.color") in set(T.walk(t)))]
        inst = f"from_info: {p}"
        if len(fields) != 1:
            chk.violation("C16.info", inst, f"NodeInfo has {len(fields)} field(s) written from self.{attr} ({fields}); exactly one is needed "
                          "to restore the node from its info", chk.loc(fi_ni))
            continue
        got = rkw.get(p)
        if got is None:
            # the keyword arguments assembled as one mapping, `cls(**{**from_info, **kwargs})`: a later entry overrides an earlier one
            for k_, v_ in ret[3]:
                if k_ != "**":
                    continue
                lit = dict(v_[1]) if v_[0] == "dict" else None
                if lit is not None and T.const(p) in lit:
                    got = lit[T.const(p)]
                elif v_ == S("**kwargs") and got is not None:
                    got = T.mk_call("**kwargs.get", [T.const(p), got])
        want = T.mk_call("**kwargs.get", [T.const(p), T.mk_attr(S("info"), fields[0])])
        chk.add("C16.info", inst, got == want, f"cls({p}=...) is restored from {T.show(got)[:120] if got else None}, expected kwargs.get('{p}', info.{fields[0]})",
                chk.loc(fi))
    # inputs of the node info: keyed by output node name, values are the connection infos
    inp = nwritten.get("inputs")
    ok = inp is not None and inp[0] == "comp" and inp[1] == "dict" and inp[2][0] == "tuple"
    if ok:
        k, v = inp[2][1]
        # (the key read off the connection, or off its info: the InputInfo field that Connection.info writes from output_node.name)
        via_info = k[0] == "attr" and k[1] == v and written.get(k[2]) == S("self.output_node.name")
        ok = ((k[0] == "attr" and k[2] == "name" and k[1][0] == "attr" and k[1][2] == "output_node" and k[1][1] == v[1]) or via_info) and (v[0] == "attr" and v[2] == "info") and not inp[4]
        ok = ok and inp[3][0][1] == T.mk_call("self.inputs.items", [])
    chk.add("C16.info", "NodeInfo.inputs", bool(ok), f"NodeInfo.inputs = {T.show(inp)[:200] if inp else None}, expected {{c.output_node.name: c.info for all inputs}}", chk.loc(fi_ni))

    # ------------------------------------------------------------------ phase recurrence
    rule_phase(chk, model, "C16.phase")
    # "takes effect in subsequent simulation": the runtime reads the phase again at every episode start
    from ..asyncrt import AsyncRT
    from ..asyncrt import NODE as _N, CONN as _C
    art = AsyncRT(model)
    for key, q, want, who in (("node", f"{_N}._reset", S("self.node.phase"), "node"), ("conn", f"{_C}.reset", S("self.connection.phase"), "connection")):
        rr_ = art.eval(q)
        stores = [e for e in rr_.events if e.kind == "store_attr" and e.name == "self._phase" and e.func == model.func(q).qualname]
        ok = len(stores) == 1 and stores[0].term == want and not stores[0].loops
        chk.add("C16.phase", f"the {who} wrapper reads the phase at every episode start", ok, f"{q.rsplit('.', 1)[-1]} stores self._phase = {T.show(stores[0].term)[:80] if stores else None}, "
                f"expected float({T.show(want)}) (a phase cached at warm-up ignores a later set_delay)", chk.loc(model.func(q)))
    fi, ev, r = _ev(model, "node.BaseNode.info", inline_properties=False)
    nw = dict(r.ret[2]) if r.ret[0] == "obj" else {}
    chk.add("C16.phase", "NodeInfo.phase reads the property", nw.get("phase") == S("self.phase"), f"NodeInfo.phase = {T.show(nw.get('phase', T.NONE))[:120]}", chk.loc(fi_ni))
    chk.add("C16.phase", "NodeInfo.delay/delay_dist", nw.get("delay") == S("self.delay") and nw.get("delay_dist") == S("self.delay_dist"),
            f"NodeInfo.delay = {T.show(nw.get('delay', T.NONE))}, delay_dist = {T.show(nw.get('delay_dist', T.NONE))}", chk.loc(fi_ni))
    fi, ev, r = _ev(model, "node.Connection.info", inline_properties=False)
    cw = dict(r.ret[2]) if r.ret[0] == "obj" else {}
    chk.add("C16.phase", "InputInfo.phase reads the property", cw.get("phase") == S("self.phase"), f"InputInfo.phase = {T.show(cw.get('phase', T.NONE))[:120]}", chk.loc(fi_ci))
    chk.add("C16.phase", "InputInfo.delay/delay_dist", cw.get("delay") == S("self.delay") and cw.get("delay_dist") == S("self.delay_dist"),
            f"InputInfo.delay = {T.show(cw.get('delay', T.NONE))}, delay_dist = {T.show(cw.get('delay_dist', T.NONE))}", chk.loc(fi_ci))

    # ------------------------------------------------------------------ algebraic loop handler
    fi, ev, r = _ev(model, "node.BaseNode.phase")
    tries = [n for n in ast.walk(fi.node) if isinstance(n, ast.Try)]
    handlers = [h for t in tries for h in t.handlers if h.type is not None and "RecursionError" in ast.unparse(h.type)]
    chk.add("C16.loop", "handler present", len(handlers) == 1, f"{len(handlers)} RecursionError handler(s) in BaseNode.phase", chk.loc(fi))
    exc_syms = {x for e in r.events for x in T.walk(e.guard) if x[0] == "sym" and x[1].startswith("exc") and "RecursionError" in x[1]}
    if exc_syms:
        exc = next(iter(exc_syms))
        raises = [e for e in r.events if e.kind == "raise" and e.func == fi.qualname]
        rets = [e for e in r.events if e.kind == "return" and e.func == fi.qualname and exc in set(T.walk(e.guard))]
        lo, hi, w = flow.count_range(raises, exc)
        chk.add("C16.loop", "handler re-raises on every path", (lo, hi) == (1, 1), f"raise statements per handler path in [{lo},{hi}], expected [1,1]", chk.loc(fi))
        lo, hi, w = flow.count_range(rets, exc)
        chk.add("C16.loop", "handler never returns a value", (lo, hi) == (0, 0), f"return statements on handler paths in [{lo},{hi}]", chk.loc(fi))
        ok = all(isinstance(e.term, tuple) and e.term[0] == "call" and "RecursionError" in str(e.term[1]) for e in raises)
        chk.add("C16.loop", "handler raises RecursionError", ok, "the handler raises something other than RecursionError", chk.loc(fi))


def _is_nonneg_assert(t) -> bool:
    # self.delay >= 0  ==  [-self.delay <= 0]
    return t[0] == "le0" and T.neg(t[1]) != t[1] and any(x[0] == "sym" and x[1] in ("delay",) or (x[0] == "call") or x[0] == "ite"
                                                        for x in T.walk(t)) or (t[0] == "ite")
