"""C18 — search solvers keep the best candidate, respect bounds and ignore NaN losses.

NaN sanitiser before every selection (A3), clip on every sample with the roles not swapped (A3/A5), best-so-far update
as an ordering table with one predicate for loss and candidate (A6/A9).  Not decided: evosax internals, elite statistics.
"""
from __future__ import annotations

from .. import order
from .. import terms as T
from ..asyncrt import mentions
from ..report import Check
from ..symeval import SymEval

S = T.sym


def _nan_to_inf(l):
    return T.mk_call("jax.numpy.where", [T.mk_call("jax.numpy.isnan", [l]), S("jax.numpy.inf"), l])


def run(chk: Check, model):
    chk.rule("C18.nan", "NaN sanitiser (A3): in cem_update_mean_stdev the raw losses are only ever used inside where(isnan(l), inf, l); in evo_step the fitness told to the "
                        "strategy is the sanitised one of the asked population")
    chk.rule("C18.bounds", "bounds (A3/A5): every CEM sample is clip(mean + stdev * noise, u_min, u_max); the evolutionary strategy is given clip_min = flatten(u_min), clip_max = flatten(u_max)")
    chk.rule("C18.best", "best-so-far (A6/A9): best index = first of an ascending argsort of the sanitised losses; stored loss == min(old, new) in every ordering case; candidate and loss "
                         "are selected by the same predicate; the initial best loss is +inf")
    fi = model.func("cem.cem_update_mean_stdev")
    chk.used(fi.qualname)
    ev = SymEval(model)
    r = ev.run_function(fi)
    ret = r.ret
    raw = S("losses")
    L = _nan_to_inf(raw)
    Ls = S("L_sanitised")
    abstracted = T.subst(ret, {L: Ls})
    chk.add("C18.nan", "CEM: raw losses never used after sanitising", mentions(ret, "where") and raw not in set(T.walk(abstracted)),
            "cem_update_mean_stdev uses the raw `losses` outside where(isnan(losses), inf, losses): a NaN loss can be selected as best or compared with the best-so-far", chk.loc(fi))
    f = dict(abstracted[2]) if abstracted[0] == "replace" and abstracted[1] == S("state") else {}
    if abstracted[0] == "obj" and abstracted[1] == "CEMState" and {k for k, _ in abstracted[2]} == set(model.dataclass_fields(model.cls("cem.CEMState"))):
        f = dict(abstracted[2])  # the new state built by its constructor with every field given: the same as state.replace(<all fields>)
    chk.add("C18.best", "state fields updated", set(f) == {"mean", "stdev", "bestsofar", "bestsofar_loss"}, f"updated fields: {sorted(f)}", chk.loc(fi))
    n_el = T.mk_call("int", [T.mul(S("solver.num_samples"), S("solver.elite_portion"))])
    elite = ("slice", T.mk_call("jax.numpy.argsort", [Ls]), None, n_el, None)
    best_idx = T.mk_index(elite, T.ZERO)
    new_loss = T.mk_index(Ls, best_idx)
    new_best = T.mk_index(S("samples"), best_idx)
    old_loss, old_best = S("state.bestsofar_loss"), S("state.bestsofar")
    bl, bb = f.get("bestsofar_loss", T.NONE), f.get("bestsofar", T.NONE)
    ok = bl[0] == "call" and T.call_name(bl) == "jax.numpy.where" and len(bl[2]) == 3 and bb[0] == "call" and T.call_name(bb) == "jax.numpy.where"
    if ok:
        P1, a1, b1 = bl[2]
        P2, a2, b2 = bb[2]
        chk.add("C18.best", "new best = sample / loss at the first index of the ascending argsort", {a1, b1} == {old_loss, new_loss} and {a2, b2} == {old_best, new_best},
                f"loss alternatives {T.show(a1)[:80]} / {T.show(b1)[:80]}; candidate alternatives {T.show(a2)[:80]} / {T.show(b2)[:80]}; expected state.bestsofar(_loss) and "
                "samples / losses at argsort(losses)[:num_elites][0]", chk.loc(fi))
        try:
            bad = []
            for rel, (vo, vn) in order.REL.items():
                val = {old_loss: vo, new_loss: vn}
                keep_loss = bool(T.evaluate(P1, val)) == (a1 == old_loss)   # True: the old loss is kept
                keep_cand = bool(T.evaluate(P2, val)) == (a2 == old_best)   # True: the old candidate is kept
                stored = vo if keep_loss else vn
                if stored != min(vo, vn):
                    bad.append((rel, f"stored loss {stored} != min({vo}, {vn})"))
                if rel != "eq" and keep_loss != keep_cand:
                    bad.append((rel, "candidate and loss are selected differently"))
            chk.add("C18.best", "stored loss == min(old, new) and the candidate follows the loss", not bad, f"best-so-far update deviates: {bad}", chk.loc(fi))
        except T.NoValue as ex:
            chk.violation("C18.best", "update table", f"the best-so-far update does not decide by comparing the two losses alone ({ex}): a tolerance / extra term can keep a worse incumbent", chk.loc(fi))
    else:
        chk.add("C18.best", "best-so-far selected with where(pred, old, new)", False, f"bestsofar_loss = {T.show(bl)[:160]}", chk.loc(fi))
    # smoothing
    sm = S("solver.evolution_smoothing")
    el_s = T.mk_index(S("samples"), elite)
    for fld, fn in (("mean", "mean"), ("stdev", "std")):
        want = T.add(T.mul(sm, S(f"state.{fld}")), T.mul(T.sub(T.ONE, sm), T.mk_reduce(el_s, fn, [("axis", T.ZERO)])))
        chk.add("C18.best", f"{fld}: smoothing * old + (1 - smoothing) * elite statistic", f.get(fld) == want, f"{fld} = {T.show(f.get(fld, T.NONE))[:200]}", chk.loc(fi))
    fi0 = model.func("cem.CEMSolver.init_state")
    r0 = SymEval(model).run_function(fi0)
    st = r0.ret
    def _fresh(t):  # (on every path, when the state is built per branch)
        if t[0] == "ite":
            return _fresh(t[2]) and _fresh(t[3])
        return t[0] == "obj" and t[1] == "CEMState" and dict(t[2]).get("bestsofar_loss") == S("jax.numpy.inf") and dict(t[2]).get("bestsofar") == dict(t[2]).get("mean")
    ok = _fresh(st)
    chk.add("C18.best", "initial best loss is +inf", ok, f"init_state returns {T.show(st)[:160]}", chk.loc(fi0))
    # cem_step: what is evaluated and what is handed to the update are exactly the clipped samples
    f_cs = model.func("cem.cem_step")
    chk.used(f_cs.qualname)
    ecs = SymEval(model)
    rcs = ecs.run_function(f_cs)
    upd = [e for e in rcs.events if e.kind == "call" and e.name == "rex.cem.cem_update_mean_stdev"]
    okc = len(upd) == 1 and len(upd[0].args) == 4
    if okc:
        smp, lss = upd[0].args[2], upd[0].args[3]

        okc = smp[0] == "call" and T.call_name(smp) == "rex.cem.gaussian_samples" and smp[2][:2] == (S("solver"), S("state")) \
            and lss[0] == "call" and T.call_name(lss) == "loss" and lss[2] and lss[2][0] == smp and upd[0].args[:2] == (S("solver"), S("state"))
    chk.add("C18.bounds", "cem_step evaluates and updates with exactly the clipped samples", bool(okc), "cem_step must evaluate loss on, and update with, the output of vmap(gaussian_samples) itself "
            "(a candidate written into the population afterwards bypasses the clip)", chk.loc(f_cs))
    okr = okc and rcs.ret == ("tuple", (upd[0].term, lss))
    chk.add("C18.best", "cem_step returns the updated state and the evaluated losses as they are", bool(okr), f"cem_step returns {T.show(rcs.ret)[:200]}, expected (cem_update_mean_stdev(...), losses): "
            "a state that is conditionally rolled back also rolls back the best candidate found in this generation", chk.loc(f_cs))
    # the logger sees what was evaluated: candidates and raw losses (its own ranking puts NaN last; a rewritten NaN becomes a best value)
    f_lu = model.func("evo.LogState.update")
    chk.used(f_lu.qualname)
    rlu = SymEval(model).run_function(f_lu)
    lus = [e for e in rlu.events if e.kind == "call" and e.name == "self.logger.update"]
    okl = len(lus) == 1 and lus[0].args == (S("self.state"), S("x"), S("fitness")) and not lus[0].kwargs and lus[0].guard == T.TRUE \
        and rlu.ret == T.mk_replace(S("self"), (("state", lus[0].term),))
    chk.add("C18.nan", "LogState.update logs the candidates and their losses unchanged", bool(okl), f"LogState.update calls the logger with "
            f"{[T.show(a)[:60] for a in lus[0].args] if lus else None} and returns {T.show(rlu.ret)[:120]}; expected self.logger.update(self.state, x, fitness) stored as the new state", chk.loc(f_lu))
    # the optimisation loops continue from the state they are given (the best-so-far survives a continued run) and thread it through
    for q, step, carry_proj in (("cem.cem", "rex.cem.cem_step", None), ("evo.evo", "rex.evo.evo_step", 0)):
        fl = model.func(q)
        chk.used(fl.qualname)
        evl = SymEval(model)
        rl = evl.run_function(fl)
        scans = [e for e in rl.events if e.kind == "call" and e.name == "jax.lax.scan"]
        ok = len(scans) == 1 and len(scans[0].args) >= 2
        if ok:
            init = scans[0].args[1]
            init_state = init if carry_proj is None else (init[1][carry_proj] if init[0] == "tuple" and len(init[1]) > carry_proj else T.NONE)
            ok = init_state == S("init_state")
            lp = [l for l in rl.loops.values() if l.kind == "scan" and l.node is scans[0].node]
            res = lp[0].env_out.get("result") if lp else None
            carry = lp[0].env_in["carry"] if lp else None
            steps = [e for e in rl.events if e.kind == "call" and e.name == step]
            st_in = carry if carry_proj is None else T.mk_index(carry, T.const(carry_proj))
            # (one step call, or one per alternative when the scan body is chosen by a condition: on every path exactly one)
            from .. import flow as _flow
            ok2 = len(steps) >= 1 and all(len(s_.args) >= 3 and s_.args[2] == st_in for s_ in steps) and _flow.equivalent(T.mk_or([s_.guard for s_ in steps]), T.TRUE) \
                and all(T.mk_and([a_.guard, b_.guard]) == T.FALSE for i_, a_ in enumerate(steps) for b_ in steps[i_ + 1:])
            ok3 = res is not None and bool(steps)
            for s_ in steps:
                res_ = T.assume(res, s_.guard, True) if res is not None and s_.guard != T.TRUE else res
                new_state = T.mk_index(s_.term, T.ZERO)
                if res_ == s_.term and carry_proj is None:
                    continue  # the body returns the step's own (state, losses) pair as it is
                ok3 = ok3 and res_ is not None and res_[0] == "tuple" and (res_[1][0] == new_state or (res_[1][0][0] == "tuple" and res_[1][0][1] and res_[1][0][1][0] == new_state))
        chk.add("C18.best", f"{q}: starts from the given state", bool(ok), f"{q} scans from {T.show(scans[0].args[1])[:120] if scans and len(scans[0].args) > 1 else None}, expected the caller's init_state "
                "(re-initialising it forgets the best-so-far of a continued optimisation)", chk.loc(fl))
        if ok:
            chk.add("C18.best", f"{q}: each step continues from the previous step's state", bool(ok2 and ok3), "the scan body must call the step with the carried state and carry the state it returns", chk.loc(fl))
    # ---------------------------------------------------------------- bounds
    fi = model.func("cem.gaussian_samples")
    chk.used(fi.qualname)
    r = SymEval(model).run_function(fi)
    ret = r.ret
    # leaf-wise view: the tree_map form gives clip(...) directly; the flatten / per-leaf loop / unflatten form wraps it
    if ret[0] == "call" and T.call_name(ret) == "jax.tree_util.tree_unflatten" and len(ret[2]) == 2 and ret[2][1][0] == "comp" and not ret[2][1][4]:
        ret = ret[2][1][2]

    def leaf_of(t):
        """x  /  flatten_up_to(x)[i]  /  tree_leaves(x)[i]  /  tree_flatten(x)[0][i]  ->  x"""
        if t[0] == "index":
            b = t[1]
            if b[0] == "index" and b[2] == T.ZERO and b[1][0] == "call" and T.call_name(b[1]) == "jax.tree_util.tree_flatten":
                return b[1][2][0]
            if b[0] == "call" and (T.call_name(b).endswith(".flatten_up_to") or T.call_name(b) == "jax.tree_util.tree_leaves") and len(b[2]) == 1:
                return b[2][0]
        return t
    ok = ret[0] == "call" and T.call_name(ret) == "jax.numpy.clip" and len(ret[2]) == 3 and leaf_of(ret[2][1]) == S("solver.u_min") and leaf_of(ret[2][2]) == S("solver.u_max")
    chk.add("C18.bounds", "CEM samples clipped to [u_min, u_max]", ok, f"gaussian_samples returns {T.show(ret)[:200]}, expected clip(samples, u_min, u_max)", chk.loc(fi))
    if ok:
        inner = ret[2][0]
        inner = T.subst(inner, {y: leaf_of(y) for y in T.walk(inner) if y[0] == "index" and leaf_of(y) != y})
        noise = [x for x in T.walk(inner) if x[0] == "call" and T.call_name(x) == "jax.random.normal"]
        okn = len(noise) == 1 and inner == T.add(S("state.mean"), T.mul(S("state.stdev"), noise[0]))
        chk.add("C18.bounds", "samples = mean + stdev * noise", okn, f"unclipped samples = {T.show(inner)[:160]}", chk.loc(fi))
    fi = model.func("cem.cem_step")
    r = SymEval(model).run_function(fi)
    upd = [e for e in r.events if e.kind == "call" and e.name == "rex.cem.cem_update_mean_stdev"]
    ok = len(upd) == 1 and len(upd[0].args) == 4 and upd[0].args[0] == S("solver") and upd[0].args[1] == S("state") and mentions(upd[0].args[2], "gaussian_samples") and mentions(upd[0].args[3], "loss")
    chk.add("C18.nan", "cem_step feeds the sampled population and its losses to the update", ok, "cem_step must call cem_update_mean_stdev(solver, state, samples, losses)", chk.loc(fi))
    if ok:
        smp = upd[0].args[2]
        ls = upd[0].args[3]
        chk.add("C18.nan", "the losses belong to the sampled population", ls[0] == "call" and ls[2] and ls[2][0] == smp, "losses must be evaluated on the same samples that are passed to the update", chk.loc(fi))
    # ---------------------------------------------------------------- evo
    fi = model.func("evo.EvoSolver.init")
    chk.used(fi.qualname)
    r = SymEval(model).run_function(fi)
    ret = r.ret
    sp = dict(ret[2]).get("strategy_params", T.NONE) if ret[0] == "obj" else T.NONE
    kw = dict(sp[2]) if sp[0] == "replace" else {}
    okb = True
    for k, u in (("clip_min", "u_min"), ("clip_max", "u_max")):
        v = kw.get(k, T.NONE)
        ok = v[0] == "call" and T.call_name(v).endswith(".param_reshaper.flatten_single") and v[2] == (S(u),)
        chk.add("C18.bounds", f"evo: {k} = flatten({u})", ok, f"{k} = {T.show(v)[:140]}, expected strategy.param_reshaper.flatten_single({u}) (per-parameter bounds)", chk.loc(fi))
    chk.add("C18.bounds", "evo: strategy params derive from the strategy's defaults", sp[0] == "replace" and mentions(sp[1], "default_params") and set(kw) == {"clip_min", "clip_max"}, f"strategy_params = {T.show(sp)[:120]}", chk.loc(fi))
    fi = model.func("evo.evo_step")
    chk.used(fi.qualname)
    r = SymEval(model).run_function(fi)
    asks = [e for e in r.events if e.kind == "call" and e.name == "solver.strategy.ask"]
    tells = [e for e in r.events if e.kind == "call" and e.name == "solver.strategy.tell"]
    ok = len(asks) == 1 and len(tells) == 1
    if ok:
        a, t = asks[0], tells[0]
        x, st = T.mk_index(a.term, T.ZERO), T.mk_index(a.term, T.ONE)
        ok = len(t.args) == 4 and t.args[0] == x and t.args[2] == st and t.args[3] == S("solver.strategy_params")
        # the clip bounds live in the strategy params: ask() must get them, otherwise the proposals are not clipped at all
        pa = a.args[2] if len(a.args) > 2 else dict(a.kwargs).get("params", T.NONE)
        chk.add("C18.bounds", "evo: candidates are asked with the solver's strategy params (the clip bounds)", pa == S("solver.strategy_params"),
                f"ask is called with params = {T.show(pa)[:80]}, expected solver.strategy_params (evosax falls back to unbounded default params)", chk.loc(fi, a.node))
        chk.add("C18.nan", "evo: tell gets the asked population and state", ok, f"tell is called with {[T.show(z)[:60] for z in t.args]}", chk.loc(fi, t.node))
        fit = t.args[1] if len(t.args) > 1 else T.NONE
        okf = fit[0] == "call" and T.call_name(fit) == "jax.numpy.where" and len(fit[2]) == 3 and fit == _nan_to_inf(fit[2][2]) and fit[2][2][0] == "call" and fit[2][2][2] and fit[2][2][2][0] == x
        chk.add("C18.nan", "evo: fitness told = where(isnan(l), inf, l) of the population's losses", okf, f"fitness = {T.show(fit)[:200]}", chk.loc(fi, t.node))
    else:
        chk.unknown("C18.nan", "evo ask/tell", f"expected one ask and one tell, found {len(asks)}/{len(tells)}", chk.loc(fi))
