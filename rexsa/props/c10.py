"""C10 — a trainable delay set to d behaves exactly like a static delay of d.

The equivalence itself is not decided.  Decided: window arithmetic (exactly `window` entries) (A7), saturation (A3),
generation with the minimal delay (A4), delay applied every step with the carried distribution (A2/A4), the arrival
predicate against the static tie rule (A6) — with the skip tie recorded as known finding F1 —, the interp table (A8).
"""
from __future__ import annotations

import ast

from .. import flow, order
from .. import terms as T
from ..asyncrt import mentions
from ..compiled import CompiledView, input_state_builds
from ..report import AnalysisError, Check
from ..symeval import SymEval

S = T.sym


def _ones_is_one(t):
    """jnp.ones(shape) used as a broadcasting factor is the identity for the term algebra (H4)."""
    m = {x: T.ONE for x in T.walk(t) if x[0] == "call" and T.call_name(x) == "jax.numpy.ones"}
    return T.subst(t, m) if m else t


def _in_comp(sub, value, key) -> bool:
    """the table of new inputs built in one expression: {name: <delayed inputs> for name in ...}"""
    for e in sub.events:
        for t in (e.term,) + tuple(e.args or ()):
            for x in T.walk(t) if t is not None else ():
                if x[0] == "comp" and x[1] == "dict" and x[2][0] == "tuple" and len(x[2][1]) == 2 and not x[4]:
                    k_, v_ = x[2][1]
                    els = [y for y in T.walk(k_) if y[0] == "elem"]
                    if els and T.subst(v_, {els[0]: _elem_of(key)}) == value and T.subst(k_, {els[0]: _elem_of(key)}) == key:
                        return True
    return False


def _elem_of(key):
    return next((y for y in T.walk(key) if y[0] == "elem"), key)


def run(chk: Check, model):
    chk.rule("C10.window", "window arithmetic (A7): the extension is W = int(ceil(sender rate * (max - min))); apply_window allocates window + W entries, apply_delay "
                           "returns the slice [idx_max - (n - W), n - W) of all four buffers, i.e. exactly `window` entries, in every interp mode; both use the sender's rate")
    chk.rule("C10.saturate", "saturation (A3): alpha is only ever set through get_alpha = clip((d - min)/(max - min), 0, 1) or create (which asserts the range); "
                             "delays from init_delays / params are looked up under the input's own name")
    chk.rule("C10.generate", "graphs are generated with the minimal delay Deterministic(loc=min) for trainable connections; a trainable computation delay is rejected")
    chk.rule("C10.apply", "the delay is applied once per input at every step, with the distribution carried in the previous step's input state; equivalent() compares "
                          "exactly min, max and interp")
    chk.rule("C10.arrival", "arrival predicate (A6): with delayed arrival m = ts_sent + d and step start s the first excluded entry is the first with m > s, i.e. an "
                            "entry is consumed iff m <= s — the static non-skip tie rule; on a skipped connection a tie must be excluded (known finding F1)")
    chk.rule("C10.interp", "interp table (A8): the strings accepted by create are exactly the ones handled by apply_delay; anything else raises")
    B = "base.TrainableDist"
    # ---------------------------------------------------------------- window()
    f_w = model.func(f"{B}.window")
    chk.used(f_w.qualname)
    w = SymEval(model).run_function(f_w).ret
    W_ref = T.mk_call("int", [T.mk_call("numpy.ceil", [T.mul(S("rate_out"), T.sub(S("self.max"), S("self.min")))])])
    chk.add("C10.window", "extension W", w == W_ref, f"window() returns {T.show(w)[:160]}, expected int(ceil(rate_out * (max - min)))", chk.loc(f_w))
    base = SymEval(model).run_function(model.func("base.DelayDistribution.window")).ret
    chk.add("C10.window", "static distributions need no extension", T.const_value(base) == 0, f"DelayDistribution.window returns {T.show(base)}", chk.loc(model.func("base.DelayDistribution.window")))
    # ---------------------------------------------------------------- apply_delay
    f_ad = model.func(f"{B}.apply_delay")
    chk.used(f_ad.qualname)
    ev = SymEval(model, inline=("window", "sample"))
    r = ev.run_function(f_ad)
    ret = r.ret
    W = w  # downstream obligations are relative to the actual extension; its formula is decided above
    n = T.mk_index(S("input.seq.shape"), T.ZERO)
    noop = T.eq(W, T.ZERO, numeric=True)
    chk.add("C10.window", "no extension -> input unchanged", T.assume(ret, noop, True) == S("input"), f"with W == 0 apply_delay returns {T.show(T.assume(ret, noop, True))[:120]}", chk.loc(f_ad))
    body = T.assume(ret, noop, False)
    interp = S("self.interp")
    modes = {}
    for mname in ("zoh", "linear", "linear_real_only"):
        modes[mname] = T.subst(body, {interp: T.const(mname)})
    size_ref = T.sub(n, W)
    # idx_max: first index with delayed arrival > ts_start
    argw = [x for x in T.walk(modes["zoh"]) if x[0] == "call" and T.call_name(x) == "jax.numpy.argwhere"]
    idx_max = None
    if argw:
        a = argw[0]
        kw = dict(a[3])
        ok = kw.get("size") == T.ONE and kw.get("fill_value") == n
        chk.add("C10.arrival", "first-hit search with fill = window length", ok, f"argwhere uses {[(k, T.show(v)) for k, v in a[3]]}, expected size=1, fill_value=len(window)", chk.loc(f_ad))
        idx_max = T.mk_index(a, ("tuple", (T.ZERO, T.ZERO)))
        pred = T.where_to_ite(_ones_is_one(a[2][0]))
        # delayed arrival of a real message: ts_sent + min + alpha (max - min); dummy entries (seq < 0) keep their own ts_recv
        real = T.assume(pred, T.lt(S("input.seq"), T.ZERO), False)
        d_ref = T.add(S("self.min"), T.mul(S("self.alpha"), T.sub(S("self.max"), S("self.min"))))
        m_ref = T.add(S("input.ts_sent"), d_ref)
        chk.add("C10.arrival", "delayed arrival = ts_sent + min + alpha (max - min)", real == T.lt(S("ts_start"), m_ref),
                f"arrival test for a real message is {T.show(real)[:200]}, expected ts_sent + d > ts_start with d = min + alpha (max - min)", chk.loc(f_ad))
        dummy = T.assume(pred, T.lt(S("input.seq"), T.ZERO), True)
        chk.add("C10.arrival", "dummy entries keep their receive time", dummy == T.lt(S("ts_start"), S("input.ts_recv")), f"arrival test for seq < 0 is {T.show(dummy)[:160]}", chk.loc(f_ad))
        M = S("m_delayed")
        p2 = T.subst(real, {S("input.ts_sent"): T.sub(M, d_ref)})
        try:
            got = order.table(T.mk_not(p2), order.pair_cases(M, S("ts_start")))  # consumed == not (m > s)
            want = {("lt",): True, ("eq",): True, ("gt",): False}
            chk.add("C10.arrival", "non-skip tie rule", got == want, f"consume table (delayed arrival vs step start) is {order.show_table(got)}, expected lt/eq consumed (static rule without skip)", chk.loc(f_ad))
            # skipped connections: the static rule excludes a tie; apply_delay cannot see connection.skip
            sees_skip = mentions(pred, "skip")
            want_skip = {("lt",): True, ("eq",): False, ("gt",): False}
            chk.add("C10.arrival", "skip=True tie", sees_skip and got == want_skip, "TrainableDist.apply_delay uses `ts_recv > ts_start` without the connection's skip flag: on a skipped connection a "
                    "message whose delayed arrival equals the step start is consumed, while a static delay of the same value defers it to the next step", chk.loc(f_ad))
        except order.NotComparisonOnly as ex:
            chk.unknown("C10.arrival", "tie rule", f"arrival predicate is not comparison-only: {ex}", chk.loc(f_ad))
    else:
        chk.unknown("C10.arrival", "idx_max", "no argwhere found in the zoh branch", chk.loc(f_ad))
    # zoh: all four buffers sliced [idx_max - size, size]
    z = modes["zoh"]
    if z[0] == "obj" and z[1] == "InputState" and idx_max is not None:
        f = dict(z[2])
        for k in ("seq", "ts_sent", "ts_recv", "data"):
            v = f.get(k, T.NONE)
            ok = v[0] == "call" and T.call_name(v) == "jax.lax.dynamic_slice" and len(v[2]) == 3
            if ok:
                start, size = v[2][1], v[2][2]
                s0 = start[2][0][1][0] if start[0] == "call" and start[1] == "+" and start[2][0][0] == "list" else None
                z0 = size[2][0][1][0] if size[0] == "call" and size[1] == "+" and size[2][0][0] == "list" else None
                ok = s0 == T.sub(idx_max, size_ref) and z0 == size_ref
                src = v[2][0]
                if k == "ts_recv":
                    ok = ok and mentions(src, "ts_sent")  # the delayed receive times
                else:
                    ok = ok and src == S(f"input.{k}")
            chk.add("C10.window", f"zoh slice of {k}", bool(ok), f"{k} = {T.show(v)[:200]}, expected dynamic_slice(<{k}>, [idx_max - (n - W)], [n - W]) (exactly `window` entries)", chk.loc(f_ad))
        chk.add("C10.window", "zoh keeps the distribution", f.get("delay_dist") == S("self"), f"delay_dist = {T.show(f.get('delay_dist', T.NONE))[:80]}", chk.loc(f_ad))
    else:
        chk.unknown("C10.window", "zoh branch", f"zoh branch returns {T.show(z)[:120]}", chk.loc(f_ad))
    for mname in ("linear", "linear_real_only"):
        ds = [x for x in T.walk(modes[mname]) if x[0] == "call" and T.call_name(x) == "jax.lax.dynamic_slice" and len(x[2]) == 3 and x[2][1][0] == "list" and x[2][2][0] == "list"]
        ok = bool(ds) and idx_max is not None and all(x[2][1][1] == (T.sub(idx_max, size_ref),) and x[2][2][1] == (size_ref,) for x in ds)
        chk.add("C10.window", f"{mname}: query window [idx_max - (n - W), n - W)", ok, f"the {mname} branch must take its {T.show(size_ref)[:40]} query times from idx_max - (n - W)", chk.loc(f_ad))
        chk.add("C10.window", f"{mname} returns an InputState", modes[mname][0] == "obj" and modes[mname][1] == "InputState", f"{mname} branch returns {T.show(modes[mname])[:80]}", chk.loc(f_ad))
    # interp table
    handled = set()
    for x in [y for t in [ret] + [e.guard for e in r.events if e.func == f_ad.qualname] for y in T.walk(t)]:
        if x[0] == "eq" and interp in x[1]:
            other = [y for y in x[1] if y != interp]
            if other and other[0][0] == "const":
                handled.add(other[0][1])
    f_c = model.func(f"{B}.create")
    chk.used(f_c.qualname)
    rc = SymEval(model, inline=("_get_alpha",)).run_function(f_c)
    accepted = set()
    for e in rc.events:
        if e.kind == "assert" and mentions(e.term, "interp"):
            for x in T.walk(e.term):
                if x[0] == "eq" and S("interp") in x[1]:
                    accepted |= {y[1] for y in x[1] if y[0] == "const"}
    chk.add("C10.interp", "accepted == handled", accepted == handled and len(accepted) == 3, f"create accepts {sorted(accepted)}, apply_delay handles {sorted(handled)}", chk.loc(f_ad))
    other = T.subst(body, {interp: T.const("__other__")})
    raises = [e for e in r.events if e.kind == "raise" and e.func == f_ad.qualname]
    chk.add("C10.interp", "unknown mode raises", len(raises) == 1 and T.subst(T.assume(raises[0].guard, noop, False), {interp: T.const("__other__")}) == T.TRUE,
            "an unknown interpolation mode must raise", chk.loc(f_ad))
    # ---------------------------------------------------------------- saturation
    f_ga = model.func(f"{B}.get_alpha")
    ga = SymEval(model, inline=("_get_alpha",)).run_function(f_ga).ret
    want = T.mk_call("jax.numpy.clip", [T.div(T.sub(S("delay"), S("self.min")), T.sub(S("self.max"), S("self.min"))), T.ZERO, T.ONE])
    chk.add("C10.saturate", "get_alpha", ga == want, f"get_alpha returns {T.show(ga)[:160]}, expected clip((delay - min)/(max - min), 0, 1)", chk.loc(f_ga))
    asserts = [e.term for e in rc.events if e.kind == "assert"]
    alpha = T.div(T.sub(S("delay"), S("min")), T.sub(S("max"), S("min")))
    want_as = [T.lt(S("min"), S("max")), T.mk_and([T.le(T.ZERO, alpha), T.le(alpha, T.ONE)]), T.le(T.ZERO, S("min"))]
    chk.add("C10.saturate", "create asserts min < max, 0 <= alpha <= 1, 0 <= min", all(w in asserts for w in want_as), f"create asserts {[T.show(a)[:60] for a in asserts]}", chk.loc(f_c))
    cr = rc.ret
    ok = cr[0] == "obj" and dict(cr[2]).get("alpha") == alpha and dict(cr[2]).get("min") == S("min") and dict(cr[2]).get("max") == S("max") and dict(cr[2]).get("interp") == S("interp")
    chk.add("C10.saturate", "create stores alpha = (delay - min)/(max - min)", ok, f"create returns {T.show(cr)[:160]}", chk.loc(f_c))
    # sample / mean / quantile agree on d = min + alpha (max - min)
    d_ref = T.add(S("self.min"), T.mul(S("self.alpha"), T.sub(S("self.max"), S("self.min"))))
    for name in ("mean", "quantile"):
        fm = model.func(f"{B}.{name}")
        v = SymEval(model).run_function(fm).ret
        chk.add("C10.saturate", f"{name} == min + alpha (max - min)", v == d_ref, f"{name} returns {T.show(v)[:120]}", chk.loc(fm))
    fs = model.func(f"{B}.sample")
    sv = SymEval(model).run_function(fs).ret
    ok = sv[0] == "tuple" and sv[1][0] == S("self") and _ones_is_one(sv[1][1]) == d_ref
    chk.add("C10.saturate", "sample == (self, d broadcast)", ok, f"sample returns {T.show(sv)[:160]}", chk.loc(fs))
    # who sets alpha
    sites = []
    for q, fi in model.functions.items():
        if fi.module.startswith("examples"):
            continue
        for nn in ast.walk(fi.node):
            if isinstance(nn, ast.Call) and any(k.arg == "alpha" for k in nn.keywords) and isinstance(nn.func, ast.Attribute) and nn.func.attr == "replace":
                sites.append((q, nn, fi))
    homes = {h for q, _, _ in sites for h in model.home_functions(q)}  # (a helper introduced for init_inputs counts as init_inputs)
    chk.add("C10.saturate", "alpha replaced only in init_inputs", homes == {"node.BaseNode.init_inputs"}, f"alpha is replaced in {sorted({q for q, _, _ in sites})}", "rex/node.py")
    f_ii = model.func("node.BaseNode.init_inputs")
    chk.used(f_ii.qualname)
    ri = SymEval(model).run_function(f_ii)
    gas = [e for e in ri.events if e.kind == "call" and e.name.endswith(".get_alpha")]
    ok = len(gas) == 1
    if ok:
        g = gas[0]
        arg = g.args[0]
        # delays[input_name] with (input_name, c) the element of self.inputs.items()
        conn = g.recv[1] if g.recv[0] == "attr" and g.recv[2] == "delay_dist" else None
        ok = conn is not None and T.const_value(conn[2]) == 1 and arg[0] == "index" and T.call_name(arg[1]) == "self.init_delays" and arg[2] == T.mk_index(conn[1], T.ZERO)
        ok = ok and flow.implies(g.guard, ("in", T.mk_index(conn[1], T.ZERO), arg[1])) and mentions(g.guard, "TrainableDist")
    chk.add("C10.saturate", "init_inputs looks the delay up under the input's own name", bool(ok), "alpha must come from delay_dist.get_alpha(delays[input_name]) for input_name in delays "
            "(init_delays keys by input name, which differs from the sender's name for shadow inputs)", chk.loc(f_ii))
    fo = input_state_builds(model, ri.events)
    ok = len(fo) == 1 and gas and "delay_dist" in fo[0][1]
    if ok:
        dd = fo[0][1]["delay_dist"]
        g_in = T.assume(gas[0].guard, fo[0][0].guard, True)  # the branch condition relative to the (unconditional) from_outputs call
        want_on = T.mk_replace(gas[0].recv, (("alpha", gas[0].term),))
        ok = all(t == (want_on if holds else gas[0].recv) for holds, t in flow.select_cases(dd, g_in))
    chk.add("C10.saturate", "init_inputs stores the saturated alpha", bool(ok), "the input state must carry delay_dist.replace(alpha=get_alpha(...)) (or the configured distribution)", chk.loc(f_ii))
    f_id = model.func("node.BaseNode.init_delays")
    rd = SymEval(model).run_function(f_id)
    st = [e for e in rd.events if e.kind == "store_sub"]
    ok = len(st) == 1 and st[0].key[0] == "index" and T.const_value(st[0].key[2]) == 0 and T.call_name(st[0].term).endswith(".delay_dist.mean") and mentions(st[0].guard, "TrainableDist")
    chk.add("C10.saturate", "default init_delays keys by input name with the configured delay", ok, "init_delays must return {input_name: delay_dist.mean()} for trainable inputs", chk.loc(f_id))
    # ---------------------------------------------------------------- generation with the minimal delay
    f_g = model.func("artificial._generate_graphs")
    chk.used(f_g.qualname)
    rg = SymEval(model).run_function(f_g)
    def _by_class(t):
        return t[0] == "ite" and t[1][0] == "call" and t[1][1] == "isinstance" and mentions(t[1], "TrainableDist")
    # (the distribution stored per connection, on its own or next to the connection in one entry)
    from ..roles import stores_through_derived_tables
    st = [v for e in stores_through_derived_tables(rg) if e.key is not None and e.key[0] == "tuple" for v in ((e.term,) + (tuple(e.term[1]) if e.term[0] == "tuple" else tuple(x for _, x in e.term[2]) if e.term[0] == "obj" else ())) if _by_class(v)]
    ok = len(st) == 1
    if ok:
        v = st[0]
        conds = [x[1] for x in T.walk(v) if x[0] == "ite" and x[1][0] == "call" and x[1][1] == "isinstance" and mentions(x[1], "TrainableDist")]
        ok = len(conds) == 1
        if ok:
            tr = T.assume(v, conds[0], True)
            st_ = T.assume(v, conds[0], False)
            dd = conds[0][2][0]
            want = T.mk_call("rex.base.StaticDist.create", [T.mk_call("distrax.Deterministic", [], [("loc", T.mk_attr(dd, "min"))])])
            ok = tr == want and st_ == dd
    chk.add("C10.generate", "trainable connection generated with Deterministic(loc=min)", bool(ok), "a TrainableDist connection must be generated with StaticDist.create(Deterministic(loc=delay_dist.min))", chk.loc(f_g))
    rz = [e for e in rg.events if e.kind == "raise" and mentions(e.guard, "TrainableDist") and e.loops and not mentions(e.guard, "blocking")]
    chk.add("C10.generate", "trainable computation delay rejected", len(rz) >= 1, "_generate_graphs must raise for a TrainableDist computation delay", chk.loc(f_g))
    f_bn = model.func("node.BaseNode.__init__")
    rb = SymEval(model).run_function(f_bn)
    rz = [e for e in rb.events if e.kind == "raise" and mentions(e.guard, "TrainableDist")]
    chk.add("C10.generate", "BaseNode rejects a trainable computation delay", len(rz) == 1, "BaseNode.__init__ must raise for a TrainableDist computation delay", chk.loc(f_bn))
    # ---------------------------------------------------------------- applied every step with the carried distribution
    cv = CompiledView(model)
    sub = cv.update_inputs
    f_ui = model.func("partition_runner.make_update_inputs._update_inputs")
    chk.used(f_ui.qualname)
    ads = [e for e in sub.events if e.kind == "call" and e.name.endswith(".apply_delay")]
    fos = input_state_builds(model, sub.events)
    ok = len(ads) == 1 and len(fos) == 1 and bool(ads[0].loops)
    if ok:
        a, fo_ = ads[0], fos[0][0]
        prev = fos[0][1].get("delay_dist")
        el = [x for x in T.walk(prev or T.NONE) if x[0] == "elem"]
        # the input's name and connection: the (name, connection) item of node.inputs.items(), or - iterating the names - the name and node.inputs[name]
        by_key = bool(el) and el[0][1] == S("node.inputs")
        key_t = (el[0] if by_key else T.mk_index(el[0], T.ZERO)) if el else T.NONE
        ok = prev is not None and bool(el) and prev == T.mk_attr(T.mk_index(T.mk_attr(T.mk_index(S("graph_state.step_state"), S("node.name")), "inputs"), key_t), "delay_dist")
        chk.add("C10.apply", "carried distribution", bool(ok), f"the undelayed input state carries {T.show(prev)[:160] if prev else None}, expected the previous step's ss.inputs[input_name].delay_dist", chk.loc(f_ui, fo_.node))
        conn = (T.mk_index(S("node.inputs"), el[0]) if by_key else T.mk_index(el[0], T.ONE)) if el else T.NONE
        # (the carried distribution: read back from the undelayed input state, or the very value it was built with)
        carried_ = (T.mk_attr(fo_.term, "delay_dist"), prev)
        ok = a.recv in carried_ and a.args == (T.mk_attr(T.mk_attr(conn, "output_node"), "rate"), fo_.term, S("timings_node.ts_start"))
        chk.add("C10.apply", "apply_delay(sender rate, undelayed inputs, step start) on the carried distribution", ok, f"apply_delay is called on {T.show(a.recv)[:80]} with {[T.show(x)[:60] for x in a.args]}", chk.loc(f_ui, a.node))
        eqs = [e for e in sub.events if e.kind == "call" and e.name.endswith(".equivalent")]
        ok = len(eqs) == 1 and eqs[0].recv == T.mk_attr(conn, "delay_dist") and len(eqs[0].args) == 1 and eqs[0].args[0] in carried_ and flow.equivalent(a.guard, eqs[0].term)
        chk.add("C10.apply", "applied whenever the distributions are equivalent (else raise)", ok, "apply_delay must run for every input unless equivalent() fails, which must raise", chk.loc(f_ui))
        st = [e for e in sub.events if e.kind == "store_sub" and e.term == a.term]
        chk.add("C10.apply", "the delayed inputs are what the step sees", (len(st) == 1 and st[0].term == a.term and st[0].key == key_t) or _in_comp(sub, a.term, key_t), "new_inputs[input_name] must be the delayed input state", chk.loc(f_ui))
    else:
        chk.unknown("C10.apply", "apply_delay site", f"expected one apply_delay and one from_outputs per input, found {len(ads)}/{len(fos)}", chk.loc(f_ui))
    f_eq = model.func(f"{B}.equivalent")
    eqr = SymEval(model).run_function(f_eq).ret
    atoms = [T.mk_call("isinstance", [S("other"), S("rex.base.TrainableDist")]), T.eq(S("self.max"), S("other.max")), T.eq(S("self.min"), S("other.min")), T.eq(S("self.interp"), S("other.interp"))]
    ok = flow.equivalent(eqr, T.mk_and(atoms))
    chk.add("C10.apply", "equivalent() == same class, max, min, interp", ok, f"equivalent returns {T.show(eqr)[:200]}", chk.loc(f_eq))
    # the window extension of apply_window uses the sender's rate as well (see C07.window) and the same W
    f_aw = model.func("utils.apply_window._apply_window")
    evw = SymEval(model)
    rw = evw.run_function(model.func("utils.apply_window"))
    n0 = len(evw.events)
    evw.invoke(rw.env[model.local_name("utils.apply_window._apply_window")], [S("graph")], rw.frame)
    wc = [e for e in evw.events[n0:] if e.kind == "call" and e.name.endswith(".delay_dist.window")]
    ok = len(wc) == 1
    if ok:
        e = wc[0]
        conn = e.recv[1]  # nodes[n1].outputs[n2]
        ok = conn[0] == "index" and conn[1][0] == "attr" and conn[1][2] == "outputs" and e.args == (T.mk_attr(conn[1][1], "rate"),)
    chk.add("C10.window", "apply_window extends by W(sender rate)", bool(ok), "apply_window must call c.delay_dist.window(nodes[sender].rate): the same rate apply_delay uses", chk.loc(f_aw))
