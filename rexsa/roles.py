"""Role-preserving conversions (A5/A4) and graph-construction rules shared by C01, C07 and C14:
record -> Graph, Graph -> windowed graph (apply_window), windowed graph -> Graph, Graph -> networkx,
non-ancestor attachment (prune=False), supergraph mapping -> Timings (to_timings), stacking / padding sentinel.
"""
from __future__ import annotations

import ast
from fractions import Fraction as F
from typing import Dict, List, Optional

from . import order
from . import terms as T
from .asyncrt import mentions
from .model import Model
from .report import AnalysisError, Check
from .symeval import SymEval

S = T.sym


def _obj_events(r, cls):
    return [e for e in r.events if e.kind == "call" and e.name == f"new:{cls}"]


def _fields(t):
    return dict(t[2]) if t[0] == "obj" else {}


# ------------------------------------------------------------------------------------------------
def rule_record_to_graph(chk: Check, model: Model, rid: str):
    fi = model.func("base.EpisodeRecord.to_graph")
    chk.used(fi.qualname)
    ev = SymEval(model)
    r = ev.run_function(fi)
    vs = _obj_events(r, "Vertex")
    es = _obj_events(r, "Edge")
    ok = len(vs) == 1 and len(es) == 1
    if not ok:
        chk.unknown(rid, "EpisodeRecord.to_graph", f"expected one Vertex and one Edge construction, found {len(vs)}/{len(es)}", chk.loc(fi))
        return
    v = _fields(vs[0].term)
    node = [x for x in T.walk(v.get("seq", T.NONE)) if x[0] == "index" and x[1][0] == "elem"]
    steps = T.mk_attr(node[0], "steps") if node else None
    for f in ("seq", "ts_start", "ts_end"):
        chk.add(rid, f"EpisodeRecord.to_graph Vertex.{f}", steps is not None and v.get(f) == T.mk_attr(steps, f),
                f"Vertex.{f} = {T.show(v.get(f, T.NONE))[:120]}, expected the node record's steps.{f}", chk.loc(fi, vs[0].node))
    e = _fields(es[0].term)
    msg = None
    for x in T.walk(e.get("seq_out", T.NONE)):
        if x[0] == "attr" and x[2] == "messages":
            msg = x
    for f in ("seq_out", "seq_in", "ts_recv"):
        chk.add(rid, f"EpisodeRecord.to_graph Edge.{f}", msg is not None and e.get(f) == T.mk_attr(msg, f),
                f"Edge.{f} = {T.show(e.get(f, T.NONE))[:120]}, expected the input record's messages.{f}", chk.loc(fi, es[0].node))
    st = [x for x in r.events if x.kind == "store_sub" and x.name == "edges"]
    ok = len(st) == 1 and st[0].key[0] == "tuple" and len(st[0].key[1]) == 2
    if ok:
        k1, k2 = st[0].key[1]
        # (sender name from the inputs dict of the receiver, receiver name)
        ok = msg is not None and k1 == T.mk_index(msg[1][1], T.ZERO) and k2[0] == "index" and T.const_value(k2[2]) == 0 and mentions(k1, "inputs") and st[0].term == es[0].term
    chk.add(rid, "EpisodeRecord.to_graph edge key", ok, "edges must be keyed (sender name, receiver name) with the sender taken from the receiver's inputs", chk.loc(fi))
    vd = _fields(r.ret).get("vertices") if r.ret[0] == "obj" else None
    ok = vd is not None and vd[0] == "comp" and vd[3][0][1] == T.mk_call("self.nodes.items", []) and not vd[4]
    if not ok and vd is not None and vd[0] == "dict" and len(vd[1]) == 1:
        # the same dict filled by an explicit loop: one unconditional store per node record, keyed by the node's name
        sv = [x for x in r.events if x.kind == "store_sub" and x.name == "vertices"]
        if len(sv) == 1 and len(sv[0].loops) == 1 and sv[0].loops[0] in r.loops and sv[0].guard == T.TRUE:
            lp = r.loops[sv[0].loops[0]]
            el = ("elem", lp.iter, lp.uid)
            ok = lp.iter == T.mk_call("self.nodes.items", []) and sv[0].key == T.mk_index(el, T.ZERO) and sv[0].term == vs[0].term and vd[1][0] == (sv[0].key, sv[0].term)
    chk.add(rid, "EpisodeRecord.to_graph covers every node", ok, "every node record must become a vertex set (no filter)", chk.loc(fi))


def rule_windowed_to_graph(chk: Check, model: Model, rid: str):
    fi = model.func("base.WindowedGraph.to_graph")
    chk.used(fi.qualname)
    ev = SymEval(model)
    r = ev.run_function(fi)
    vs = _obj_events(r, "Vertex")
    es = _obj_events(r, "Edge")
    if len(vs) != 1 or len(es) != 1:
        chk.unknown(rid, "WindowedGraph.to_graph", "expected one Vertex and one Edge construction", chk.loc(fi))
        return
    v = _fields(vs[0].term)
    src = [x for x in T.walk(v.get("seq", T.NONE)) if x[0] == "index" and x[1][0] == "elem"]
    for f in ("seq", "ts_start", "ts_end"):
        chk.add(rid, f"WindowedGraph.to_graph Vertex.{f}", bool(src) and v.get(f) == T.mk_attr(src[0], f), f"Vertex.{f} = {T.show(v.get(f, T.NONE))[:120]}", chk.loc(fi, vs[0].node))
    e = _fields(es[0].term)

    def base_attrs(t):
        return [x for x in T.walk(t) if x[0] == "attr" and x[2] in ("seq", "ts_recv", "ts_sent") and x[1][0] == "index" and x[1][1][0] == "elem"]

    def pick(t, windows: bool):
        c = [x for x in base_attrs(t) if mentions(x[1], "windows") == windows]
        # the outermost data source: not the one only used for a shape
        c = [x for x in c if not any(y[0] == "attr" and y[2] == "shape" and y[1] == x for y in T.walk(t))] or c
        return c[0] if c else None
    so, si, tr = pick(e.get("seq_out", T.NONE), True), pick(e.get("seq_in", T.NONE), False), pick(e.get("ts_recv", T.NONE), True)
    ok = so is not None and so[2] == "seq" and mentions(so[1], "windows") and tr is not None and tr[2] == "ts_recv" and tr[1] == so[1]
    chk.add(rid, "WindowedGraph.to_graph Edge.seq_out/ts_recv", ok, "Edge.seq_out / ts_recv must be the window's seq / ts_recv", chk.loc(fi, es[0].node))
    # every entry of the window becomes an edge (each message in a window is a dependency of the step): the window's columns are used whole,
    # only reshaped
    whole = so is not None and e.get("seq_out") == T.mk_call(("attr", so, "reshape"), list(e["seq_out"][2]) if e["seq_out"][0] == "call" else []) \
        and tr is not None and e.get("ts_recv") == T.mk_call(("attr", tr, "reshape"), list(e["ts_recv"][2]) if e["ts_recv"][0] == "call" else [])
    chk.add(rid, "WindowedGraph.to_graph: one edge per window entry", bool(whole), f"Edge.seq_out = {T.show(e.get('seq_out', T.NONE))[:160]}, expected the whole window column, reshaped "
            "(dropping entries drops dependencies of the consuming step from the graph the schedule is computed from)", chk.loc(fi, es[0].node))
    ok = si is not None and si[2] == "seq" and not mentions(si[1], "windows") and mentions(e.get("seq_in"), "repeat")
    chk.add(rid, "WindowedGraph.to_graph Edge.seq_in", ok, "Edge.seq_in must be the receiving vertex's seq repeated over the window", chk.loc(fi, es[0].node))


# ------------------------------------------------------------------------------------------------
def rule_apply_window(chk: Check, model: Model, rid: str):
    fi = model.func("utils.apply_window")
    chk.used(fi.qualname)
    ev = SymEval(model)
    r = ev.run_function(fi)
    c_sb = ev.callable_of(r, "utils.apply_window._scan_body")
    c_aw = ev.callable_of(r, "utils.apply_window._apply_window")
    if c_sb is None or c_aw is None:
        raise AnalysisError("closures _scan_body / _apply_window not found in apply_window")
    f_sb = model.func("utils.apply_window._scan_body")
    f_aw = model.func("utils.apply_window._apply_window")
    out = ev.invoke(c_sb, [S("vertex"), S("window"), S("edge")], r.frame)
    ok = out[0] == "tuple" and len(out[1]) == 2
    if ok:
        neww, iw = out[1]
        want_push = T.mk_call("window.push", [S("edge.seq_out"), T.mk_call("jax.numpy.take", [S("vertex.ts_end"), S("edge.seq_out")]), S("edge.ts_recv")])
        if neww[0] == "call" and T.call_name(neww) == "window.push" and neww[3]:
            b = model.bind_call("base.Window.push", neww[2], neww[3])
            if set(b) == {"seq", "ts_sent", "ts_recv"}:
                # keyword spelling of the same call: compared in the positional spelling, here and wherever the pushed window is used
                pos = T.mk_call("window.push", [b["seq"], b["ts_sent"], b["ts_recv"]])
                out = T.subst(out, {neww: pos})
                neww, iw = out[1]
        chk.add(rid, "window push (seq_out, ts_end[seq_out], ts_recv)", neww == want_push, f"the window is advanced with {T.show(neww)[:200]}, expected push(edge.seq_out, "
                "take(sender vertex ts_end, edge.seq_out), edge.ts_recv)", chk.loc(f_sb))
        f = _fields(iw)
        ok2 = iw[0] == "obj" and iw[1].endswith("IndexedWindow") and all(f.get(k) == T.mk_attr(neww, k) for k in ("seq", "ts_sent", "ts_recv"))
        chk.add(rid, "indexed window carries the pushed window", ok2, f"IndexedWindow = {T.show(iw)[:200]}", chk.loc(f_sb))
        want_si = T.mk_ite(T.eq(S("edge.seq_out"), T.const(-1), numeric=True), T.const(-1), S("edge.seq_in"))
        chk.add(rid, "seq_in of an unsent message is -1", T.where_to_ite(f.get("seq_in", T.NONE)) == want_si, f"seq_in = {T.show(f.get('seq_in', T.NONE))[:120]}, expected where(seq_out == -1, -1, seq_in)", chk.loc(f_sb))
    else:
        chk.unknown(rid, "scan body", f"_scan_body returns {T.show(out)[:160]}", chk.loc(f_sb))
    # IndexedWindow.to_window
    f_tw = model.func("utils.apply_window.IndexedWindow.to_window")
    ev2 = SymEval(model)
    tw = ev2.run_function(f_tw).ret
    ok = tw[0] == "obj" and tw[1] == "Window" and all(_fields(tw).get(k) == S(f"self.{k}") for k in ("seq", "ts_sent", "ts_recv"))
    chk.add(rid, "IndexedWindow.to_window", ok, f"to_window returns {T.show(tw)[:160]}", chk.loc(f_tw))
    # _apply_window
    n0 = len(ev.events)
    ev.invoke(c_aw, [S("graph")], r.frame)
    sub = ev.events[n0:]
    wins = [e for e in sub if e.kind == "call" and e.name == "new:Window" and e.func == f_aw.qualname]
    win_fields = _fields(wins[0].term) if len(wins) == 1 else {}
    if not wins:
        # the initial window taken from the initial indexed window, `IndexedWindow(...).to_window()` (to_window copies seq / ts_sent / ts_recv:
        # checked above): its three columns are those of the indexed window
        tws = [e for e in sub if e.kind == "call" and e.name.endswith(".to_window") and e.func == f_aw.qualname and e.recv is not None and e.recv[0] == "obj" and e.recv[1] == "IndexedWindow" and not e.loops[1:]]
        tws = [e for e in tws if any(sc.kind == "call" and sc.name == "jax.lax.scan" and len(sc.args) > 1 and sc.args[1] == e.term for sc in sub)]
        if len(tws) == 1:
            wins = tws
            win_fields = {k: v for k, v in _fields(tws[0].recv).items() if k in ("seq", "ts_sent", "ts_recv")}
    if len(wins) == 1:
        seqv = win_fields.get("seq", T.NONE)
        # [-1] * (c.window + c.delay_dist.window(sender rate))   (or full((n,), -1))
        fill = _const_fill(seqv)
        ok = fill is not None and T.const_value(fill[0]) == -1
        n = fill[1] if ok else T.NONE
        conn = None
        for x in T.walk(n):
            if x[0] == "attr" and x[2] == "window" and x[1][0] == "index":
                conn = x[1]
        ok = ok and conn is not None and conn[1][0] == "attr" and conn[1][2] == "outputs"
        if ok:
            sender = conn[1][1]
            want = T.add(T.mk_attr(conn, "window"), T.mk_call(T.mk_attr(T.mk_attr(conn, "delay_dist"), "window"), [T.mk_attr(sender, "rate")]))
            ok = n == want
        chk.add(rid, "window length = window + delay_dist.window(sender rate)", bool(ok), f"initial window length is {T.show(n)[:240]}, expected c.window + c.delay_dist.window(nodes[sender].rate)",
                chk.loc(f_aw, wins[0].node))
        f = win_fields
        fs, fr = _const_fill(f.get("ts_sent", T.NONE)), _const_fill(f.get("ts_recv", T.NONE))
        chk.add(rid, "initial window is all -1 / 0.0", fs is not None and T.const_value(fs[0]) == 0 and fs[1] == n and (fr is None or (T.const_value(fr[0]) == 0 and fr[1] == n)),
                "initial ts_sent / ts_recv must be zeros of the window length", chk.loc(f_aw, wins[0].node))
    else:
        chk.unknown(rid, "window length", f"expected one initial Window, found {len(wins)}", chk.loc(f_aw))
    scans = [e for e in sub if e.kind == "call" and e.name == "jax.lax.scan" and e.func == f_aw.qualname]
    ok = len(scans) == 1 and len(scans[0].args) == 3 and wins and scans[0].args[1] == wins[0].term
    if ok:
        it = scans[0].args[2]
        ok = it[0] == "index" and it[1][0] == "elem" and T.const_value(it[2]) == 1  # the edge e of graph.edges.items()
    chk.add(rid, "scan over the edge's messages from the empty window", bool(ok), "the windows must be produced by scanning the connection's messages, starting from the all -1 window", chk.loc(f_aw))
    # window index: last pushed window with seq_in <= step seq; never-received messages (-1) are excluded
    f_gi = model.func("utils.apply_window._apply_window._get_window_index")
    rets = [e for e in sub if e.kind == "return" and e.func == f_gi.qualname]
    ok = False
    detail = "cannot analyse _get_window_index"
    if rets:
        t = T.where_to_ite(rets[-1].term)
        argw = [x for x in T.walk(t) if x[0] == "call" and T.call_name(x) == "jax.numpy.argwhere"]
        argw = [a for a in argw if any(y[0] == "call" and T.call_name(y) == "jax.numpy.flip" and y[2][0][0] == "ite" for y in T.walk(a))] or argw
        if argw:
            pred = argw[0][2][0]
            flips = [x for x in T.walk(pred) if x[0] == "call" and T.call_name(x) == "jax.numpy.flip"]
            seqs = [x for x in T.walk(pred) if x[0] == "attr" and x[2] == "seq" and mentions(x, "vertices")]
            if len(flips) == 1 and seqs:
                try:
                    got = order.table(pred, order.pair_cases(flips[0], seqs[0]))
                    want = {("lt",): True, ("eq",): True, ("gt",): False}
                    ok = got == want
                    detail = f"window selection table (window seq_in vs step seq) is {order.show_table(got)}, expected lt/eq selected"
                except order.NotComparisonOnly as ex:
                    detail = f"window selection is not comparison-only: {ex}"
                inner = flips[0][2][0]
                big = inner[0] == "ite" and T.const_value(T.sub(inner[2] if T.const_value(inner[2]) is None and inner[2][0] != "attr" else inner[3], T.ZERO)) is None
                masked = inner[0] == "ite" and any(x[0] == "call" and x[1] == "**" for x in T.walk(inner)) and mentions(inner[1], "seq_in")
                chk.add(rid, "never-received messages cannot be selected", masked, f"seq_in == -1 must be mapped to a huge value before the search; got {T.show(inner)[:160]}", chk.loc(f_gi))
                fv = dict(argw[0][3])
                chk.add(rid, "window search: first hit on the reversed list, -1 if none", T.const_value(fv.get("size", T.NONE)) == 1 and T.const_value(fv.get("fill_value", T.NONE)) == -1,
                        "argwhere must use size=1, fill_value=-1 on the reversed seq_in", chk.loc(f_gi))
    chk.add(rid, "window of step k = last window with seq_in <= k", ok, detail, chk.loc(f_gi))
    # the not-found index (-1) selects the appended initial window
    cat = [e for e in sub if e.kind == "call" and e.name == "jax.numpy.concatenate" and e.func.startswith(f_aw.qualname)]
    chk.add(rid, "initial window appended for steps before the first message", len(cat) >= 1, "the all -1 window must be appended so that index -1 selects it", chk.loc(f_aw))
    # vertices
    wv = [e for e in sub if e.kind == "call" and e.name == "new:WindowedVertex"]
    if len(wv) == 1:
        f = _fields(wv[0].term)
        src = [x for x in T.walk(f.get("seq", T.NONE)) if x[0] == "index" and x[1][0] == "elem"]
        for k in ("seq", "ts_start", "ts_end"):
            chk.add(rid, f"WindowedVertex.{k}", bool(src) and f.get(k) == T.mk_attr(src[0], k), f"WindowedVertex.{k} = {T.show(f.get(k, T.NONE))[:120]}", chk.loc(f_aw, wv[0].node))
        w = f.get("windows", T.NONE)
        ok = w[0] == "comp" and w[1] == "dict" and w[2][0] == "tuple"
        if ok:
            k, v = w[2][1]
            c = [x for x in T.walk(k) if T.dict_value(x) is not None] or [x for x in T.walk(k) if x[0] == "elem"]
            ok = bool(c) and k == T.mk_attr(T.mk_attr(c[0], "output_node"), "name") and mentions(c[0], "inputs") and v[0] == "call" and T.call_name(v).endswith(".to_window")
            ok = ok and any(x == ("tuple", (T.mk_attr(T.mk_attr(c[0], "output_node"), "name"), T.mk_attr(T.mk_attr(c[0], "input_node"), "name"))) for x in T.walk(v))
        chk.add(rid, "WindowedVertex.windows keyed by sender", bool(ok), "each vertex must get, per input connection, the window of (sender, receiver) keyed by the sender's name", chk.loc(f_aw, wv[0].node))
    else:
        chk.unknown(rid, "WindowedVertex", f"expected one WindowedVertex construction, found {len(wv)}", chk.loc(f_aw))
    # trainable + blocking / BUFFER are rejected
    raises = [e for e in sub if e.kind == "raise" and e.func == f_aw.qualname]
    ok = len(raises) == 2 and any(mentions(e.guard, "blocking") for e in raises) and any(mentions(e.guard, "jitter") for e in raises) and all(mentions(e.guard, "TrainableDist") for e in raises)
    chk.add(rid, "trainable delay with blocking / BUFFER rejected", ok, "apply_window must raise for a TrainableDist on a blocking or BUFFER connection", chk.loc(f_aw))


# ------------------------------------------------------------------------------------------------
def rule_networkx(chk: Check, model: Model, rid: str):
    fi = model.func("utils.to_networkx_graph")
    chk.used(fi.qualname)
    ev = SymEval(model)
    r = ev.run_function(fi)
    nodes = [e for e in r.events if e.kind == "call" and e.name.endswith(".add_node")]
    edges = [e for e in r.events if e.kind == "call" and e.name.endswith(".add_edge")]
    if len(nodes) != 1:
        chk.unknown(rid, "to_networkx_graph", f"expected 1 add_node site, found {len(nodes)}", chk.loc(fi))
        return
    chk.add(rid, "stateful and message edges are both added", len(edges) == 2, f"{len(edges)} add_edge site(s) in to_networkx_graph, expected 2 (stateful edges and message edges)", chk.loc(fi))
    if len(edges) != 2:
        return
    # every vertex / message is visited: the loops that add nodes and edges have no early exit
    for what, e in (("vertices", nodes[0]), ("message edges", [x for x in edges if dict(x.kwargs)][0] if [x for x in edges if dict(x.kwargs)] else edges[-1])):
        brk = [(g, st) for lid in e.loops for g, st in ev.loop_breaks.get(lid, [])]
        chk.add(rid, f"all {what} are visited (no early exit)", not brk, f"the loop over the {what} can `break` under {T.show(brk[0][0])[:120] if brk else None}: later entries "
                "(e.g. messages after an unreceived one) would silently be dropped", chk.loc(fi, brk[0][1] if brk else e.node))
    n = nodes[0]
    el = [x for x in T.walk(n.guard) if x[0] == "index" and x[1][0] == "elem" and T.const_value(x[2]) == 0]
    seq = el[0] if el else None
    ok = seq is not None and n.guard == T.mk_not(T.eq(seq, T.const(-1), numeric=True)) and mentions(seq, "seq")
    chk.add(rid, "padded vertices (seq == -1) are skipped", ok, f"vertices are added under {T.show(n.guard)[:120]}, expected seq != -1", chk.loc(fi, n.node))
    kw = dict(n.kwargs)
    z = seq[1] if seq is not None else None
    ok = z is not None and kw.get("seq") == seq and kw.get("ts_start") == T.mk_index(z, T.ONE) and kw.get("ts_end") == T.mk_index(z, T.const(2))
    zipt = z[1] if z is not None else T.NONE
    ok = ok and zipt[0] == "call" and zipt[1] == "zip" and [a[2] if a[0] == "attr" else None for a in zipt[2]] == ["seq", "ts_start", "ts_end"]
    chk.add(rid, "vertex attributes seq/ts_start/ts_end", bool(ok), "add_node must carry the vertex's own seq, ts_start, ts_end", chk.loc(fi, n.node))
    st = [e for e in edges if not dict(e.kwargs)]
    ms = [e for e in edges if dict(e.kwargs)]
    ok = len(st) == 1 and seq is not None and st[0].guard == T.mk_and([n.guard, T.lt(T.ZERO, seq)])
    chk.add(rid, "stateful edge for every seq > 0", ok, f"the edge kind_(seq-1) -> kind_seq is added under {T.show(st[0].guard)[:140] if st else None}, expected seq > 0 (and seq != -1)", chk.loc(fi, st[0].node if st else None))
    if st and seq is not None:
        # vertex names are the structured f-string terms fstr(<kind>, "_", <seq>): compared as terms, not as source text
        kind_t = T.mk_index(("elem", T.mk_call("graph.vertices.items", []), 0), T.ZERO)
        kinds = [x for x in T.walk(st[0].args[0]) if x[0] == "index" and x[1][0] == "elem" and T.const_value(x[2]) == 0 and x[1][1][0] == "call" and str(T.call_name(x[1][1])).endswith("vertices.items")] if st[0].args else []
        kind_t = kinds[0] if kinds else kind_t
        ok = len(st[0].args) >= 2 and st[0].args[0] == T.mk_call("fstr", [kind_t, T.const("_"), T.sub(seq, T.ONE)]) and st[0].args[1] == T.mk_call("fstr", [kind_t, T.const("_"), seq])
        chk.add(rid, "stateful edge direction", bool(ok), f"stateful edge is {T.show(st[0].args[0])[:80] if st[0].args else None} -> {T.show(st[0].args[1])[:80] if len(st[0].args) > 1 else None}, "
                "expected <kind>_(seq-1) -> <kind>_seq", chk.loc(fi, st[0].node))
    if ms:
        m = ms[0]
        el = [x for x in T.walk(m.guard) if x[0] == "elem" and x[1][0] == "call" and x[1][1] == "zip"]
        ok = bool(el)
        if ok:
            z = el[0]
            so, si = T.mk_index(z, T.ZERO), T.mk_index(z, T.ONE)
            ok = m.guard == T.mk_and([T.mk_not(T.eq(so, T.const(-1), numeric=True)), T.mk_not(T.eq(si, T.const(-1), numeric=True))])
            ok = ok and [a[2] if a[0] == "attr" else None for a in z[1][2]] == ["seq_out", "seq_in", "ts_recv"]
        chk.add(rid, "message edges skip unsent / unreceived messages", bool(ok), f"message edges are added under {T.show(m.guard)[:160]}, expected seq_out != -1 and seq_in != -1", chk.loc(fi, m.node))
        ok = bool(el) and len(m.args) >= 2
        if ok:
            keys = [x for x in T.walk(m.args[0]) if x[0] == "index" and x[1][0] == "elem" and T.const_value(x[2]) == 0 and x[1][1][0] == "call" and str(T.call_name(x[1][1])).endswith("edges.items")]
            ok = bool(keys)
            if ok:
                pair = keys[0]  # (sender, receiver) key of graph.edges
                ok = m.args[0] == T.mk_call("fstr", [T.mk_index(pair, T.ZERO), T.const("_"), so]) and m.args[1] == T.mk_call("fstr", [T.mk_index(pair, T.ONE), T.const("_"), si])
        chk.add(rid, "message edge direction", bool(ok), f"message edge is {T.show(m.args[0])[:80] if m.args else None} -> {T.show(m.args[1])[:80] if len(m.args) > 1 else None}, "
                "expected <sender>_<seq_out> -> <receiver>_<seq_in>", chk.loc(fi, m.node))

def rule_connected(chk: Check, model: Model, rid: str):
    fi = model.func("utils.to_connected_graph")
    chk.used(fi.qualname)
    ev = SymEval(model)
    r = ev.run_function(fi)
    sorts = [e for e in r.events if e.kind == "call" and e.name == "sorted"]
    keys = []
    for e in sorts:
        k = dict(e.kwargs).get("key")
        if k is not None and k[0] == "closure":
            val = ev.invoke(k, [S("x")], r.frame)
            idx = [x for x in T.walk(val) if x[0] == "const" and isinstance(x[1], str)]
            keys.append(idx[0][1] if idx else None)
        else:
            keys.append(None)
    ev.live = T.TRUE
    chk.add(rid, "supervisor steps in ts_start order, candidates in ts_end order", keys == ["ts_start", "ts_end"], f"sort keys are {keys}, expected ['ts_start', 'ts_end'] "
            "(the attachment loop only inspects the head of the candidate queue)", chk.loc(fi))
    adds = [e for e in r.events if e.kind == "call" and e.name.endswith(".add_edge")]
    ok = len(adds) == 1
    cursor_form = False
    detail = "to_connected_graph must attach candidates with one add_edge"
    if ok:
        a = adds[0]
        cmpa = [x for x in T.walk(a.guard) if x[0] in ("lt0", "le0") and any(y == ("const", "ts_end") for y in T.walk(x))]
        ok = len(cmpa) == 1
        if ok:
            ends = [x for x in T.walk(cmpa[0]) if x[0] == "index" and x[2] == ("const", "ts_end")]
            starts = [x for x in T.walk(cmpa[0]) if x[0] == "index" and x[2] == ("const", "ts_start")]
            ok = len(ends) == 1 and len(starts) == 1
            if ok:
                try:
                    got = order.table(cmpa[0], order.pair_cases(ends[0], starts[0]))
                    want = {("lt",): True, ("eq",): True, ("gt",): False}
                    ok = got == want
                    detail = f"attachment table (candidate ts_end vs supervisor ts_start) is {order.show_table(got)}, expected lt/eq attached, gt not"
                except order.NotComparisonOnly as ex:
                    ok = False
                    detail = f"attachment test is not comparison-only: {ex}"
            # edge goes from the candidate to the supervisor vertex
            cand = a.args[0] if a.args else T.NONE
            first = (cand[0] == "index" and T.const_value(cand[2]) == 0) or (cand[0] == "call" and T.call_name(cand).endswith(".pop") and cand[2] and T.const_value(cand[2][0]) == 0)
            # ... or the queue walked with a cursor: the candidate at the cursor, which starts at 0 and moves on by one exactly when
            # the candidate is attached (nothing is popped then)
            cur = cand[2] if cand[0] == "index" else T.NONE
            if not first and cur[0] == "sym" and cur[1].startswith("loop") and ":" in cur[1]:
                lid_, nm_ = int(cur[1][4:].split(":")[0]), cur[1].split(":", 1)[1]
                l_ = r.loops.get(lid_)
                out_ = l_.env_out.get(nm_) if l_ is not None else None
                if out_ is not None:
                    from . import flow as _flow
                    brk_ = [g for g, _ in ev.loop_breaks.get(lid_, [])]
                    moves = (T.assume(out_, cmpa[0], True) == T.add(cur, T.ONE) and T.assume(out_, cmpa[0], False) == cur) or \
                        (out_ == T.add(cur, T.ONE) and bool(brk_) and all(_flow.implies(g, T.mk_not(cmpa[0])) for g in brk_))  # (not attached: the loop is left)
                    pre_ = l_.pre.get(nm_, T.NONE)
                    for _ in range(3):
                        if pre_[0] == "sym" and pre_[1].startswith("loop") and ":" in pre_[1]:
                            l2_ = r.loops.get(int(pre_[1][4:].split(":")[0]))
                            out2 = l2_.env_out.get(nm_) if l2_ is not None else None
                            # the enclosing loop hands the cursor on unchanged apart from what the inner loop did to it
                            if l2_ is None or out2 is None or out2 != S(f"loopout{lid_}:{nm_}"):
                                break
                            pre_ = l2_.pre.get(nm_, T.NONE)
                    first = cursor_form = moves and T.const_value(pre_) == 0
            ok = ok and len(a.args) == 2 and first and any(x[0] == "elem" for x in T.walk(a.args[1]))
    chk.add(rid, "non-ancestor attached iff it ends before the supervisor step starts", ok, detail, chk.loc(fi))
    anc = [e for e in r.events if e.kind == "call" and e.name == "networkx.ancestors"]
    ok = len(anc) == 1 and T.const_value(anc[0].args[1][2]) == -1 if anc and anc[0].args[1][0] == "index" else False
    chk.add(rid, "candidates = vertices that are no ancestors of the last supervisor step", ok, "the candidate set must be all vertices minus the ancestors of the last supervisor vertex", chk.loc(fi))
    pops = [e for e in r.events if e.kind == "call" and e.name.endswith(".pop") and adds and e.loops == adds[0].loops]
    chk.add(rid, "attached candidates leave the queue", (len(pops) == 1 and pops[0].args == (T.ZERO,)) or (cursor_form and not pops), "an attached candidate must be popped from the head of the queue", chk.loc(fi))


def flow_atoms(t):
    from . import flow
    return flow.bool_atoms(t, [])


# ------------------------------------------------------------------------------------------------
def _container_roots(fn: ast.FunctionDef):
    """Def-use over one function, in source order with strong updates: for every expression node, the set of (root name, constant keys...)
    paths of the containers its value is taken from.  Dynamic keys, slices, attribute reads and calls are transparent."""
    env, out = {}, {}

    def roots(e):
        if isinstance(e, ast.Name):
            rs = env.get(e.id, {(e.id,)})
        elif isinstance(e, ast.Subscript):
            base = roots(e.value)
            rs = {b + (e.slice.value,) for b in base} if isinstance(e.slice, ast.Constant) and isinstance(e.slice.value, str) else base
            out[id(e.slice)] = roots(e.slice) if not isinstance(e.slice, (ast.Constant, ast.Slice)) else set()
        elif isinstance(e, ast.Attribute):
            rs = roots(e.value)
        elif isinstance(e, ast.Call):
            rs = set()
            if isinstance(e.func, ast.Attribute):
                recv = roots(e.func.value)
                if e.func.attr in ("items", "values", "keys", "get", "copy", "transpose", "tolist", "astype", "reshape", "pop"):
                    rs |= recv  # (a view / copy of the container itself; onp.array(x) and the like only pass x through)
            for a in list(e.args) + [k.value for k in e.keywords]:
                rs |= roots(a)
        elif isinstance(e, (ast.Tuple, ast.List)):
            rs = set().union(*[roots(x) for x in e.elts]) if e.elts else set()
        elif isinstance(e, ast.Starred):
            rs = roots(e.value)
        elif isinstance(e, (ast.DictComp, ast.ListComp, ast.SetComp, ast.GeneratorExp, ast.Dict, ast.Constant, ast.Lambda)):
            rs = set()
        else:
            rs = set().union(*[roots(c) for c in ast.iter_child_nodes(e) if isinstance(c, ast.expr)]) if list(ast.iter_child_nodes(e)) else set()
        out[id(e)] = rs
        return rs

    def bind(t, rs):
        if isinstance(t, ast.Name):
            env[t.id] = rs if rs else {(t.id,)}
        elif isinstance(t, (ast.Tuple, ast.List)):
            for x in t.elts:
                bind(x, rs)
        elif isinstance(t, ast.Starred):
            bind(t.value, rs)

    def block(stmts):
        for st in stmts:
            if isinstance(st, ast.Assign):
                rs = roots(st.value)
                for t in st.targets:
                    if isinstance(t, (ast.Subscript, ast.Attribute)):
                        roots(t)
                    else:
                        bind(t, rs)
            elif isinstance(st, (ast.For, ast.AsyncFor)):
                bind(st.target, roots(st.iter))
                block(st.body)
                block(st.orelse)
            elif isinstance(st, (ast.If, ast.While)):
                roots(st.test)
                block(st.body)
                block(st.orelse)
            elif isinstance(st, ast.With):
                block(st.body)
            elif isinstance(st, ast.Try):
                block(st.body)
                for h in st.handlers:
                    block(h.body)
                block(st.orelse)
                block(st.finalbody)
            elif isinstance(st, ast.Expr):
                roots(st.value)
            elif isinstance(st, (ast.AugAssign, ast.AnnAssign)) and st.value is not None:
                roots(st.value)
            elif isinstance(st, ast.Return) and st.value is not None:
                roots(st.value)
    block(fn.body)
    return out


def _const_fill(t):
    """(value, length) of a one-dimensional array filled with one constant: [c] * n, full((n,), c) (= c * ones((n,))), zeros((n,)), ones((n,))."""
    def _len(shape):
        return shape[1][0] if shape[0] == "tuple" and len(shape[1]) == 1 else shape
    if t[0] == "call" and t[1] == "*" and len(t[2]) == 2 and t[2][0][0] in ("list", "tuple") and len(t[2][0][1]) == 1:
        return t[2][0][1][0], t[2][1]
    if t[0] == "call" and T.call_name(t) in ("jax.numpy.zeros", "numpy.zeros", "jax.numpy.ones", "numpy.ones") and t[2]:
        return (T.ZERO if T.call_name(t).endswith("zeros") else T.ONE), _len(t[2][0])
    if t[0] == "num" and len(t[1]) == 1 and t[2] == T.POLY_ONE and len(t[1][0][0]) == 1 and t[1][0][0][0][1] == 1:
        a = t[1][0][0][0][0]
        if a[0] == "call" and T.call_name(a) in ("jax.numpy.ones", "numpy.ones") and a[2]:
            return T.num_const(t[1][0][1]), _len(a[2][0])
    return None


def rule_to_timings(chk: Check, model: Model, rid: str):
    fi = model.func("utils.to_timings")
    chk.used(fi.qualname)
    ev = SymEval(model)
    r = ev.run_function(fi)
    stores = [e for e in r.events if e.kind == "store_sub" and e.recv is not None and e.recv[0] == "attr" and e.recv[2] in ("seq", "ts_start", "ts_end", "run", "ts_sent", "ts_recv")]
    slot_st = [e for e in stores if not mentions(e.recv, "windows") and len(e.loops) == 1]
    win_st = [e for e in stores if len(e.loops) == 2]
    chk.floor(rid, "to_timings copy statements", len(slot_st) + len(win_st), 7)
    if len(slot_st) + len(win_st) < 7:
        return  # the fill is not written in a form this rule reads (reported above as an analysis error, not as a violation)
    keys = {e.key for e in stores}
    chk.add(rid, "all copies use the same slot index", len(keys) == 1, f"{len(keys)} different target index expressions in the copy statements", chk.loc(fi))
    srcidx = set()
    vbase = set()
    for e in slot_st:
        f = e.recv[2]
        if f == "run":
            chk.add(rid, "run mask set at the same index", e.term == T.TRUE, f"slot.run is set to {T.show(e.term)}", chk.loc(fi, e.node))
            continue
        v = e.term
        ok = v[0] == "index" and v[1][0] == "attr" and v[1][2] == f
        chk.add(rid, f"slot.{f} <- vertex.{f}", ok, f"slot.{f} is filled from {T.show(v)[:160]}, expected the vertex's own {f}", chk.loc(fi, e.node))
        if ok:
            srcidx.add(v[2])
            vbase.add(v[1][1])
    want_fields = {"seq", "ts_start", "ts_end", "run"}
    chk.add(rid, "slot fields filled", {e.recv[2] for e in slot_st} == want_fields, f"filled slot fields: {sorted({e.recv[2] for e in slot_st})}, expected {sorted(want_fields)}", chk.loc(fi))
    wbase = set()
    for e in win_st:
        f = e.recv[2]
        v = e.term
        ok = v[0] == "index" and v[1][0] == "attr" and v[1][2] == f
        chk.add(rid, f"window.{f} <- window.{f}", ok, f"slot window {f} is filled from {T.show(v)[:160]}, expected the vertex window's own {f}", chk.loc(fi, e.node))
        if ok:
            srcidx.add(v[2])
            wbase.add(v[1][1])
            # target window = slot.windows[n1] with n1 the key of the same source window
            tgt = e.recv[1]
            ok2 = tgt[0] == "index" and v[1][1][0] == "index" and v[1][1][1][0] == "elem" and tgt[2] == T.mk_index(v[1][1][1], T.ZERO) and T.const_value(v[1][1][2]) == 1
            chk.add(rid, f"window.{f}: same sender on both sides", ok2, "the slot window and the vertex window must belong to the same sender", chk.loc(fi, e.node))
    chk.add(rid, "window fields filled", {e.recv[2] for e in win_st} == {"seq", "ts_sent", "ts_recv"}, f"filled window fields: {sorted({e.recv[2] for e in win_st})}", chk.loc(fi))
    chk.add(rid, "all copies use the same source index", len(srcidx) == 1, f"{len(srcidx)} different source index expressions", chk.loc(fi))
    chk.add(rid, "one source vertex per slot", len(vbase) == 1 and all(mentions(b, "kind") and mentions(b, "vertices") for b in vbase), "the three slot fields must come from graphs.vertices[slot.kind]", chk.loc(fi))
    # index provenance: the two index lists are told apart by what is appended to them - (eps, partition) vs (eps, int(vertex seq)) - and
    # followed from the append to the copy statements by a def-use pass over the function (which container, which constant key), so
    # neither the names nor the nesting of the containers matter
    apps = [e for e in r.events if e.kind == "call" and e.name.endswith(".append") and len(e.loops) == 2 and e.args and e.args[0][0] == "tuple" and len(e.args[0][1]) == 2]
    fl = [e for e in apps if e.args[0][1][1][0] == "call" and e.args[0][1][1][1] == "int"]
    sl = [e for e in apps if e not in fl]
    if len(sl) == 1 and len(fl) == 1:
        du = _container_roots(fi.node)
        ra, rb = du.get(id(sl[0].node.func.value), set()), du.get(id(fl[0].node.func.value), set())
        copies = [n for n in ast.walk(fi.node) if isinstance(n, ast.Assign) and len(n.targets) == 1 and isinstance(n.targets[0], ast.Subscript)
                  and isinstance(n.targets[0].value, ast.Attribute) and n.targets[0].value.attr in ("seq", "ts_start", "ts_end", "ts_sent", "ts_recv")
                  and isinstance(n.value, ast.Subscript)]
        tgt = [du.get(id(n.targets[0].slice), set()) for n in copies]
        src = [du.get(id(n.value.slice), set()) for n in copies]
        if not (copies and ra and rb) and len(keys) == 1 and len(srcidx) == 1:
            # the appends and the copies live in different functions (to_timings split into helpers): the def-use pass of one function
            # cannot connect them; the containers are then followed through the evaluated terms by their constant keys
            k, s_ = next(iter(keys)), next(iter(srcidx))
            ka = {x[1] for x in T.walk(sl[0].recv) if x[0] == "const" and isinstance(x[1], str)}
            kb = {x[1] for x in T.walk(fl[0].recv) if x[0] == "const" and isinstance(x[1], str)}
            in_k = {x[1] for x in T.walk(k) if x[0] == "const" and isinstance(x[1], str)} & (ka | kb)
            in_s = {x[1] for x in T.walk(s_) if x[0] == "const" and isinstance(x[1], str)} & (ka | kb)
            okp = bool(ka) and bool(kb) and not (ka & kb) and in_k == ka and in_s == kb
            chk.add(rid, "target index from the slot list, source index from the fill list", okp, "target must be indexed by (episode, partition), source by (episode, seq)", chk.loc(fi))
            chk.add(rid, "index lists not mixed up", okp, "the slot index must come from the (episode, partition) list only and the fill index from the (episode, vertex seq) list only", chk.loc(fi))
            copies = None
    if len(sl) == 1 and len(fl) == 1 and copies is not None:
        chk.add(rid, "target index from the slot list, source index from the fill list", bool(copies) and bool(ra) and bool(rb) and ra != rb and all(t == ra for t in tgt) and all(x == rb for x in src),
                f"target must be indexed by (episode, partition), source by (episode, seq); the copies index their targets with {sorted(map(str, set().union(*tgt) if tgt else []))} and their sources with "
                f"{sorted(map(str, set().union(*src) if src else []))}, the (eps, partition) list is {sorted(map(str, ra))}, the (eps, seq) list is {sorted(map(str, rb))}", chk.loc(fi))
        chk.add(rid, "index lists not mixed up", all(not (t & rb) for t in tgt) and all(not (x & ra) for x in src), "the slot index must come from the (episode, partition) list only and the fill "
                "index from the (episode, vertex seq) list only", chk.loc(fi))
    ok = len(sl) == 1 and len(fl) == 1
    if ok:
        a, b = sl[0].args[0], fl[0].args[0]
        ok = a[0] == "tuple" and b[0] == "tuple" and len(a[1]) == 2 and len(b[1]) == 2 and a[1][0] == b[1][0]
        eps = a[1][0]
        part = a[1][1]
        ok = ok and part[0] == "index" and T.const_value(part[2]) == 0  # (partition_idx, s2)[0]
        seqv = b[1][1]
        ok = ok and seqv[0] == "call" and seqv[1] == "int" and any(x == ("const", "seq") for x in T.walk(seqv)) and any(x[0] == "index" and x[1] == S("Gs") and x[2] == eps for x in T.walk(seqv))
        chk.add(rid, "index lists: (eps, partition) and (eps, vertex seq)", bool(ok), "slots.append((eps_idx, partition_idx)) and fill.append((eps_idx, int(G.nodes[n2]['seq']))) with G = Gs[eps_idx]", chk.loc(fi))
        g = sl[0].guard
        # the horizon: supervisor steps that exist in *every* episode (min over the episode axis of the padded seq >= 0)
        hor = [x for x in T.walk(g) if x[0] == "call" and isinstance(x[1], tuple) and x[1][0] == "attr" and x[1][2] == "sum"]
        okh = False
        if hor:
            w = hor[0][1][1]
            w = T.where_to_ite(w) if w[0] == "call" else w
            mins = [x for x in T.walk(hor[0]) if x[0] == "call" and isinstance(x[1], tuple) and x[1][0] == "attr" and x[1][2] in ("min", "max") and mentions(x, "seq")]
            okh = len(mins) == 1 and mins[0][1][2] == "min" and dict(mins[0][3]).get("axis") == T.const(-2) and mentions(mins[0], "supervisor")
        chk.add(rid, "horizon = supervisor steps present in every episode", okh, f"num_partitions = {T.show(hor[0])[:160] if hor else None}, expected where(seq.min(axis=-2) >= 0, 1, 0).sum() over the "
                "supervisor's padded seq (with max, shorter episodes run the supervisor on partitions they do not have)", chk.loc(fi))
        ok = g == fl[0].guard and g[0] in ("lt0",) and mentions(g, "sum")
        chk.add(rid, "entries beyond the horizon are skipped", ok, f"entries are recorded under {T.show(g)[:160]}, expected partition_idx < num_partitions for both lists", chk.loc(fi))
    else:
        chk.unknown(rid, "index lists", f"expected one append to each index list, found {len(sl)}/{len(fl)}", chk.loc(fi))
    # the templates are filled in place afterwards, field by field: two fields of one template must not be the same array object
    # (`a = b = zeros(...)` / `b = a`): the later fill of one would overwrite the other
    shared = []
    for call in [n for n in ast.walk(fi.node) if isinstance(n, ast.Call) and len(n.keywords) >= 2]:
        names = {k.arg: k.value.id for k in call.keywords if k.arg and isinstance(k.value, ast.Name)}
        if len(names) < 2:
            continue
        for st in ast.walk(fi.node):
            if isinstance(st, ast.Assign) and st.lineno < call.lineno:
                tg = {t.id for t in st.targets if isinstance(t, ast.Name)}
                hit = sorted(f for f, nme in names.items() if nme in tg)
                if len(tg) >= 2 and len(hit) >= 2 and not isinstance(st.value, (ast.Constant, ast.Name)):
                    shared.append((st.lineno, hit))
                if len(st.targets) == 1 and isinstance(st.targets[0], ast.Name) and isinstance(st.value, ast.Name) and st.targets[0].id in names.values() and st.value.id in names.values():
                    shared.append((st.lineno, sorted(f for f, nme in names.items() if nme in (st.targets[0].id, st.value.id))))
    chk.add(rid, "template fields are separate arrays", not shared, f"fields {shared[0][1] if shared else ''} of a template are bound to one array object (line {shared[0][0] if shared else ''}): "
            "filling one in place overwrites the other", chk.loc(fi))
    # templates: run False, window seq -1
    sv = _obj_events(r, "SlotVertex")
    wn = _obj_events(r, "Window")
    ok = len(sv) == 1 and len(wn) == 1
    if ok:
        # every slot gets windows of its own (they are filled in place per slot afterwards): the empty windows are built whenever a slot
        # template is built, inside the slot's own iteration, and are what the template holds
        from . import flow as _flow
        w_field = _fields(sv[0].term).get("windows", T.NONE)
        held = any(x == wn[0].term for x in T.walk(w_field)) or any(
            e.kind == "store_sub" and e.term == wn[0].term and e.loops[:len(sv[0].loops)] == sv[0].loops and e.recv is not None and (e.recv == w_field or (e.recv[0] == "attr" and e.recv[2] == "windows"))
            for e in r.events)  # (... or is put into the template's own, initially empty, table afterwards in the same iteration)
        own = wn[0].loops[:len(sv[0].loops)] == sv[0].loops and _flow.equivalent(wn[0].guard, sv[0].guard) and held
        chk.add(rid, "template: every slot has its own window arrays", bool(own), f"the empty windows are built under {T.show(wn[0].guard)[:120]} (slot template under {T.show(sv[0].guard)[:80]}) and the "
                f"template holds {T.show(_fields(sv[0].term).get('windows', T.NONE))[:120]}: windows shared between slots are overwritten by each other's fill", chk.loc(fi, wn[0].node))
        f = _fields(sv[0].term)
        runv = f.get("run", T.NONE)
        ok = T.call_name(runv) in ("numpy.zeros",) if runv[0] == "call" else False
        chk.add(rid, "template: run mask starts False", ok, f"template run = {T.show(runv)[:100]}, expected zeros(...).astype(bool)", chk.loc(fi, sv[0].node))
        ws = _fields(wn[0].term).get("seq", T.NONE)
        ok = ws[0] == "num" and len(ws[1]) == 1 and ws[1][0][1] == -1 and T.call_name(ws[1][0][0][0][0]) == "numpy.ones"
        chk.add(rid, "template: window seq starts at -1", ok, f"template window seq = {T.show(ws)[:100]}, expected -ones(...)", chk.loc(fi, wn[0].node))
        chk.add(rid, "template: generation index from the supergraph's topological generations", mentions(f.get("generation", T.NONE), "enumerate") or f.get("generation", T.NONE)[0] == "index",
                "SlotVertex.generation must be the index of the slot's topological generation", chk.loc(fi, sv[0].node))


# ------------------------------------------------------------------------------------------------
def rule_sentinel(chk: Check, model: Model, rid: str):
    """One padding sentinel (-1) written and tested everywhere."""
    sites = []
    f = model.func("base.Graph.stack")
    ev = SymEval(model)
    r = ev.run_function(f)
    pads = [e for e in r.events if e.kind == "call" and e.name == "numpy.pad"]
    v = dict(pads[0].kwargs).get("constant_values") if pads else None
    chk.add(rid, "Graph.stack pads with -1", v is not None and T.const_value(v) == -1, f"Graph.stack pads with {T.show(v) if v else None}", chk.loc(f))
    if pads:
        w = pads[0].args[1]
        chk.add(rid, "Graph.stack pads only at the end", w[0] == "tuple" and T.const_value(w[1][0]) == 0, f"pad widths are {T.show(w)[:100]}, expected (0, max_len - len)", chk.loc(f))
    f = model.func("base.ExperimentRecord.stack")
    ev = SymEval(model)
    r = ev.run_function(f)
    ps = [e for e in r.events if e.kind == "call" and e.name == "self._padded_stack"]
    v = dict(ps[0].kwargs).get("fill_value") if ps else None
    chk.add(rid, "ExperimentRecord.stack pads with -1", v is not None and T.const_value(v) == -1, f"fill_value = {T.show(v) if v else None}", chk.loc(f))
    f = model.func("base.ExperimentRecord._padded_stack")
    ev = SymEval(model)
    r = ev.run_function(f)
    if r.env.get("_pad", T.NONE)[0] == "closure":
        n0 = len(ev.events)
        ev.invoke(r.env["_pad"], [("star", S("x"))], r.frame)
        pads = [e for e in ev.events[n0:] if e.kind == "call" and e.name == "numpy.pad"]
        ok = len(pads) == 1 and dict(pads[0].kwargs).get("constant_values") == S("fill_value")
        chk.add(rid, "_padded_stack uses the given fill value", ok, "_padded_stack must pad with fill_value", chk.loc(f))
    f = model.func("base.ExperimentRecord.to_graph")
    ev = SymEval(model)
    r = ev.run_function(f)
    ok = r.ret[0] == "call" and T.call_name(r.ret) == "rex.base.Graph.stack" and r.ret[2][0][0] == "comp" and T.call_name(r.ret[2][0][2]).endswith(".to_graph")
    chk.add(rid, "ExperimentRecord.to_graph stacks every episode's graph", ok, f"to_graph returns {T.show(r.ret)[:140]}", chk.loc(f))


def stores_through_derived_tables(r):
    """The store_sub events of an evaluated function, with the stores of a *second pass* over a table read in terms of that table's
    own entries: in `for key, c in table.items(): other[key] = f(c)` (table = {k(x): v(x) for x in ...} built by an earlier loop) the store
    is `other[k(x)] = f(v(x))`.  Sound for the derived table whatever the keys are: it is keyed exactly like the table it is derived from."""
    import dataclasses
    out = []
    for e in r.events:
        if e.kind != "store_sub":
            continue
        if len(e.loops) == 1 and e.loops[0] in r.loops:
            l = r.loops[e.loops[0]]
            it = l.iter
            if it is not None and it[0] == "call" and not it[2] and isinstance(it[1], tuple) and it[1][0] == "attr" and it[1][2] == "items" and it[1][1][0] == "comp" \
                    and it[1][1][1] == "dict" and it[1][1][2][0] == "tuple" and len(it[1][1][2][1]) == 2:
                k_, v_ = it[1][1][2][1]
                el = ("elem", it, l.uid)
                m = {T.mk_index(el, T.ZERO): k_, T.mk_index(el, T.ONE): v_}
                e = dataclasses.replace(e, key=T.subst(e.key, m) if e.key is not None else None, term=T.subst(e.term, m) if e.term is not None else None)
        out.append(e)
    return out
